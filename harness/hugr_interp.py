"""hugr_interp — a reference INTERPRETER for the lowered HUGR of a Guppy function.

Shared oracle for the run-time properties (C03 C04 C05 C07 C13 C16 C17 C18 C19 C20 C21 C26 C27):
it gives "what the compiled program computes" on concrete inputs, from the in-memory `hugr`
object produced by /repo's compiler (`feed.lower(defn).hugr`).  It does NOT import guppylang:
it only needs the installed `hugr` package, so the same file can interpret the HUGR emitted by
the installed guppylang 1.0.4 (that is how it is validated against the real emulator, see
`hugr_interp_validate.py` and notes/INTERP.md).

    import hugr_interp as hi
    r = hi.run(g.hugr, "f", [3, 4])                  # python values are converted by HUGR type
    r.status   -> 'value' | 'panic' | 'exit'
    r.value    -> python value (ints signed; see `ret_shape`) ; r.raw -> interpreter values
    r.msg      -> panic / exit message ; r.signal ; r.origin ('program' | 'op')
    r.trace    -> [(tag, python value)] from tket.result.* ops (also 'print' / StateResult)
    r.calls    -> [(f_name, (raw args...))] in execution order
    hi.run_guppy(m.f, [3, 4])                       # lowers with feed, shapes from the Guppy signature

Policy: an operation whose semantics is not implemented raises `Unsupported(name)` — a check must
skip that program and count it.  Semantics are never guessed: every implemented op is listed in
`notes/INTERP.md` with the source of its semantics.

Scheduling: inside a dataflow region every node is executed exactly once, in a topological order
of (value edges ∪ order edges ∪ edges into nested regions).  `order='default'` picks the earliest
created ready node, `order='adversarial'` the latest created ready node, `order=('random', seed)`
a random ready node.  A program whose observable behaviour differs between legal orders is
missing an order edge.
"""
from __future__ import annotations

import heapq
import math
import random
import struct
import sys
from dataclasses import dataclass, field
from typing import Any

import hugr.ops as ops
import hugr.tys as ht
import hugr.val as hv

__all__ = [
    "run", "run_guppy", "run_orders", "compare_behaviour", "Result", "Unsupported", "OutOfFuel", "InterpError",
    "Sum", "OBool", "Arr", "SArr", "FuncV", "Err", "Qubit", "BORROWED",
    "to_hugr", "from_hugr", "shape_of_guppy_type", "TRUE", "FALSE", "UNIT", "forget", "find_func", "Some", "Nothing",
]


# --------------------------------------------------------------------------------------
# exceptions
# --------------------------------------------------------------------------------------
class Unsupported(Exception):
    """An op / constant / feature the interpreter has no semantics for.  Checks: skip + count."""

    def __init__(self, name: str):
        super().__init__(name)
        self.name = name


class OutOfFuel(Exception):
    """The step (or call-depth) budget was exhausted; the program may diverge."""


class InterpError(Exception):
    """The HUGR is ill-formed for the interpreter (missing wire, arity/type confusion, impossible
    forced measurement outcome).  NOT a program result: for /repo output this means a lowering bug
    or an interpreter bug and deserves a look."""


class _Panic(Exception):
    def __init__(self, signal: int, msg: str, origin: str):
        self.signal, self.msg, self.origin = signal, msg, origin


class _Exit(Exception):
    def __init__(self, signal: int, msg: str):
        self.signal, self.msg = signal, msg


# --------------------------------------------------------------------------------------
# values
#   int<N>, usize : python int, the bit pattern read unsigned (0 <= v < 2^width)
#   float64       : python float
#   rotation      : python float (half turns)
#   string        : python str
# --------------------------------------------------------------------------------------
@dataclass(frozen=True)
class Sum:
    tag: int
    vals: tuple = ()


@dataclass(frozen=True)
class OBool:
    """tket.bool opaque bool"""
    v: bool


class _Borrowed:
    def __repr__(self) -> str:
        return "BORROWED"


BORROWED = _Borrowed()


@dataclass(frozen=True)
class Arr:
    """collections.array / collections.borrow_arr value; a cell is a value or BORROWED."""
    cells: tuple
    kind: str = "borrow"  # 'borrow' | 'std'


@dataclass(frozen=True)
class SArr:
    """collections.static_array"""
    vals: tuple


@dataclass(frozen=True)
class FuncV:
    node: int  # index of the FuncDefn
    targs: tuple = ()
    captured: tuple = ()


@dataclass(frozen=True)
class Err:
    signal: int
    msg: str


@dataclass(frozen=True)
class Qubit:
    id: int


@dataclass(frozen=True)
class Future:
    v: Any


@dataclass(frozen=True)
class TyC:
    """an unevaluated type argument together with the type-argument environment it lives in"""
    ty: Any
    env: tuple = field(default=(), compare=False)


TRUE = Sum(1, ())
FALSE = Sum(0, ())
UNIT = Sum(0, ())


def _b(x: bool) -> Sum:
    return TRUE if x else FALSE


# --------------------------------------------------------------------------------------
# result
# --------------------------------------------------------------------------------------
@dataclass
class Result:
    status: str  # 'value' | 'panic' | 'exit'
    raw: list | None = None  # interpreter values of the function outputs
    value: Any = None  # python conversion (one output -> the value; several -> tuple)
    msg: str | None = None
    signal: int | None = None
    origin: str | None = None  # 'program' (prelude.panic/exit) | 'op' (a panic inside an op)
    inouts: list = field(default_factory=list)  # final values of borrowed arguments (needs ret_shape)
    trace: list = field(default_factory=list)
    calls: list = field(default_factory=list)
    steps: int = 0

    def outcome(self):
        """canonical comparable summary: ('value', v) | ('panic', msg) | ('exit', msg, signal)"""
        if self.status == "value":
            return ("value", self.value)
        if self.status == "panic":
            return ("panic", self.msg)
        return ("exit", self.msg, self.signal)


# --------------------------------------------------------------------------------------
# helpers on hugr objects
# --------------------------------------------------------------------------------------
def _qualname(op) -> str | None:
    if isinstance(op, ops.Custom):
        return f"{op.extension}.{op.op_name}" if op.extension else op.op_name
    od = getattr(op, "op_def", None)
    if od is not None:
        try:
            return od().qualified_name()
        except Exception:  # noqa: BLE001
            return None
    return None


def _ext_args(op) -> list:
    if isinstance(op, ops.Custom | ops.ExtOp):
        return list(op.args)
    ta = getattr(op, "type_args", None)
    if ta is not None:
        try:
            return list(ta())
        except Exception:  # noqa: BLE001
            return []
    return []


_NONEXEC = (ops.Input, ops.Output, ops.Const, ops.FuncDefn, ops.FuncDecl, ops.AliasDecl, ops.AliasDefn)


class _Frame:
    __slots__ = ("vals", "targs", "name")

    def __init__(self, targs: tuple, name: str):
        self.vals: dict[tuple[int, int], Any] = {}
        self.targs = targs
        self.name = name


# --------------------------------------------------------------------------------------
# tiny state-vector simulator (numpy)
# --------------------------------------------------------------------------------------
class _QSim:
    def __init__(self, max_qubits: int, measure, seed: int):
        import numpy as np

        self.np = np
        self.state = np.ones(1, dtype=complex)
        self.pos: dict[int, int] = {}  # qubit id -> axis (0 = most significant)
        self.next_id = 0
        self.max_qubits = max_qubits
        self.rng = random.Random(seed)
        self.free_rng = random.Random(seed ^ 0x5DEECE66D)
        self.forced = list(measure) if isinstance(measure, list | tuple) else None
        self.measure_fn = measure if callable(measure) else None
        self.outcomes: list[int] = []

    def n(self) -> int:
        return len(self.pos)

    def alloc(self) -> Qubit | None:
        if self.n() >= self.max_qubits:
            return None
        np = self.np
        q = self.next_id
        self.next_id += 1
        self.pos[q] = self.n()
        self.state = np.kron(self.state, np.array([1, 0], dtype=complex))
        return Qubit(q)

    def _axis(self, q: Qubit) -> int:
        if q.id not in self.pos:
            raise InterpError(f"use of a freed or unknown qubit {q}")
        return self.pos[q.id]

    def apply(self, mat, *qs: Qubit) -> None:
        np = self.np
        n = self.n()
        k = len(qs)
        axes = [self._axis(q) for q in qs]
        if len(set(axes)) != k:
            raise InterpError("multi-qubit gate applied to the same qubit twice")
        psi = self.state.reshape([2] * n)
        m = np.asarray(mat, dtype=complex).reshape([2] * (2 * k))
        psi = np.tensordot(m, psi, axes=(list(range(k, 2 * k)), axes))
        psi = np.moveaxis(psi, list(range(k)), axes)
        self.state = psi.reshape(-1)

    def prob1(self, q: Qubit) -> float:
        np = self.np
        n = self.n()
        psi = self.state.reshape([2] * n)
        a = self._axis(q)
        p1 = float(np.sum(np.abs(np.take(psi, 1, axis=a)) ** 2))
        return min(1.0, max(0.0, p1))

    def _collapse(self, q: Qubit, outcome: int) -> None:
        np = self.np
        n = self.n()
        psi = self.state.reshape([2] * n).copy()
        a = self._axis(q)
        idx = [slice(None)] * n
        idx[a] = 1 - outcome
        psi[tuple(idx)] = 0
        nrm = math.sqrt(float(np.sum(np.abs(psi) ** 2)))
        if nrm < 1e-12:
            raise InterpError(f"forced measurement outcome {outcome} has probability 0")
        self.state = (psi / nrm).reshape(-1)

    def measure(self, q: Qubit, *, record: bool = True) -> int:
        p1 = self.prob1(q)
        if not record:
            out = 1 if self.free_rng.random() < p1 else 0
        elif self.forced is not None:
            if not self.forced:
                raise InterpError("forced measurement list exhausted")
            out = int(self.forced.pop(0))
        elif self.measure_fn is not None:
            out = int(self.measure_fn(p1))
        else:
            out = 1 if self.rng.random() < p1 else 0
        self._collapse(q, out)
        if record:
            self.outcomes.append(out)
        return out

    def reset(self, q: Qubit) -> None:
        out = self.measure(q, record=False)
        if out:
            self.apply([[0, 1], [1, 0]], q)

    def free(self, q: Qubit) -> None:
        """discard: collapse (unrecorded), then remove the (now factorised) axis"""
        np = self.np
        out = self.measure(q, record=False)
        n = self.n()
        a = self._axis(q)
        psi = np.take(self.state.reshape([2] * n), out, axis=a)
        self.state = psi.reshape(-1)
        del self.pos[q.id]
        for k, v in self.pos.items():
            if v > a:
                self.pos[k] = v - 1


def _rz(a):  # half turns
    return [[complex(math.cos(-math.pi * a / 2), math.sin(-math.pi * a / 2)), 0],
            [0, complex(math.cos(math.pi * a / 2), math.sin(math.pi * a / 2))]]


def _rx(a):
    c, s = math.cos(math.pi * a / 2), math.sin(math.pi * a / 2)
    return [[c, -1j * s], [-1j * s, c]]


def _ry(a):
    c, s = math.cos(math.pi * a / 2), math.sin(math.pi * a / 2)
    return [[c, -s], [s, c]]


def _matmul2(a, b):
    return [[sum(a[i][k] * b[k][j] for k in range(2)) for j in range(2)] for i in range(2)]


def _controlled(u, nctl=1):
    d = 2 ** (nctl + 1)
    m = [[1 if i == j else 0 for j in range(d)] for i in range(d)]
    for i in range(2):
        for j in range(2):
            m[d - 2 + i][d - 2 + j] = u[i][j]
    return m


_SQ = 1 / math.sqrt(2)
_GATES1 = {
    "H": [[_SQ, _SQ], [_SQ, -_SQ]],
    "X": [[0, 1], [1, 0]],
    "Y": [[0, -1j], [1j, 0]],
    "Z": [[1, 0], [0, -1]],
    "S": [[1, 0], [0, 1j]],
    "Sdg": [[1, 0], [0, -1j]],
    "T": [[1, 0], [0, complex(_SQ, _SQ)]],
    "Tdg": [[1, 0], [0, complex(_SQ, -_SQ)]],
    "V": _rx(0.5),
    "Vdg": _rx(-0.5),
}


# --------------------------------------------------------------------------------------
# the interpreter
# --------------------------------------------------------------------------------------
class Interp:
    def __init__(self, hugr, *, order="default", fuel=2_000_000, measure=None, seed=0,
                 max_qubits=12, max_depth=400, shot=0):
        self.h = hugr
        if order not in ("default", "adversarial") and not (
            isinstance(order, tuple) and len(order) == 2 and order[0] == "random"
        ):
            raise ValueError(f"order must be 'default', 'adversarial' or ('random', seed): {order!r}")
        self.order = order
        self._order_rng = random.Random(order[1]) if isinstance(order, tuple) else None
        self.fuel0 = fuel
        self.fuel = fuel
        self.max_depth = max_depth
        self.depth = 0
        self.trace: list = []
        self.calls: list = []
        # schedules depend on the graph only: cached on the hugr object across runs (the hugr must not be mutated
        # between runs; call `forget(hugr)` after a mutation)
        try:
            self._sched = hugr.__dict__.setdefault("_hugr_interp_sched", {})
        except AttributeError:
            self._sched = {}
        self._measure = measure
        self._seed = seed
        self._max_qubits = max_qubits
        self._qsim: _QSim | None = None
        self._shot = shot
        self._rng_ctx_live = False
        if sys.getrecursionlimit() < 60000:
            sys.setrecursionlimit(60000)

    # ---- structure ---------------------------------------------------------------
    def _children(self, n):
        return self.h[n].children

    def _desc_or_self(self, n):
        stack = [n]
        while stack:
            x = stack.pop()
            yield x
            stack.extend(self.h[x].children)

    def _child_of(self, n, parent):
        """the child of `parent` that is `n` or contains it, else None"""
        h = self.h
        while n is not None:
            p = h[n].parent
            if p == parent:
                return n
            n = p
        return None

    def _schedule(self, parent) -> list:
        key = (parent.idx, self.order if self._order_rng is None else None)
        got = self._sched.get(key)
        if got is not None and self._order_rng is None:
            return got
        h = self.h
        kids = list(self._children(parent))
        pos = {k.idx: i for i, k in enumerate(kids)}
        execs = [k for k in kids if not isinstance(h[k].op, _NONEXEC)]
        node_of = {k.idx: k for k in execs}
        preds: dict[int, set[int]] = {k.idx: set() for k in execs}
        for k in execs:
            for d in self._desc_or_self(k):
                for _port, srcs in h.incoming_links(d):
                    for s in srcs:
                        a = self._child_of(s.node, parent)
                        if a is not None and a.idx != k.idx and a.idx in preds:
                            preds[k.idx].add(a.idx)
        succs: dict[int, list[int]] = {i: [] for i in preds}
        indeg = {i: len(p) for i, p in preds.items()}
        for i, p in preds.items():
            for j in p:
                succs[j].append(i)

        def prio(i: int):
            if self.order == "default":
                return pos[i]
            if self.order == "adversarial":
                return -pos[i]
            return self._order_rng.random()

        heap = [(prio(i), i) for i, d in indeg.items() if d == 0]
        heapq.heapify(heap)
        out = []
        while heap:
            _, i = heapq.heappop(heap)
            out.append(node_of[i])
            for j in succs[i]:
                indeg[j] -= 1
                if indeg[j] == 0:
                    heapq.heappush(heap, (prio(j), j))
        if len(out) != len(execs):
            raise InterpError(f"cyclic dataflow region under node {parent.idx}")
        self._sched[key] = out
        return out

    # ---- type arguments ------------------------------------------------------------
    def _resolve_arg(self, a, targs: tuple):
        if isinstance(a, ht.BoundedNatArg):
            return a.n
        if isinstance(a, ht.StringArg):
            return a.value
        if isinstance(a, ht.VariableArg):
            if a.idx >= len(targs):
                raise InterpError(f"type variable ${a.idx} unbound (function called without type args?)")
            return targs[a.idx]
        if isinstance(a, ht.TypeTypeArg):
            ty = a.ty
            if isinstance(ty, ht.Variable) and ty.idx < len(targs):
                return targs[ty.idx]
            return TyC(ty, targs)
        if isinstance(a, ht.ListArg | ht.TupleArg):
            return tuple(self._resolve_arg(x, targs) for x in a.elems)
        return a

    def _nat(self, a, frame: _Frame) -> int:
        v = self._resolve_arg(a, frame.targs)
        if not isinstance(v, int):
            raise InterpError(f"expected a nat type argument, got {v!r}")
        return v

    # ---- region evaluation -----------------------------------------------------------
    def _eval_region(self, parent, ins: list, frame: _Frame) -> list:
        h = self.h
        kids = self._children(parent)
        if len(kids) < 2 or not isinstance(h[kids[0]].op, ops.Input) or not isinstance(h[kids[1]].op, ops.Output):
            raise InterpError(f"dataflow region {parent.idx} lacks Input/Output children")
        inp, outp = kids[0], kids[1]
        vals = frame.vals
        for i, v in enumerate(ins):
            vals[(inp.idx, i)] = v
        for n in self._schedule(parent):
            self._exec(n, frame)
        return self._in_values(outp, h[outp]._num_inps, frame)

    def _in_values(self, n, k: int, frame: _Frame) -> list:
        h = self.h
        out = []
        for i in range(k):
            srcs = list(h.linked_ports(n.inp(i)))
            if len(srcs) != 1:
                raise InterpError(f"node {n.idx} input {i} has {len(srcs)} sources")
            s = srcs[0]
            try:
                out.append(frame.vals[(s.node.idx, s.offset)])
            except KeyError:
                raise InterpError(
                    f"node {n.idx} input {i} reads {s.node.idx}.{s.offset} before it was computed"
                ) from None
        return out

    def _set_outs(self, n, outs: list, frame: _Frame) -> None:
        for i, v in enumerate(outs):
            frame.vals[(n.idx, i)] = v

    def _tick(self) -> None:
        self.fuel -= 1
        if self.fuel < 0:
            raise OutOfFuel(f"more than {self.fuel0} steps")

    def _static_source(self, n, port: int):
        srcs = list(self.h.linked_ports(n.inp(port)))
        if len(srcs) != 1:
            raise InterpError(f"node {n.idx} static input {port} has {len(srcs)} sources")
        return srcs[0].node

    # ---- node execution ----------------------------------------------------------------
    def _exec(self, n, frame: _Frame) -> None:
        self._tick()
        h = self.h
        d = h[n]
        op = d.op
        if isinstance(op, ops.LoadConst):
            c = h[self._static_source(n, 0)].op
            if not isinstance(c, ops.Const):
                raise InterpError(f"LoadConst {n.idx} not fed by a Const")
            self._set_outs(n, [self._const(c.val)], frame)
            return
        if isinstance(op, ops.LoadFunc):
            f = self._static_source(n, 0)
            targs = tuple(self._resolve_arg(a, frame.targs) for a in op.type_args)
            self._set_outs(n, [FuncV(f.idx, targs)], frame)
            return
        if isinstance(op, ops.Call):
            k = d._num_inps - 1
            args = self._in_values(n, k, frame)
            f = self._static_source(n, k)
            targs = tuple(self._resolve_arg(a, frame.targs) for a in op.type_args)
            self._set_outs(n, self._call(f, targs, args), frame)
            return
        if isinstance(op, ops.CallIndirect):
            ins = self._in_values(n, d._num_inps, frame)
            fv = ins[0]
            if not isinstance(fv, FuncV):
                raise InterpError(f"CallIndirect {n.idx} on a non-function {fv!r}")
            self._set_outs(n, self._call_value(fv, ins[1:]), frame)
            return
        if isinstance(op, ops.Tag):
            self._set_outs(n, [Sum(op.tag, tuple(self._in_values(n, d._num_inps, frame)))], frame)
            return
        if isinstance(op, ops.MakeTuple):
            self._set_outs(n, [Sum(0, tuple(self._in_values(n, d._num_inps, frame)))], frame)
            return
        if isinstance(op, ops.UnpackTuple):
            (t,) = self._in_values(n, 1, frame)
            self._set_outs(n, list(self._as_sum(t).vals), frame)
            return
        if isinstance(op, ops.Noop):
            self._set_outs(n, self._in_values(n, 1, frame), frame)
            return
        if isinstance(op, ops.DFG):
            ins = self._in_values(n, d._num_inps, frame)
            self._set_outs(n, self._eval_region(n, ins, frame), frame)
            return
        if isinstance(op, ops.CFG):
            ins = self._in_values(n, d._num_inps, frame)
            self._set_outs(n, self._eval_cfg(n, ins, frame), frame)
            return
        if isinstance(op, ops.Conditional):
            ins = self._in_values(n, d._num_inps, frame)
            s = self._as_sum(ins[0])
            cases = self._children(n)
            if not 0 <= s.tag < len(cases):
                raise InterpError(f"Conditional {n.idx}: tag {s.tag} but {len(cases)} cases")
            self._set_outs(n, self._eval_region(cases[s.tag], list(s.vals) + ins[1:], frame), frame)
            return
        if isinstance(op, ops.TailLoop):
            ins = self._in_values(n, d._num_inps, frame)
            nj = len(op.just_inputs)
            just, rest = ins[:nj], ins[nj:]
            while True:
                self._tick()
                outs = self._eval_region(n, just + rest, frame)
                s = self._as_sum(outs[0])
                rest = outs[1:]
                if s.tag == 0:
                    just = list(s.vals)
                elif s.tag == 1:
                    self._set_outs(n, list(s.vals) + rest, frame)
                    return
                else:
                    raise InterpError(f"TailLoop {n.idx}: control tag {s.tag}")
        name = _qualname(op)
        if name is None:
            raise Unsupported(f"op:{type(op).__name__}")
        ins = self._in_values(n, d._num_inps, frame)
        fn = _EXT.get(name)
        if fn is None:
            ext = name.rsplit(".", 1)[0]
            gen = _EXT_GENERIC.get(ext)
            if gen is None:
                raise Unsupported(name)
            outs = gen(self, name.rsplit(".", 1)[1], op, ins, frame, n)
        else:
            outs = fn(self, op, ins, frame, n)
        if len(outs) != d._num_outs:
            raise InterpError(f"{name} at node {n.idx}: produced {len(outs)} outputs, node has {d._num_outs}")
        self._set_outs(n, outs, frame)

    @staticmethod
    def _as_sum(v) -> Sum:
        if not isinstance(v, Sum):
            raise InterpError(f"expected a sum/tuple value, got {v!r}")
        return v

    def _eval_cfg(self, cfg, ins: list, frame: _Frame) -> list:
        h = self.h
        kids = self._children(cfg)
        if not kids:
            raise InterpError(f"empty CFG {cfg.idx}")
        block = kids[0]
        while True:
            self._tick()
            bop = h[block].op
            if isinstance(bop, ops.ExitBlock):
                return ins
            if not isinstance(bop, ops.DataflowBlock):
                raise InterpError(f"CFG child {block.idx} is {type(bop).__name__}")
            outs = self._eval_region(block, ins, frame)
            s = self._as_sum(outs[0])
            succ = list(h.linked_ports(block.out(s.tag)))
            if len(succ) != 1:
                raise InterpError(f"block {block.idx} branch {s.tag} has {len(succ)} successors")
            ins = list(s.vals) + outs[1:]
            block = succ[0].node

    # ---- calls -----------------------------------------------------------------------
    def _call_value(self, fv: FuncV, args: list) -> list:
        return self._call(self._node(fv.node), fv.targs, list(fv.captured) + list(args))

    def _node(self, idx: int):
        from hugr.hugr.node_port import Node

        return Node(idx)

    def _call(self, f, targs: tuple, args: list) -> list:
        op = self.h[f].op
        if isinstance(op, ops.FuncDecl):
            raise Unsupported(f"FuncDecl:{op.f_name}")
        if not isinstance(op, ops.FuncDefn):
            raise InterpError(f"call target {f.idx} is {type(op).__name__}")
        if len(targs) != len(op.params):
            raise InterpError(f"{op.f_name}: {len(op.params)} type params, {len(targs)} type args")
        self.calls.append((op.f_name, tuple(args)))
        self.depth += 1
        if self.depth > self.max_depth:
            raise OutOfFuel(f"call depth > {self.max_depth}")
        try:
            return self._eval_region(f, args, _Frame(targs, op.f_name))
        finally:
            self.depth -= 1

    # ---- constants ---------------------------------------------------------------------
    def _const(self, v):
        if isinstance(v, hv.Sum):
            return Sum(v.tag, tuple(self._const(x) for x in v.vals))
        cls = type(v).__name__
        if cls == "IntVal":
            return v.v & ((1 << (1 << v.width)) - 1)
        if cls == "UnsignedIntVal":
            return v.v & ((1 << (1 << v.width)) - 1)
        if cls == "FloatVal":
            return float(v.v)
        if cls == "OpaqueBoolVal":
            return OBool(bool(v.v))
        if cls in ("ErrorVal",):
            return Err(int(v.signal), str(v.message))
        if cls == "StringVal":
            return str(v.v)
        if cls == "StaticArrayVal":
            return SArr(tuple(self._const(x) for x in v.v))
        if cls == "BorrowArrayVal":
            return Arr(tuple(self._const(x) for x in v.v), "borrow")
        if cls == "ArrayVal":
            return Arr(tuple(self._const(x) for x in v.v), "std")
        if isinstance(v, hv.Extension):
            nm, p = v.name, v.val
            if nm == "ConstInt":
                return int(p["value"]) & ((1 << (1 << int(p["log_width"]))) - 1)
            if nm == "ConstF64":
                return float(p["value"])
            if nm == "ConstBool":
                return OBool(bool(p))
            if nm == "ConstError":
                return Err(int(p["signal"]), str(p["message"]))
            if nm == "ConstString":
                return str(p)
            if nm == "ConstUsize":
                return int(p) & ((1 << 64) - 1)
            if nm == "ConstRotation":
                return float(p["half_turns"]) if isinstance(p, dict) and "half_turns" in p else self._unsup(nm)
            raise Unsupported(f"const:{nm}")
        tv = getattr(v, "to_value", None)
        if tv is not None and not isinstance(v, hv.Extension):
            return self._const(tv())
        raise Unsupported(f"const:{cls}")

    @staticmethod
    def _unsup(nm):
        raise Unsupported(f"const:{nm}")

    # ---- quantum ---------------------------------------------------------------------
    def qsim(self) -> _QSim:
        if self._qsim is None:
            try:
                self._qsim = _QSim(self._max_qubits, self._measure, self._seed)
            except ImportError:
                raise Unsupported("quantum:numpy-missing") from None
        return self._qsim


# --------------------------------------------------------------------------------------
# extension op semantics
#   handler(interp, op, ins, frame, node) -> list of outputs
# --------------------------------------------------------------------------------------
_EXT: dict[str, Any] = {}
_EXT_GENERIC: dict[str, Any] = {}


def _ext(*names):
    def deco(f):
        for nm in names:
            _EXT[nm] = f
        return f

    return deco


def _op_panic(msg: str):
    """a panic raised inside an op (message text is the interpreter's, not the runtime's)"""
    raise _Panic(1, msg, "op")


# ---- prelude -------------------------------------------------------------------------
@_ext("prelude.MakeTuple")
def _p_mt(I, op, ins, fr, n):
    return [Sum(0, tuple(ins))]


@_ext("prelude.UnpackTuple")
def _p_ut(I, op, ins, fr, n):
    return list(I._as_sum(ins[0]).vals)


@_ext("prelude.Noop", "prelude.Barrier")
def _p_noop(I, op, ins, fr, n):
    return list(ins)


@_ext("prelude.panic")
def _p_panic(I, op, ins, fr, n):
    e = ins[0]
    if not isinstance(e, Err):
        raise InterpError(f"panic on a non-error {e!r}")
    raise _Panic(e.signal, e.msg, "program")


@_ext("prelude.exit")
def _p_exit(I, op, ins, fr, n):
    e = ins[0]
    if not isinstance(e, Err):
        raise InterpError(f"exit on a non-error {e!r}")
    raise _Exit(e.signal, e.msg)


@_ext("prelude.MakeError")
def _p_mkerr(I, op, ins, fr, n):
    return [Err(int(ins[0]), str(ins[1]))]


@_ext("prelude.load_nat")
def _p_loadnat(I, op, ins, fr, n):
    return [I._nat(_ext_args(op)[0], fr) & _M64]


@_ext("prelude.print")
def _p_print(I, op, ins, fr, n):
    I.trace.append(("print", ins[0]))
    return []


# ---- arithmetic.int ------------------------------------------------------------------
_M64 = (1 << 64) - 1


def _width(I, op, fr, k=0) -> int:
    return 1 << I._nat(_ext_args(op)[k], fr)


def _sgn(x: int, w: int) -> int:
    return x - (1 << w) if x >> (w - 1) else x


def _int_generic(I, nm, op, ins, fr, n):
    if nm in ("iwiden_u", "iwiden_s", "inarrow_u", "inarrow_s"):
        wf, wt = _width(I, op, fr, 0), _width(I, op, fr, 1)
        (a,) = ins
        if nm == "iwiden_u":
            return [a]
        if nm == "iwiden_s":
            return [_sgn(a, wf) & ((1 << wt) - 1)]
        if nm == "inarrow_u":
            return [Sum(1, (a,)) if a < (1 << wt) else Sum(0, (Err(2, "Can't narrow into bounds"),))]
        s = _sgn(a, wf)
        ok = -(1 << (wt - 1)) <= s < (1 << (wt - 1))
        return [Sum(1, (s & ((1 << wt) - 1),)) if ok else Sum(0, (Err(2, "Can't narrow into bounds"),))]
    w = _width(I, op, fr)
    m = (1 << w) - 1
    S = lambda x: _sgn(x, w)  # noqa: E731
    if len(ins) == 2:
        a, b = ins
        if not (isinstance(a, int) and isinstance(b, int)) or isinstance(a, bool):
            raise InterpError(f"{nm}: non-integer operands {a!r}, {b!r}")
        match nm:
            case "iadd":
                return [(a + b) & m]
            case "isub":
                return [(a - b) & m]
            case "imul":
                return [(a * b) & m]
            case "iand":
                return [a & b]
            case "ior":
                return [a | b]
            case "ixor":
                return [a ^ b]
            case "ishl":  # k read unsigned; all bits dropped when k >= N
                return [(a << b) & m if b < w else 0]
            case "ishr":  # logical
                return [a >> b if b < w else 0]
            case "irotl":
                k = b % w
                return [((a << k) | (a >> (w - k))) & m]
            case "irotr":
                k = b % w
                return [((a >> k) | (a << (w - k))) & m]
            case "ipow":  # exponent unsigned, result modulo 2^N
                return [pow(a, b, 1 << w)]
            case "idivmod_u" | "idiv_u" | "imod_u":
                if b == 0:
                    _op_panic(f"{nm}: division by zero")
                q, r = a // b, a % b
                return [q, r] if nm == "idivmod_u" else [q] if nm == "idiv_u" else [r]
            case "idivmod_s" | "idiv_s" | "imod_s":
                # n signed, m UNSIGNED; q*m + r = n, 0 <= r < m
                if b == 0:
                    _op_panic(f"{nm}: division by zero")
                q, r = divmod(S(a), b)
                q, r = q & m, r & m
                return [q, r] if nm == "idivmod_s" else [q] if nm == "idiv_s" else [r]
            case "ieq":
                return [_b(a == b)]
            case "ine":
                return [_b(a != b)]
            case "ilt_u":
                return [_b(a < b)]
            case "ile_u":
                return [_b(a <= b)]
            case "igt_u":
                return [_b(a > b)]
            case "ige_u":
                return [_b(a >= b)]
            case "ilt_s":
                return [_b(S(a) < S(b))]
            case "ile_s":
                return [_b(S(a) <= S(b))]
            case "igt_s":
                return [_b(S(a) > S(b))]
            case "ige_s":
                return [_b(S(a) >= S(b))]
            case "imax_u":
                return [max(a, b)]
            case "imin_u":
                return [min(a, b)]
            case "imax_s":
                return [max(S(a), S(b)) & m]
            case "imin_s":
                return [min(S(a), S(b)) & m]
    elif len(ins) == 1:
        (a,) = ins
        match nm:
            case "ineg":
                return [(-a) & m]
            case "inot":
                return [a ^ m]
            case "iabs":
                return [abs(S(a)) & m]
            case "is_to_u":
                if S(a) < 0:
                    _op_panic("is_to_u: negative value")
                return [a]
            case "iu_to_s":
                if S(a) < 0:
                    _op_panic("iu_to_s: value does not fit the signed range")
                return [a]
    raise Unsupported(f"arithmetic.int.{nm}")


_EXT_GENERIC["arithmetic.int"] = _int_generic


# ---- arithmetic.conversions -------------------------------------------------------------
def _conv_generic(I, nm, op, ins, fr, n):
    match nm:
        case "itousize" | "ifromusize":
            return [ins[0] & _M64]
        case "ifrombool":
            return [I._as_sum(ins[0]).tag & 1]
        case "itobool":
            return [_b(ins[0] & 1 == 1)]
        case "convert_s":
            return [float(_sgn(ins[0], _width(I, op, fr)))]
        case "convert_u":
            return [float(ins[0])]
        case "trunc_s" | "trunc_u":
            w = _width(I, op, fr)
            f = ins[0]
            err = Sum(0, (Err(2, f"Float value too big to convert to int of given width ({w})"),))
            if f != f or f in (math.inf, -math.inf):
                return [err]
            t = math.trunc(f)
            if nm == "trunc_s":
                ok = -(1 << (w - 1)) <= t < (1 << (w - 1))
            else:
                ok = f >= 0.0 and t < (1 << w)  # any negative value (even in (-1, 0)) is an error; -0.0 is 0
            return [Sum(1, (t & ((1 << w) - 1),)) if ok else err]
        case "bytecast_float64_to_int64":
            return [struct.unpack("<Q", struct.pack("<d", ins[0]))[0]]
        case "bytecast_int64_to_float64":
            return [struct.unpack("<d", struct.pack("<Q", ins[0] & _M64))[0]]
        case "itostring_s":
            return [str(_sgn(ins[0], _width(I, op, fr)))]
        case "itostring_u":
            return [str(ins[0])]
    raise Unsupported(f"arithmetic.conversions.{nm}")


_EXT_GENERIC["arithmetic.conversions"] = _conv_generic


# ---- arithmetic.float (IEEE-754 binary64) -------------------------------------------------
def _fdiv(a: float, b: float) -> float:
    try:
        return a / b
    except ZeroDivisionError:
        if a != a or a == 0.0:
            return math.nan
        neg = (math.copysign(1.0, a) < 0) != (math.copysign(1.0, b) < 0)
        return -math.inf if neg else math.inf


def _fpow(a: float, b: float) -> float:
    """C99 `pow` (Annex F special cases), which `llvm.pow` lowers to.  `math.pow` is the platform libm `pow` and
    raises where C sets errno: those cases are mapped back to the C results.  Not correctly rounded: other libm
    builds may differ in the last bit."""
    try:
        return math.pow(a, b)
    except OverflowError:
        neg = a < 0 and b == math.floor(b) and math.fmod(b, 2.0) != 0.0
        return -math.inf if neg else math.inf
    except ValueError:
        if a == 0.0 and b < 0:  # pole: pow(+-0, y<0)
            odd = b == math.floor(b) and math.fmod(b, 2.0) != 0.0
            return math.copysign(math.inf, a) if odd else math.inf
        return math.nan  # negative base, finite non-integer exponent


def _fround_away(a: float) -> float:
    """C `round`: nearest integer, halfway cases away from zero"""
    if a != a or a in (math.inf, -math.inf):
        return a
    x = abs(a)
    if x >= 2.0**52:  # already an integer
        return a
    r = float(math.floor(x))
    if x - r >= 0.5:  # exact: x < 2^52
        r += 1.0
    return math.copysign(float(r), a)


def _float_generic(I, nm, op, ins, fr, n):
    for x in ins:
        if not isinstance(x, float):
            raise InterpError(f"{nm}: non-float operand {x!r}")
    if len(ins) == 2:
        a, b = ins
        match nm:
            case "fadd":
                return [a + b]
            case "fsub":
                return [a - b]
            case "fmul":
                return [a * b]
            case "fdiv":
                return [_fdiv(a, b)]
            case "fpow":
                return [_fpow(a, b)]
            case "feq":
                return [_b(a == b)]
            case "fne":
                return [_b(a != b)]
            case "flt":
                return [_b(a < b)]
            case "fle":
                return [_b(a <= b)]
            case "fgt":
                return [_b(a > b)]
            case "fge":
                return [_b(a >= b)]
    elif len(ins) == 1:
        (a,) = ins
        fin = a == a and a not in (math.inf, -math.inf)
        match nm:
            case "fneg":
                return [-a]
            case "fabs":
                return [abs(a)]
            case "ffloor":
                return [math.copysign(float(math.floor(a)), a) if fin else a]
            case "fceil":
                return [math.copysign(float(math.ceil(a)), a) if fin else a]
            case "fround":
                return [_fround_away(a)]
            case "froundeven":
                return [math.copysign(float(round(a)), a) if fin else a]
    raise Unsupported(f"arithmetic.float.{nm}")


_EXT_GENERIC["arithmetic.float"] = _float_generic


# ---- logic / tket.bool -----------------------------------------------------------------
def _logic_generic(I, nm, op, ins, fr, n):
    bs = [I._as_sum(x).tag == 1 for x in ins]
    match nm.lower(), len(bs):
        case "and", 2:
            return [_b(bs[0] and bs[1])]
        case "or", 2:
            return [_b(bs[0] or bs[1])]
        case "xor", 2:
            return [_b(bs[0] != bs[1])]
        case "eq", 2:
            return [_b(bs[0] == bs[1])]
        case "not", 1:
            return [_b(not bs[0])]
    raise Unsupported(f"logic.{nm}")


_EXT_GENERIC["logic"] = _logic_generic


def _tbool_generic(I, nm, op, ins, fr, n):
    if nm == "read":
        (a,) = ins
        if not isinstance(a, OBool):
            raise InterpError(f"tket.bool.read on {a!r}")
        return [_b(a.v)]
    if nm == "make_opaque":
        return [OBool(I._as_sum(ins[0]).tag == 1)]
    for x in ins:
        if not isinstance(x, OBool):
            raise InterpError(f"tket.bool.{nm} on {x!r}")
    bs = [x.v for x in ins]
    match nm, len(bs):
        case "not", 1:
            return [OBool(not bs[0])]
        case "and", 2:
            return [OBool(bs[0] and bs[1])]
        case "or", 2:
            return [OBool(bs[0] or bs[1])]
        case "xor", 2:
            return [OBool(bs[0] != bs[1])]
        case "eq", 2:
            return [OBool(bs[0] == bs[1])]
    raise Unsupported(f"tket.bool.{nm}")


_EXT_GENERIC["tket.bool"] = _tbool_generic


# ---- collections.array / collections.borrow_arr / static_array -----------------------------------
def _arr(v, nm) -> Arr:
    if not isinstance(v, Arr):
        raise InterpError(f"{nm}: expected an array, got {v!r}")
    return v


def _array_generic_for(kind: str, ext: str):
    def handler(I, nm, op, ins, fr, n):
        full = f"{ext}.{nm}"
        if nm == "new_array":
            return [Arr(tuple(ins), kind)]
        if nm == "new_all_borrowed" and kind == "borrow":
            return [Arr((BORROWED,) * I._nat(_ext_args(op)[0], fr), kind)]
        if nm == "repeat":
            k = I._nat(_ext_args(op)[0], fr)
            cells = []
            for _ in range(k):
                (v,) = I._call_value(ins[0], [])
                cells.append(v)
            return [Arr(tuple(cells), kind)]
        if nm == "from_array" and kind == "borrow":
            return [Arr(_arr(ins[0], full).cells, "borrow")]
        a = _arr(ins[0], full)
        cells = a.cells
        ln = len(cells)

        def present(i):
            if cells[i] is BORROWED:
                _op_panic(f"{full}: element {i} is borrowed")
            return cells[i]

        def all_present():
            for i in range(ln):
                present(i)

        match nm:
            case "get":
                i = ins[1]
                if i >= ln:
                    return [Sum(0, ()), a]
                return [Sum(1, (present(i),)), a]
            case "set":
                i, v = ins[1], ins[2]
                if i >= ln:
                    return [Sum(0, (v, a))]
                old = present(i)
                return [Sum(1, (old, Arr(cells[:i] + (v,) + cells[i + 1:], kind)))]
            case "swap":
                i, j = ins[1], ins[2]
                if i >= ln or j >= ln:
                    return [Sum(0, (a,))]
                present(i), present(j)
                c = list(cells)
                c[i], c[j] = c[j], c[i]
                return [Sum(1, (Arr(tuple(c), kind),))]
            case "pop_left":
                if ln == 0:
                    return [Sum(0, ())]
                return [Sum(1, (present(0), Arr(cells[1:], kind)))]
            case "pop_right":
                if ln == 0:
                    return [Sum(0, ())]
                return [Sum(1, (present(ln - 1), Arr(cells[:-1], kind)))]
            case "unpack":
                all_present()
                return list(cells)
            case "discard_empty":
                if ln != 0:
                    raise InterpError(f"{full} on an array of length {ln}")
                return []
            case "discard":
                all_present()
                return []
            case "clone":
                all_present()
                return [a, a]
            case "scan":
                f = ins[1]
                accs = list(ins[2:])
                out = []
                for i in range(ln):
                    r = I._call_value(f, [present(i), *accs])
                    out.append(r[0])
                    accs = r[1:]
                return [Arr(tuple(out), kind), *accs]
        if kind == "borrow":
            match nm:
                case "borrow":
                    i = ins[1]
                    if i >= ln:
                        _op_panic(f"{full}: index {i} out of bounds for length {ln}")
                    v = present(i)
                    return [Arr(cells[:i] + (BORROWED,) + cells[i + 1:], kind), v]
                case "return":
                    i, v = ins[1], ins[2]
                    if i >= ln:
                        _op_panic(f"{full}: index {i} out of bounds for length {ln}")
                    if cells[i] is not BORROWED:
                        _op_panic(f"{full}: element {i} is not borrowed")
                    return [Arr(cells[:i] + (v,) + cells[i + 1:], kind)]
                case "is_borrowed":
                    i = ins[1]
                    if i >= ln:
                        _op_panic(f"{full}: index {i} out of bounds for length {ln}")
                    return [a, _b(cells[i] is BORROWED)]
                case "discard_all_borrowed":
                    for i in range(ln):
                        if cells[i] is not BORROWED:
                            _op_panic(f"{full}: element {i} is not borrowed")
                    return []
                case "to_array":
                    all_present()
                    return [Arr(cells, "std")]
        raise Unsupported(full)

    return handler


_EXT_GENERIC["collections.borrow_arr"] = _array_generic_for("borrow", "collections.borrow_arr")
_EXT_GENERIC["collections.array"] = _array_generic_for("std", "collections.array")


def _sarr_generic(I, nm, op, ins, fr, n):
    a = ins[0]
    if not isinstance(a, SArr):
        raise InterpError(f"static_array.{nm} on {a!r}")
    if nm == "get":
        i = ins[1]
        return [Sum(1, (a.vals[i],)) if i < len(a.vals) else Sum(0, ())]
    if nm == "len":
        return [len(a.vals)]
    raise Unsupported(f"collections.static_array.{nm}")


_EXT_GENERIC["collections.static_array"] = _sarr_generic


# ---- tket.guppy / guppylang ----------------------------------------------------------------
@_ext("tket.guppy.drop")
def _g_drop(I, op, ins, fr, n):
    return []


@_ext("guppylang.partial")
def _g_partial(I, op, ins, fr, n):
    f = ins[0]
    if not isinstance(f, FuncV):
        raise InterpError(f"partial on a non-function {f!r}")
    return [FuncV(f.node, f.targs, f.captured + tuple(ins[1:]))]


# ---- tket.result / tket.debug ----------------------------------------------------------------
def _result_generic(I, nm, op, ins, fr, n):
    args = _ext_args(op)
    tag = I._resolve_arg(args[0], fr.targs)
    (v,) = ins

    def one(kind, x, w):
        if kind == "int":
            return _sgn(x, w)
        if kind == "uint":
            return x
        if kind == "f64":
            if not isinstance(x, float):
                raise InterpError(f"result_f64 of {x!r}")
            return x
        if kind == "bool":
            return I._as_sum(x).tag == 1
        raise Unsupported(f"tket.result.{nm}")

    if nm.startswith("result_array_"):
        kind = nm[len("result_array_"):]
        w = (1 << I._nat(args[2], fr)) if kind in ("int", "uint") else 0
        a = _arr(v, nm)
        for c in a.cells:
            if c is BORROWED:
                raise InterpError("result of an array with a borrowed element")
        I.trace.append((tag, [one(kind, c, w) for c in a.cells]))
        return []
    if nm.startswith("result_"):
        kind = nm[len("result_"):]
        w = (1 << I._nat(args[1], fr)) if kind in ("int", "uint") else 0
        I.trace.append((tag, one(kind, v, w)))
        return []
    raise Unsupported(f"tket.result.{nm}")


_EXT_GENERIC["tket.result"] = _result_generic


# ---- tket.rotation ------------------------------------------------------------------------
def _rotation_generic(I, nm, op, ins, fr, n):
    match nm:
        case "from_halfturns_unchecked":
            f = ins[0]
            if f != f or f in (math.inf, -math.inf):
                _op_panic("from_halfturns_unchecked: non-finite")
            return [f]
        case "from_halfturns":
            f = ins[0]
            if f != f or f in (math.inf, -math.inf):
                return [Sum(0, ())]
            return [Sum(1, (f,))]
        case "to_halfturns":
            return [ins[0]]
        case "radd":
            return [ins[0] + ins[1]]
    raise Unsupported(f"tket.rotation.{nm}")


_EXT_GENERIC["tket.rotation"] = _rotation_generic


# ---- tket.quantum / tket.qsystem / tket.futures ------------------------------------------------
def _quantum_generic(I, nm, op, ins, fr, n):
    q = I.qsim()
    nouts = I.h[n]._num_outs
    if nm in _GATES1:
        q.apply(_GATES1[nm], ins[0])
        return [ins[0]]
    match nm:
        case "Rz" | "Rx" | "Ry":
            q.apply({"Rz": _rz, "Rx": _rx, "Ry": _ry}[nm](ins[1]), ins[0])
            return [ins[0]]
        case "CX" | "CY" | "CZ":
            q.apply(_controlled(_GATES1[nm[1]]), ins[0], ins[1])
            return [ins[0], ins[1]]
        case "CRz":
            q.apply(_controlled(_rz(ins[2])), ins[0], ins[1])
            return [ins[0], ins[1]]
        case "Toffoli":
            q.apply(_controlled(_GATES1["X"], 2), ins[0], ins[1], ins[2])
            return list(ins)
        case "QAlloc":
            x = q.alloc()
            if x is None:
                _op_panic("QAlloc: no more qubits available")
            return [x]
        case "TryQAlloc":
            x = q.alloc()
            return [Sum(0, ()) if x is None else Sum(1, (x,))]
        case "QFree":
            q.free(ins[0])
            return []
        case "Reset":
            q.reset(ins[0])
            return [ins[0]]
        case "Measure":
            r = q.measure(ins[0])
            return [ins[0], _b(r == 1)]
        case "MeasureFree":
            r = q.measure(ins[0])
            q.free(ins[0])
            if nouts != 1:
                raise Unsupported("tket.quantum.MeasureFree:arity")
            # /repo 0.21.6 declares the output as tket.bool; the op hands back an opaque bool there
            out_ty = _out_type(I, op, 0)
            if out_ty in ("Bool", "Measurement"):  # 1.0.4: tket.measurement.Measurement, read by `Read`
                return [_b(r == 1)]
            if out_ty == "bool":
                return [OBool(r == 1)]
            raise Unsupported(f"tket.quantum.MeasureFree -> {out_ty}")
    raise Unsupported(f"tket.quantum.{nm}")


def _out_type(I, op, i) -> str:
    sig = getattr(op, "signature", None)
    if sig is None:
        cs = getattr(op, "cached_signature", None)
        sig = cs() if cs else None
    if sig is None:
        raise Unsupported("op-without-signature")
    return str(sig.output[i])


_EXT_GENERIC["tket.quantum"] = _quantum_generic


def _qsystem_generic(I, nm, op, ins, fr, n):
    q = I.qsim()
    match nm:
        case "PhasedX":
            a, b = ins[1], ins[2]
            q.apply(_matmul2(_rz(b), _matmul2(_rx(a), _rz(-b))), ins[0])
            return [ins[0]]
        case "Rz":
            q.apply(_rz(ins[1]), ins[0])
            return [ins[0]]
        case "ZZPhase":
            a = ins[2]
            e0 = complex(math.cos(-math.pi * a / 2), math.sin(-math.pi * a / 2))
            e1 = complex(math.cos(math.pi * a / 2), math.sin(math.pi * a / 2))
            q.apply([[e0, 0, 0, 0], [0, e1, 0, 0], [0, 0, e1, 0], [0, 0, 0, e0]], ins[0], ins[1])
            return [ins[0], ins[1]]
        case "TryQAlloc":
            x = q.alloc()
            return [Sum(0, ()) if x is None else Sum(1, (x,))]
        case "QFree":
            q.free(ins[0])
            return []
        case "Reset":
            q.reset(ins[0])
            return [ins[0]]
        case "LazyMeasure":
            r = q.measure(ins[0])
            q.free(ins[0])
            return [Future(_b(r == 1))]
        case "LazyMeasureReset":
            r = q.measure(ins[0])
            if r:
                q.apply(_GATES1["X"], ins[0])
            return [ins[0], Future(_b(r == 1))]
        case "MeasureReset":
            r = q.measure(ins[0])
            if r:
                q.apply(_GATES1["X"], ins[0])
            return [ins[0], _b(r == 1)]
        case "Measure":
            r = q.measure(ins[0])
            q.free(ins[0])
            return [_b(r == 1)]
        case "RuntimeBarrier":
            return [ins[0]]
    raise Unsupported(f"tket.qsystem.{nm}")


_EXT_GENERIC["tket.qsystem"] = _qsystem_generic


def _futures_generic(I, nm, op, ins, fr, n):
    f = ins[0]
    if not isinstance(f, Future):
        raise InterpError(f"tket.futures.{nm} on {f!r}")
    match nm:
        case "Read":
            return [f.v]
        case "Dup":
            return [f, f]
        case "Free":
            return []
    raise Unsupported(f"tket.futures.{nm}")


_EXT_GENERIC["tket.futures"] = _futures_generic


@_ext("tket.measurement.Read")
def _m_read(I, op, ins, fr, n):
    return [_b(I._as_sum(ins[0]).tag == 1)]


@_ext("tket.qsystem.utils.GetCurrentShot")
def _q_shot(I, op, ins, fr, n):
    return [I._shot & _M64]


# --------------------------------------------------------------------------------------
# python <-> interpreter values
# --------------------------------------------------------------------------------------
def _is_opt(ty) -> bool:
    return isinstance(ty, ht.Sum) and len(ty.variant_rows) == 2 and len(ty.variant_rows[0]) == 0 \
        and len(ty.variant_rows[1]) >= 1


def _tyname(ty) -> str:
    if isinstance(ty, ht.ExtType):
        td = ty.type_def
        ext = getattr(td, "_extension", None)
        return f"{ext.name}.{td.name}" if ext is not None else td.name
    if isinstance(ty, ht.Opaque):
        return f"{ty.extension}.{ty.id}" if ty.extension else ty.id
    return ""


class Nothing:
    """python-side marker for an empty Option (as argument)"""


@dataclass(frozen=True)
class Some:
    v: Any


def to_hugr(x, ty=None):
    """python value -> interpreter value, directed by the HUGR type `ty` of the port it is fed to.
    Interpreter values (Sum, Arr, OBool, ...) pass through unchanged."""
    if isinstance(x, Sum | Arr | SArr | OBool | FuncV | Err | Qubit):
        return x
    if ty is None:
        if isinstance(x, bool):
            return OBool(x)
        if isinstance(x, int):
            return x & _M64
        if isinstance(x, float):
            return x
        if isinstance(x, tuple):
            return Sum(0, tuple(to_hugr(e) for e in x))
        if isinstance(x, list):
            return Arr(tuple(to_hugr(e) for e in x), "borrow")
        if x is None:
            return UNIT
        raise InterpError(f"cannot convert {x!r} without a type")
    nm = _tyname(ty)
    if nm.endswith("int") and nm.startswith("arithmetic"):
        w = 1 << ty.args[0].n
        if isinstance(x, bool) or not isinstance(x, int):
            raise InterpError(f"expected an int for {ty}, got {x!r}")
        return x & ((1 << w) - 1)
    if nm.endswith("float64"):
        return float(x)
    if nm == "tket.bool.bool":
        return OBool(bool(x))
    if nm == "prelude.usize":
        return int(x) & _M64
    if nm == "prelude.string":
        return str(x)
    if nm in ("collections.borrow_arr.borrow_array", "collections.array.array"):
        et = ty.args[1].ty
        kind = "borrow" if "borrow" in nm else "std"
        return Arr(tuple(BORROWED if e is BORROWED else to_hugr(e, et) for e in x), kind)
    if nm == "collections.static_array.static_array":
        return SArr(tuple(to_hugr(e, ty.args[0].ty) for e in x))
    if nm == "tket.rotation.rotation":
        return float(x)
    if isinstance(ty, ht.Sum):
        rows = ty.variant_rows
        if len(rows) == 1:
            if x is None and len(rows[0]) == 0:
                return UNIT
            if not isinstance(x, tuple) or len(x) != len(rows[0]):
                raise InterpError(f"expected a {len(rows[0])}-tuple for {ty}, got {x!r}")
            return Sum(0, tuple(to_hugr(e, t) for e, t in zip(x, rows[0], strict=True)))
        if all(len(r) == 0 for r in rows) and len(rows) == 2 and isinstance(x, bool):
            return _b(x)
        if _is_opt(ty):
            if x is None or x is Nothing or isinstance(x, Nothing):
                return Sum(0, ())
            if isinstance(x, Some):
                x = x.v
            if len(rows[1]) == 1:
                return Sum(1, (to_hugr(x, rows[1][0]),))
            return Sum(1, tuple(to_hugr(e, t) for e, t in zip(x, rows[1], strict=True)))
    raise InterpError(f"cannot convert python value {x!r} to HUGR type {ty}")


def from_hugr(v, shape=None):
    """interpreter value -> python value.

    `shape` (optional) refines the reading: 'int' (signed, default for integers) | 'nat' | 'float' |
    'bool' | 'none' | ('tuple', [shapes]) | ('array', shape) | ('option', shape) | None (automatic).
    Automatic: int -> signed 64-bit; OBool -> bool; Sum(0,()) / Sum(1,()) -> False / True when the
    shape says 'bool', else tuples `()`; tuples -> tuple; arrays -> list (a lent cell -> BORROWED);
    any other sum -> ('sum', tag, [vals])."""
    if isinstance(shape, tuple):
        kind = shape[0]
        if kind == "tuple" and isinstance(v, Sum):
            return tuple(from_hugr(x, s) for x, s in zip(v.vals, shape[1], strict=True))
        if kind == "array" and isinstance(v, Arr | SArr):
            cells = v.cells if isinstance(v, Arr) else v.vals
            return [BORROWED if c is BORROWED else from_hugr(c, shape[1]) for c in cells]
        if kind == "option" and isinstance(v, Sum):
            if v.tag == 0:
                return ("nothing",)
            if len(v.vals) == 1:
                return ("some", from_hugr(v.vals[0], shape[1]))
            return ("some", tuple(from_hugr(x) for x in v.vals))
        raise InterpError(f"value {v!r} does not have shape {shape!r}")
    if isinstance(v, bool):
        raise InterpError("python bool is not an interpreter value")
    if isinstance(v, int):
        return v if shape == "nat" else _sgn(v, 64)
    if isinstance(v, float | str):
        return v
    if isinstance(v, OBool):
        return v.v
    if isinstance(v, Sum):
        if shape == "bool":
            return v.tag == 1
        if shape == "none":
            return None
        if v.tag == 0:
            return tuple(from_hugr(x) for x in v.vals)
        return ("sum", v.tag, [from_hugr(x) for x in v.vals])
    if isinstance(v, Arr):
        return [BORROWED if c is BORROWED else from_hugr(c) for c in v.cells]
    if isinstance(v, SArr):
        return [from_hugr(c) for c in v.vals]
    return v


def shape_of_guppy_type(ty):
    """shape (see `from_hugr`) of a guppylang_internals type object; None where unknown"""
    cls = type(ty).__name__
    if cls == "NumericType":
        return {"Nat": "nat", "Int": "int", "Float": "float"}.get(ty.kind.name)
    if cls == "NoneType":
        return "none"
    if cls == "TupleType":
        return ("tuple", [shape_of_guppy_type(t) for t in ty.element_types])
    if cls == "OpaqueType":
        name = getattr(ty.defn, "name", "")
        args = [getattr(a, "ty", None) for a in ty.args]
        if name == "bool":
            return None  # OBool converts by itself
        if name in ("array", "frozenarray") and args and args[0] is not None:
            return ("array", shape_of_guppy_type(args[0]))
        if name == "Option" and args and args[0] is not None:
            return ("option", shape_of_guppy_type(args[0]))
    return None


# --------------------------------------------------------------------------------------
# entry points
# --------------------------------------------------------------------------------------
def forget(hugr) -> None:
    """drop the schedules cached on `hugr` (needed only if the graph was mutated after a run)"""
    getattr(hugr, "__dict__", {}).pop("_hugr_interp_sched", None)


def find_func(hugr, func_name):
    """the FuncDefn node named `func_name` (a Node is passed through)"""
    if not isinstance(func_name, str):
        return func_name
    found = [
        n for n in hugr.children(hugr.module_root)
        if isinstance(hugr[n].op, ops.FuncDefn) and hugr[n].op.f_name == func_name
    ]
    if not found:
        found = [
            n for n in hugr.children(hugr.module_root)
            if isinstance(hugr[n].op, ops.FuncDefn) and hugr[n].op.f_name.split(".")[-1] == func_name
        ]
    if len(found) != 1:
        names = [hugr[n].op.f_name for n in hugr.children(hugr.module_root)
                 if isinstance(hugr[n].op, ops.FuncDefn)]
        raise InterpError(f"function {func_name!r}: {len(found)} definitions (have {names})")
    return found[0]


def run(hugr, func_name, args=(), *, order="default", fuel=2_000_000, measure=None, seed=0,
        max_qubits=12, max_depth=400, ret_shape=None, type_args=(), shot=0) -> Result:
    """Interpret FuncDefn `func_name` of `hugr` on `args`.

    args      python values (converted by the function's HUGR input types) or interpreter values
    order     'default' | 'adversarial' | ('random', seed): which legal schedule to use
    fuel      step budget (nodes executed + loop/CFG iterations); exceeded -> OutOfFuel
    measure   None (seeded RNG, `seed`) | list of forced outcomes | callable(p1) -> 0/1
    ret_shape shape of the result for the python conversion (see `from_hugr`); one shape per output
              or a single shape when the function has one output
    raises    Unsupported / OutOfFuel / InterpError — never returned as a Result
    """
    h = getattr(hugr, "hugr", hugr)  # accept a builder
    f = find_func(h, func_name)
    fop = h[f].op
    if len(args) != len(fop.inputs):
        raise InterpError(f"{fop.f_name}: {len(fop.inputs)} inputs, {len(args)} arguments")
    I = Interp(h, order=order, fuel=fuel, measure=measure, seed=seed, max_qubits=max_qubits,
               max_depth=max_depth, shot=shot)
    targs = tuple(I._resolve_arg(a, ()) if not isinstance(a, int) else a for a in type_args)
    vals = [to_hugr(a, t) for a, t in zip(args, fop.inputs, strict=True)]
    res = Result(status="value")
    try:
        outs = I._call(f, targs, vals)
        res.raw = outs
        # Guppy returns a top-level tuple as a ROW of outputs, `None` as no output at all, and
        # appends the final values of borrowed (non-@owned, non-copyable) arguments: `inouts`
        if ret_shape is None:
            py = [from_hugr(o) for o in outs]
            res.value = py[0] if len(py) == 1 else tuple(py)
        else:
            if isinstance(ret_shape, tuple) and ret_shape[0] == "tuple":
                k = len(ret_shape[1])
                if k > len(outs):
                    raise InterpError(f"ret_shape {ret_shape!r} does not fit {len(outs)} outputs")
                res.value = tuple(from_hugr(o, s) for o, s in zip(outs[:k], ret_shape[1], strict=True))
            elif ret_shape == "none":
                k = 0
                res.value = None
            else:
                k = 1
                if not outs:
                    raise InterpError(f"ret_shape {ret_shape!r} but the function has no output")
                res.value = from_hugr(outs[0], ret_shape)
            res.inouts = [from_hugr(o) for o in outs[k:]]
    except _Panic as p:
        res.status, res.msg, res.signal, res.origin = "panic", p.msg, p.signal, p.origin
    except _Exit as e:
        res.status, res.msg, res.signal, res.origin = "exit", e.msg, e.signal, "program"
    res.trace, res.calls, res.steps = I.trace, I.calls, I.fuel0 - I.fuel
    return res


def run_orders(hugr, func_name, args=(), orders=("default", "adversarial"), **kw) -> list[Result]:
    """`run` once per schedule (same arguments otherwise)"""
    return [run(hugr, func_name, args, order=o, **kw) for o in orders]


def compare_behaviour(a: Result, b: Result) -> str:
    """'same' | 'op-panic-overtakes' | 'different' for two runs of one program under different legal schedules.

    'op-panic-overtakes': both runs panic inside an operation (division by zero, array `borrow` out of range …) and one
    trace is a prefix of the other — such ops carry no order edge, so the panic may precede earlier `result`s of the same
    region (the real 1.0.4 runtime behaves like the adversarial schedule here).  Anything else that differs is a missing
    order edge between two side effects of the program."""
    oa, ob = a.outcome(), b.outcome()
    if a.status == "panic" and b.status == "panic" and a.origin == "op" and b.origin == "op":
        oa = ob = ("panic", "<op>")
    if oa == ob and a.trace == b.trace:
        return "same"
    if oa == ob and oa[0] == "panic" and a.origin == "op":
        n = min(len(a.trace), len(b.trace))
        if a.trace[:n] == b.trace[:n]:
            return "op-panic-overtakes"
    return "different"


def run_guppy(defn, args=(), **kw) -> Result:
    """Lower the Guppy definition with /repo's compiler (harness `feed.lower`) and interpret it.
    Shapes of the result (nat vs int …) are taken from the checked Guppy signature."""
    import feed  # harness module; only needed here

    g = feed.lower(defn)
    name, shape = _guppy_sig(defn)
    kw.setdefault("ret_shape", shape)
    return run(g.hugr, name, args, **kw)


def _guppy_sig(defn):
    from guppylang_internals.engine import ENGINE

    d = ENGINE.checked[defn.id] if defn.id in ENGINE.checked else ENGINE.get_parsed(defn.id)
    ty = d.ty
    return d.name, shape_of_guppy_type(ty.output)
