"""Subprocess worker for C10: check (+ lower) each program, print one result per program.
Run under different PYTHONHASHSEED values / heap perturbations; outputs must be identical."""
import hashlib
import json
import os
import random
import sys

sys.path.insert(0, os.path.dirname(os.path.abspath(__file__)))
import feed  # noqa: E402  (installs the bootstrap shim)

from guppylang_internals.diagnostic import DiagnosticsRenderer  # noqa: E402
from guppylang_internals.engine import DEF_STORE  # noqa: E402


def main():
    job = json.load(sys.stdin)
    rng = random.Random(job["perturb"])
    keep = []
    out = []
    for prog in job["programs"]:
        # heap perturbation: shift the addresses the next objects will get
        keep.append([object() for _ in range(rng.randrange(0, 4000))])
        if rng.random() < 0.5:
            keep.pop(rng.randrange(len(keep)))
        if prog.get("module"):
            # a whole module from /repo's tests/error: executing it raises the expected error
            try:
                feed.load(prog["src"], prelude="")
                out.append({"kind": "module-ok"})
            except Exception as ex:  # noqa: BLE001
                d = getattr(ex, "error", None)
                if d is not None:
                    try:
                        r = DiagnosticsRenderer(DEF_STORE.sources)
                        r.render_diagnostic(d)
                        out.append({"kind": "diag", "text": "\n".join(r.buffer)})
                    except Exception as ex2:  # noqa: BLE001
                        out.append({"kind": "render-exc", "text": type(ex2).__name__})
                else:
                    out.append({"kind": "exc", "text": type(ex).__name__ + ": " + str(ex)[:300]})
            continue
        try:
            m = feed.load(prog["src"], prelude=feed.PRELUDE + prog.get("prelude", ""))
            target = getattr(m, prog["target"])
            k, e = feed.check_outcome(target)
            if k == "ok":
                try:
                    g = feed.lower(target)
                    s = g.hugr.to_str()
                    out.append({"kind": "ok", "sha": hashlib.sha256(s.encode()).hexdigest(), "len": len(s)})
                except Exception as ex:  # noqa: BLE001
                    out.append({"kind": "lower-exc", "text": type(ex).__name__ + ": " + str(ex)[:300]})
            elif k == "user" and getattr(e, "error", None) is not None:
                r = DiagnosticsRenderer(DEF_STORE.sources)
                r.render_diagnostic(e.error)
                out.append({"kind": "diag", "text": "\n".join(r.buffer)})
            else:
                out.append({"kind": "exc", "text": type(e).__name__ + ": " + str(e)[:300]})
        except Exception as ex:  # noqa: BLE001
            out.append({"kind": "load-exc", "text": type(ex).__name__ + ": " + str(ex)[:300]})
    json.dump(out, sys.stdout)


if __name__ == "__main__":
    main()
