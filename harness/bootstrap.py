"""Bootstrap shim: make /repo's guppylang 0.21.6 sources importable on the
1.0.4 dependency stack installed in /venv.  Lives in /verif, touches nothing in /repo.

Usage:  import bootstrap; bootstrap.install()   (before importing guppylang)
"""
from __future__ import annotations

import os
import sys

REPO = os.environ.get("VERIF_REPO", "/repo")
_installed = False


def _build_bool_ext():
    import hugr.tys as ht
    from hugr import ext as he

    e = he.Extension("tket.bool", he.Version(0, 1, 0))
    bool_def = e.add_type_def(
        he.TypeDef(
            name="bool",
            description="An opaque bool type",
            params=[],
            bound=he.ExplicitBound(ht.TypeBound.Copyable),
        )
    )
    bt = bool_def.instantiate([])
    sumb = ht.Bool

    def op(name, ins, outs):
        e.add_op_def(
            he.OpDef(
                name=name,
                description=name,
                signature=he.OpDefSig(ht.FunctionType(ins, outs)),
            )
        )

    op("read", [bt], [sumb])
    op("make_opaque", [sumb], [bt])
    op("not", [bt], [bt])
    for n in ("and", "or", "xor", "eq"):
        op(n, [bt, bt], [bt])
    return e


def install() -> None:
    global _installed
    if _installed:
        return
    for p in (
        os.path.join(REPO, "guppylang-internals", "src"),
        os.path.join(REPO, "guppylang", "src"),
    ):
        if p in sys.path:
            sys.path.remove(p)
        sys.path.insert(0, p)
    import tket_exts

    if not hasattr(tket_exts, "bool"):
        ext = _build_bool_ext()
        tket_exts.bool = lambda: ext
    import hugr.val as hv

    orig = hv.Extension.__init__
    if not getattr(orig, "_verif_wrapped", False):

        def _init(self, *a, **kw):
            kw.pop("extensions", None)
            return orig(self, *a, **kw)

        _init._verif_wrapped = True  # type: ignore[attr-defined]
        hv.Extension.__init__ = _init  # type: ignore[method-assign]
    _installed = True
    import guppylang_internals

    f = os.path.realpath(guppylang_internals.__file__)
    if not f.startswith(os.path.realpath(REPO)):
        raise RuntimeError(f"bootstrap: guppylang_internals imported from {f}, not {REPO}")
