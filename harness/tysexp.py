"""Shared by C13/C14/C31: real guppylang type objects <-> the S-expression syntax read by
lean/GuppyVerif/Model/Ty.lean (TySexp), a fixed environment of struct / opaque definitions built with
the REAL decorators, and a seeded random generator of types built from the REAL classes.

Syntax (atoms never contain blanks or parentheses; booleans are 0/1):
  ty    ::= (num nat|int|float) | (none P) | (bvar name idx cp dr) | (evar name id cp dr)
          | (tuple P ty*) | (func (in*) ty (param*) (const*)) | (opaque name arg*)
          | (struct name (arg*) (fieldty*))
  in    ::= (in ty inout owned comptime)
  arg   ::= (ty ty) | (const const)
  const ::= (val ty pyval) | (cbvar ty name idx) | (cevar ty name id)
  pyval ::= (int n) | (bool b) | (float repr) | (other repr)
  param ::= (tparam idx name cp dr) | (cparam idx name ty fromComptime)
"""
from __future__ import annotations

import bootstrap

bootstrap.install()

_ENV = None

STRUCT_SRC = '''
from guppylang.std.quantum import qubit
from guppylang.std.option import Option
from guppylang.std.either import Either
from guppylang.std.err import Result
from guppylang.std.futures import Future
from guppylang.std.iter import SizedIter
@guppy.struct
class P0:
    x: int
    y: bool
@guppy.struct
class Pq:
    q: qubit
    n: int
@guppy.struct
class Pa:
    xs: array[int, 3]
    f: float
@guppy.struct
class E0:
    pass
@guppy.struct
class G1[T]:
    x: T
    y: int
@guppy.struct
class G2[T: Copy, n: nat]:
    xs: array[T, n]
@guppy.struct
class Ph[T, n: nat]:
    x: int
@guppy.struct
class G3[T, U]:
    a: tuple[T, U]
    b: Option[T]
@guppy.struct
class N1[T, U: (Copy, Drop)]:
    inner: G1[T]
    k: G1[U]
    o: Option[tuple[T, U]]
@guppy.struct
class N2[A: Drop, m: nat]:
    g: G2[int, m]
    h: G3[A, array[A, m]]
    p: Ph[A, 7]
@guppy.struct
class Fz[T: (Copy, Drop), n: nat]:
    xs: frozenarray[T, n]
    f: Callable[[T], T]
'''
STRUCT_NAMES = ["P0", "Pq", "Pa", "E0", "G1", "G2", "Ph", "G3", "N1", "N2", "Fz"]


class Env:
    """struct definitions (checked) and opaque type definitions by name"""

    def __init__(self):
        import feed
        from guppylang_internals.definition.ty import OpaqueTypeDef
        from guppylang_internals.engine import DEF_STORE, ENGINE
        from guppylang_internals.tys import builtin as B

        self.module = feed.load(STRUCT_SRC, name="_verif_tyenv")
        self.structs = {n: ENGINE.get_checked(getattr(self.module, n).id) for n in STRUCT_NAMES}
        self.opaques = {}
        for d in DEF_STORE.raw_defs.values():
            if isinstance(d, OpaqueTypeDef) and not isinstance(d, B.WasmModuleTypeDef):
                self.opaques.setdefault(d.name, d)
        for d in (B.bool_type_def, B.string_type_def, B.list_type_def, B.array_type_def,
                  B.frozenarray_type_def, B.sized_iter_type_def, B.option_type_def):
            self.opaques[d.name] = d


def env() -> Env:
    global _ENV
    if _ENV is None:
        _ENV = Env()
    return _ENV


# ------------------------------------------------------------------ serialisation
def _b(x) -> str:
    return "1" if x else "0"


def _atom(s: str) -> str:
    s = str(s)
    out = "".join(c if (c.isalnum() or c in "_'.+-?:<>=,") else "~" for c in s)
    return out or "~"


def pyval_sexp(v) -> str:
    if isinstance(v, bool):
        return f"(bool {_b(v)})"
    if isinstance(v, int):
        return f"(int {v})"
    if isinstance(v, float):
        return f"(float {_atom(repr(v))})"
    return f"(other {_atom(repr(v))})"


def ty_sexp(t) -> str:
    from guppylang_internals.tys import ty as T

    if isinstance(t, T.NumericType):
        return f"(num {t.kind.name.lower()})"
    if isinstance(t, T.NoneType):
        return f"(none {_b(t.preserve)})"
    if isinstance(t, T.BoundTypeVar):
        return f"(bvar {_atom(t.display_name)} {t.idx} {_b(t.copyable)} {_b(t.droppable)})"
    if isinstance(t, T.ExistentialTypeVar):
        return f"(evar {_atom(t.display_name)} {t.id} {_b(t.copyable)} {_b(t.droppable)})"
    if isinstance(t, T.TupleType):
        return "(tuple " + _b(t.preserve) + "".join(" " + ty_sexp(e) for e in t.element_types) + ")"
    if isinstance(t, T.FunctionType):
        ins = " ".join(
            f"(in {ty_sexp(i.ty)} {_b(T.InputFlags.Inout in i.flags)} {_b(T.InputFlags.Owned in i.flags)} "
            f"{_b(T.InputFlags.Comptime in i.flags)})" for i in t.inputs
        )
        ps = " ".join(param_sexp(p) for p in t.params)
        cs = " ".join(const_sexp(a.const) for a in t.comptime_args)
        return f"(func ({ins}) {ty_sexp(t.output)} ({ps}) ({cs}))"
    if isinstance(t, T.OpaqueType):
        return "(opaque " + _atom(t.defn.name) + "".join(" " + arg_sexp(a) for a in t.args) + ")"
    if isinstance(t, T.StructType):
        args = " ".join(arg_sexp(a) for a in t.args)
        fs = " ".join(ty_sexp(f.ty) for f in t.defn.fields)
        return f"(struct {_atom(t.defn.name)} ({args}) ({fs}))"
    raise TypeError(f"not a guppy type: {t!r}")


def arg_sexp(a) -> str:
    from guppylang_internals.tys.arg import ConstArg, TypeArg

    if a is None:
        return "-"
    if isinstance(a, TypeArg):
        return f"(ty {ty_sexp(a.ty)})"
    if isinstance(a, ConstArg):
        return f"(const {const_sexp(a.const)})"
    raise TypeError(repr(a))


def const_sexp(c) -> str:
    from guppylang_internals.tys import const as C

    if isinstance(c, C.ConstValue):
        return f"(val {ty_sexp(c.ty)} {pyval_sexp(c.value)})"
    if isinstance(c, C.BoundConstVar):
        return f"(cbvar {ty_sexp(c.ty)} {_atom(c.display_name)} {c.idx})"
    if isinstance(c, C.ExistentialConstVar):
        return f"(cevar {ty_sexp(c.ty)} {_atom(c.display_name)} {c.id})"
    raise TypeError(repr(c))


def param_sexp(p) -> str:
    from guppylang_internals.tys.param import ConstParam, TypeParam

    if isinstance(p, TypeParam):
        return f"(tparam {p.idx} {_atom(p.name)} {_b(p.must_be_copyable)} {_b(p.must_be_droppable)})"
    if isinstance(p, ConstParam):
        return f"(cparam {p.idx} {_atom(p.name)} {ty_sexp(p.ty)} {_b(p.from_comptime_arg)})"
    raise TypeError(repr(p))


def args_sexp(args) -> str:
    return "(" + " ".join(arg_sexp(a) for a in args) + ")"


# ------------------------------------------------------------------ random generation
class TyGen:
    """Random types built from the real classes.

    `params`: the parameter context the generated type may refer to through bound variables (a list of
    real `Parameter`s, index = position).  `kinded=True` keeps every argument list compatible with the
    definition's parameters (kind, copy/drop requirement of the parameter); otherwise a small fraction of
    ill-kinded arguments is produced.
    """

    BASE = ["int", "nat", "float", "bool", "str", "None", "qubit", "E0", "P0", "Pq", "Pa"]

    def __init__(self, rng, params=(), *, kinded=True, functions=True, evars=False, lists=True,
                 nonnat_consts=False, first_order=False):
        self.rng = rng
        self.params = list(params)
        self.kinded = kinded
        self.functions = functions and not first_order
        self.evars = evars
        self.lists = lists
        self.nonnat_consts = nonnat_consts
        self.env = env()
        self._evar_id = 10_000

    # -- leaves
    def _base(self, name):
        from guppylang_internals.tys import builtin as B
        from guppylang_internals.tys import ty as T

        if name == "int":
            return B.int_type()
        if name == "nat":
            return B.nat_type()
        if name == "float":
            return B.float_type()
        if name == "bool":
            return B.bool_type()
        if name == "str":
            return B.string_type()
        if name == "None":
            return T.NoneType()
        if name in self.env.structs:
            return T.StructType([], self.env.structs[name])
        return T.OpaqueType([], self.env.opaques[name])

    def _tvars(self):
        from guppylang_internals.tys.param import TypeParam
        return [p for p in self.params if isinstance(p, TypeParam)]

    def _nat_cvars(self):
        from guppylang_internals.tys import builtin as B
        from guppylang_internals.tys.param import ConstParam
        return [p for p in self.params if isinstance(p, ConstParam) and p.ty == B.nat_type()]

    def leaf(self, need_copy=False, need_drop=False):
        rng = self.rng
        tv = [p for p in self._tvars()
              if (p.must_be_copyable or not need_copy) and (p.must_be_droppable or not need_drop)]
        if tv and rng.random() < 0.3:
            return rng.choice(tv).to_bound().ty
        if self.evars and rng.random() < 0.1:
            from guppylang_internals.tys import ty as T
            self._evar_id += 1
            return T.ExistentialTypeVar(rng.choice(["T", "U", "x"]), self._evar_id,
                                        need_copy or rng.random() < 0.5, need_drop or rng.random() < 0.5)
        for _ in range(20):
            t = self._base(rng.choice(self.BASE))
            if (t.copyable or not need_copy) and (t.droppable or not need_drop):
                return t
        return self._base("int")

    def nat_const(self):
        from guppylang_internals.tys import builtin as B
        from guppylang_internals.tys.const import ConstValue
        rng = self.rng
        cv = self._nat_cvars()
        if cv and rng.random() < 0.4:
            return rng.choice(cv).to_bound().const
        return ConstValue(B.nat_type(), rng.choice([0, 1, 2, 3, 7, 10]))

    def const_of(self, ty):
        """a constant (value) of the given const-parameter type"""
        from guppylang_internals.tys import builtin as B
        from guppylang_internals.tys.const import ConstValue
        rng = self.rng
        if ty == B.nat_type():
            return self.nat_const()
        if ty == B.int_type():
            return ConstValue(ty, rng.choice([-5, -1, 0, 1, 42]))
        if ty == B.bool_type():
            return ConstValue(ty, rng.random() < 0.5)
        if ty == B.float_type():
            return ConstValue(ty, rng.choice([0.5, 1.0, -2.25, 1e20]))
        return ConstValue(ty, 0)

    # -- arguments for a definition's parameters
    def args_for(self, params, depth):
        from guppylang_internals.tys.arg import ConstArg, TypeArg
        from guppylang_internals.tys.param import TypeParam
        rng = self.rng
        out = []
        for p in params:
            flip = (not self.kinded) and rng.random() < 0.08
            if isinstance(p, TypeParam) != flip:
                nc = isinstance(p, TypeParam) and p.must_be_copyable and self.kinded
                nd = isinstance(p, TypeParam) and p.must_be_droppable and self.kinded
                out.append(TypeArg(self.gen(depth - 1, need_copy=nc, need_drop=nd)))
            else:
                ty = getattr(p, "ty", None)
                if ty is None or ty.bound_vars:
                    out.append(ConstArg(self.nat_const()))
                else:
                    out.append(ConstArg(self.const_of(ty)))
        return out

    def gen(self, depth, need_copy=False, need_drop=False):
        """a random type of nesting depth <= depth satisfying the copy/drop requirement (when kinded)"""
        from guppylang_internals.tys import ty as T
        rng = self.rng
        for _ in range(12):
            t = self._gen(depth, need_copy, need_drop)
            if not self.kinded or ((t.copyable or not need_copy) and (t.droppable or not need_drop)):
                return t
        return self.leaf(need_copy, need_drop)

    def _gen(self, depth, need_copy, need_drop):
        from guppylang_internals.tys import ty as T
        rng = self.rng
        if depth <= 0 or rng.random() < 0.15:
            return self.leaf(need_copy, need_drop)
        kinds = ["tuple", "tuple", "struct", "struct", "array", "option", "opaque", "frozenarray"]
        if self.functions:
            kinds.append("func")
        if self.lists:
            kinds.append("list")
        k = rng.choice(kinds)
        if k == "tuple":
            n = rng.choice([0, 1, 1, 2, 2, 3])
            return T.TupleType([self.gen(depth - 1, need_copy, need_drop) for _ in range(n)])
        if k == "struct":
            d = self.env.structs[rng.choice(STRUCT_NAMES)]
            return T.StructType(self.args_for(d.params, depth), d)
        if k == "func":
            n = rng.choice([0, 1, 2])
            ins = []
            for _ in range(n):
                ty = self.gen(depth - 1)
                fl = T.InputFlags.NoFlags
                if not ty.copyable:
                    fl = T.InputFlags.Owned if rng.random() < 0.5 else T.InputFlags.Inout
                ins.append(T.FuncInput(ty, fl))
            return T.FunctionType(ins, self.gen(depth - 1))
        name = {"array": "array", "option": "Option", "frozenarray": "frozenarray", "list": "list",
                "opaque": rng.choice(["Either", "Result", "Future", "SizedIter", "Option", "array"])}[k]
        d = self.env.opaques[name]
        return T.OpaqueType(self.args_for(d.params, depth), d)

    # -- parameter contexts and signatures (C13)
    def gen_params(self, n, *, dependent=True, comptime=True):
        """a list of n real Parameters: type params of every copy/drop bound, nat / non-nat const params,
        const params whose type is an earlier type parameter, comptime-generated const params"""
        from guppylang_internals.tys import builtin as B
        from guppylang_internals.tys.param import ConstParam, TypeParam
        rng = self.rng
        ps = []
        names = ["T", "U", "V", "W", "n", "m", "k", "x", "y", "z"]
        for i in range(n):
            name = names[i % len(names)] + ("" if i < len(names) else str(i))
            r = rng.random()
            if r < 0.45:
                ps.append(TypeParam(i, name, rng.random() < 0.5, rng.random() < 0.5))
            elif r < 0.8:
                ps.append(ConstParam(i, name, B.nat_type(), from_comptime_arg=comptime and rng.random() < 0.25))
            elif r < 0.9 or not dependent:
                ps.append(ConstParam(i, name, rng.choice([B.int_type(), B.bool_type(), B.float_type()]),
                                     from_comptime_arg=comptime and rng.random() < 0.25))
            else:
                tv = [p for p in ps if isinstance(p, TypeParam) and p.must_be_copyable and p.must_be_droppable]
                if tv:
                    ps.append(ConstParam(i, name, rng.choice(tv).to_bound().ty))
                else:
                    ps.append(ConstParam(i, name, B.nat_type()))
        return ps
