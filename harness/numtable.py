"""T-src translator shared by C04 and C16: the dunder -> implementation table of
`guppylang/std/num.py` and `guppylang/std/bool.py`, extracted by AST from the working tree
(`bootstrap.REPO`), plus the numeric-kind order and the coercion rule of `try_coerce_to`.

Everything returned is plain data, sorted, so that unchanged source gives byte-identical Gen files.
"""
from __future__ import annotations

import ast
import os

import bootstrap

NUM = "guppylang/src/guppylang/std/num.py"
BOOL = "guppylang/src/guppylang/std/bool.py"
EXPR_CHECKER = "guppylang-internals/src/guppylang_internals/checker/expr_checker.py"
TY = "guppylang-internals/src/guppylang_internals/tys/ty.py"

EXT_OF_HELPER = {"int_op": "arithmetic.int", "float_op": "arithmetic.float", "bool_logic_op": "tket.bool",
                 "logic_op": "logic"}
EXT_EXPR = {
    "hugr.std.int.CONVERSIONS_EXTENSION": "arithmetic.conversions",
    "hugr.std.int.INT_OPS_EXTENSION": "arithmetic.int",
    "hugr.std.float.FLOAT_OPS_EXTENSION": "arithmetic.float",
    "hugr.std.logic.EXTENSION": "logic",
}


def _read(rel):
    return open(os.path.join(bootstrap.REPO, rel)).read()


_ALIASES: dict = {}


def _collect_aliases(tree: ast.Module) -> dict:
    """module-level names bound exactly once to an expression (`_CONV = hugr.std.int.CONVERSIONS_EXTENSION`), and imported names
    (`from hugr.std.int import CONVERSIONS_EXTENSION [as X]`, `import hugr.std.int as hi`) -> dotted source text"""
    seen, out = {}, {}
    for node in tree.body:
        if isinstance(node, ast.Assign) and len(node.targets) == 1 and isinstance(node.targets[0], ast.Name):
            seen.setdefault(node.targets[0].id, []).append(node.value)
        elif isinstance(node, ast.AnnAssign) and isinstance(node.target, ast.Name) and node.value is not None:
            seen.setdefault(node.target.id, []).append(node.value)
        elif isinstance(node, ast.ImportFrom) and node.module:
            for a in node.names:
                out[a.asname or a.name] = f"{node.module}.{a.name}"
        elif isinstance(node, ast.Import):
            for a in node.names:
                if a.asname:
                    out[a.asname] = a.name
    for k, vs in seen.items():
        if len(vs) == 1:
            out[k] = vs[0]
    return out


def _resolve(node: ast.AST, depth: int = 0) -> str:
    """dotted text of an expression with module-level aliases expanded"""
    if depth > 6:
        return ast.unparse(node)
    if isinstance(node, ast.Name) and node.id in _ALIASES:
        v = _ALIASES[node.id]
        return v if isinstance(v, str) else _resolve(v, depth + 1)
    if isinstance(node, ast.Attribute):
        return _resolve(node.value, depth + 1) + "." + node.attr
    return ast.unparse(node)


def _opspec(call: ast.AST):
    """`int_op("iadd")`, `int_op("convert_u", hugr.std.int.CONVERSIONS_EXTENSION)`, `float_op("fadd")`,
    `bool_logic_op("and")`, `unsupported_op("trunc_s")`, `external_op("name", args=[], ext=...)` -> (ext, op)"""
    if not isinstance(call, ast.Call) or not isinstance(call.func, ast.Name):
        return ("unknown", ast.unparse(call))
    fn = call.func.id
    name = call.args[0].value if call.args and isinstance(call.args[0], ast.Constant) else ast.unparse(call)
    if fn == "unsupported_op":
        return ("unsupported", name)
    ext = EXT_OF_HELPER.get(fn)
    ext_node = None
    if fn in ("int_op", "float_op", "logic_op") and len(call.args) >= 2:
        ext_node = call.args[1]
    for kw in call.keywords:
        if kw.arg == "ext":
            ext_node = kw.value
    if ext_node is not None:
        ext = EXT_EXPR.get(_resolve(ext_node), "unknown:" + ast.unparse(ext_node))
    if fn == "external_op" and ext is None:
        ext = "unknown"
    if ext is None:
        return ("unknown", ast.unparse(call))
    return (ext, name)


# ---------------------------------------------------------------- body mini-language
_BIN = {ast.Add: "+", ast.Sub: "-", ast.Mult: "*", ast.Div: "/", ast.FloorDiv: "//", ast.Mod: "%", ast.Pow: "**",
        ast.LShift: "<<", ast.RShift: ">>", ast.BitOr: "|", ast.BitXor: "^", ast.BitAnd: "&"}
_CMP = {ast.Eq: "==", ast.NotEq: "!=", ast.Lt: "<", ast.LtE: "<=", ast.Gt: ">", ast.GtE: ">="}


def _expr(e: ast.AST):
    """-> nested tuple s-expression"""
    if isinstance(e, ast.Name):
        return ("var", e.id)
    if isinstance(e, ast.Constant):
        v = e.value
        if isinstance(v, bool):
            return ("bool", v)
        if isinstance(v, int):
            return ("int", v)
        if isinstance(v, float):
            return ("flt", repr(v))
        if isinstance(v, str):
            return ("str", v)
        return ("unsupported", ast.unparse(e))
    if isinstance(e, ast.BinOp) and type(e.op) in _BIN:
        return ("bin", _BIN[type(e.op)], _expr(e.left), _expr(e.right))
    if isinstance(e, ast.Compare) and len(e.ops) == 1 and type(e.ops[0]) in _CMP:
        return ("bin", _CMP[type(e.ops[0])], _expr(e.left), _expr(e.comparators[0]))
    if isinstance(e, ast.UnaryOp) and isinstance(e.op, ast.Not):
        return ("not", _expr(e.operand))
    if isinstance(e, ast.UnaryOp) and isinstance(e.op, ast.USub):
        return ("neg", _expr(e.operand))
    if isinstance(e, ast.Call) and isinstance(e.func, ast.Name) and not e.keywords:
        return ("call", e.func.id, [_expr(a) for a in e.args])
    if isinstance(e, ast.Call) and isinstance(e.func, ast.Attribute) and not e.keywords:
        return ("meth", _expr(e.func.value), e.func.attr, [_expr(a) for a in e.args])
    if isinstance(e, ast.IfExp):
        return ("ite", _expr(e.test), _expr(e.body), _expr(e.orelse))
    if isinstance(e, ast.Tuple):
        return ("tup", [_expr(x) for x in e.elts])
    return ("unsupported", ast.unparse(e))


def _stmt(s: ast.AST):
    if isinstance(s, ast.Return) and s.value is not None:
        return ("ret", _expr(s.value))
    if isinstance(s, ast.If) and not s.orelse:
        return ("if", _expr(s.test), [_stmt(x) for x in s.body])
    if isinstance(s, ast.Expr):
        return ("expr", _expr(s.value))
    return ("unsupported", ast.unparse(s))


def _impl(fn: ast.FunctionDef):
    """decorators -> impl descriptor (dict)"""
    decs = fn.decorator_list
    names = [d.id if isinstance(d, ast.Name) else (d.func.id if isinstance(d, ast.Call) and isinstance(d.func, ast.Name) else ast.unparse(d)) for d in decs]
    if "guppy" in names:
        body = [s for s in fn.body if not (isinstance(s, ast.Expr) and isinstance(s.value, ast.Constant) and isinstance(s.value.value, str))]
        return {"kind": "body", "src": "; ".join(ast.unparse(s).replace("\n", " ") for s in body),
                "stmts": [_stmt(s) for s in body]}
    for d in decs:
        if isinstance(d, ast.Call) and isinstance(d.func, ast.Name):
            if d.func.id == "hugr_op" and d.args:
                ext, op = _opspec(d.args[0])
                if ext == "unsupported":
                    return {"kind": "unsupported", "op": op}
                return {"kind": "hugr", "ext": ext, "op": op}
            if d.func.id == "custom_function":
                chk = next((kw.value for kw in d.keywords if kw.arg == "checker"), None)
                comp = d.args[0] if d.args else next((kw.value for kw in d.keywords if kw.arg == "compiler"), None)
                if chk is not None and isinstance(chk, ast.Call) and isinstance(chk.func, ast.Name):
                    if chk.func.id == "ReversingChecker":
                        # ReversingChecker.parse_name: strip the dunder underscores, drop the leading `r`
                        nm = fn.name
                        ok = nm.startswith("__") and nm.endswith("__") and nm[2:-2].startswith("r")
                        return {"kind": "reversed", "target": f"__{nm[2:-2][1:]}__" if ok else "?"}
                    if chk.func.id == "DunderChecker":
                        nargs = 1
                        for kw in chk.keywords:
                            if kw.arg == "num_args":
                                nargs = kw.value.value
                        if len(chk.args) >= 2:
                            nargs = chk.args[1].value
                        return {"kind": "dunder", "name": chk.args[0].value, "nargs": nargs}
                    return {"kind": "checker", "name": chk.func.id}
                if comp is not None and isinstance(comp, ast.Call) and isinstance(comp.func, ast.Name):
                    c = comp.func.id
                    if c == "NoopCompiler":
                        return {"kind": "noop"}
                    if c == "BoolOpCompiler" and comp.args:
                        ext, op = _opspec(comp.args[0])
                        return {"kind": "boolop", "ext": ext, "op": op}
                    if c == "UnwrapOpCompiler" and comp.args:
                        ext, op = _opspec(comp.args[0])
                        return {"kind": "unwrapop", "ext": ext, "op": op}
                    return {"kind": "compiler", "name": c}
    return {"kind": "unknown", "src": ", ".join(ast.unparse(d) for d in decs)}


def _ann(a):
    return ast.unparse(a) if a is not None else "?"


def rows(files=None):
    """all methods of the @extend_type classes of num.py / bool.py and the module-level builtins of num.py:
    list of dict(type, name, params, ret, impl), sorted by (type, name).  `files` = explicit (num.py, bool.py) paths
    (used to read the *installed* 1.0.4 table for the emulator validation of IntSem); default: the working tree."""
    out = []
    for i, rel in enumerate((NUM, BOOL)):
        tree = ast.parse(open(files[i]).read() if files else _read(rel))
        _ALIASES.clear()
        _ALIASES.update(_collect_aliases(tree))
        for node in tree.body:
            if isinstance(node, ast.ClassDef) and any(
                isinstance(d, ast.Call) and isinstance(d.func, ast.Name) and d.func.id == "extend_type" for d in node.decorator_list
            ):
                for fn in node.body:
                    if isinstance(fn, ast.FunctionDef):
                        out.append({"type": node.name, "name": fn.name,
                                    "params": [_ann(a.annotation) for a in fn.args.args],
                                    "pnames": [a.arg for a in fn.args.args],
                                    "ret": _ann(fn.returns), "impl": _impl(fn)})
            elif isinstance(node, ast.FunctionDef) and rel == NUM:
                out.append({"type": "<builtin>", "name": node.name,
                            "params": [_ann(a.annotation) for a in node.args.args],
                            "pnames": [a.arg for a in node.args.args],
                            "ret": _ann(node.returns), "impl": _impl(node)})
    out.sort(key=lambda r: (r["type"], r["name"]))
    if files is None:
        _overlay_objects(out)
    return out


# ---------------------------------------------------------------- implementation from the imported definition objects
LAST_OVERLAY = {"from_objects": 0, "ast_only": 0, "ast_disagrees": []}


def _op_of_callable(op):
    """(ext, op) of the callable returned by int_op/float_op/external_op/bool_logic_op/unsupported_op, read from its closure"""
    qn = getattr(op, "__qualname__", "")
    cells = dict(zip(op.__code__.co_freevars, (c.cell_contents for c in (op.__closure__ or ()))))
    if "op_def" in cells:
        d = cells["op_def"]
        ext = getattr(getattr(d, "_extension", None), "name", None)
        return (ext or "unknown", d.name)
    if qn.startswith("unsupported_op"):
        return ("unsupported", cells.get("op_name", "?"))
    if qn.startswith("bool_logic_op"):
        return ("tket.bool", cells.get("op_name", "?"))
    return None


def _impl_from_object(defn, name):
    """impl descriptor of a RawCustomFunctionDef from its compiler / checker objects; None = not derivable (keep the AST's)"""
    import types as _t
    chk, comp = getattr(defn, "call_checker", None), getattr(defn, "call_compiler", None)
    ck, cc = type(chk).__name__, type(comp).__name__
    if ck == "ReversingChecker":
        try:
            probe = type(chk).__new__(type(chk))
            probe.func = _t.SimpleNamespace(name=name)
            return {"kind": "reversed", "target": probe.parse_name()}
        except BaseException:  # noqa: BLE001
            return {"kind": "reversed", "target": "?"}
    if ck == "DunderChecker":
        return {"kind": "dunder", "name": chk.dunder_name, "nargs": chk.num_args}
    if ck not in ("DefaultCallChecker", "NoneType"):
        return {"kind": "checker", "name": ck}
    if cc == "NoopCompiler":
        return {"kind": "noop"}
    if cc in ("OpCompiler", "BoolOpCompiler", "UnwrapOpCompiler") and callable(getattr(comp, "op", None)):
        r = _op_of_callable(comp.op)
        if r is None:
            return None
        if r[0] == "unsupported":
            return {"kind": "unsupported", "op": r[1]}
        return {"kind": {"OpCompiler": "hugr", "BoolOpCompiler": "boolop", "UnwrapOpCompiler": "unwrapop"}[cc], "ext": r[0], "op": r[1]}
    return None


def _overlay_objects(rows_):
    """Prefer what the *imported definition objects* of the tree under test say (compiler / checker objects attached to each custom
    function) over the decorator AST; the AST stays authoritative for @guppy-bodied dunders, signatures and as a fallback."""
    LAST_OVERLAY.update({"from_objects": 0, "ast_only": 0, "ast_disagrees": []})
    try:
        import guppylang.std.num as num_mod  # noqa: F401  (registers the definitions)
        import guppylang.std.bool  # noqa: F401
        from guppylang_internals.engine import DEF_STORE
        from guppylang_internals.tys import builtin as tb
        tdefs = {"nat": tb.nat_type_def, "int": tb.int_type_def, "float": tb.float_type_def, "bool": tb.bool_type_def}
    except BaseException:  # noqa: BLE001
        LAST_OVERLAY["ast_only"] = len(rows_)
        return
    for r in rows_:
        if r["impl"]["kind"] == "body":
            LAST_OVERLAY["ast_only"] += 1
            continue
        try:
            if r["type"] == "<builtin>":
                defn = DEF_STORE.raw_defs[getattr(num_mod, r["name"]).id]
            else:
                impls = DEF_STORE.impls[tdefs[r["type"]].id]
                did = impls.get(r["name"]) or impls.get(f"_{r['type']}{r['name']}")
                defn = DEF_STORE.raw_defs[did]
            obj = _impl_from_object(defn, r["name"])
        except BaseException:  # noqa: BLE001
            obj = None
        if obj is None:
            LAST_OVERLAY["ast_only"] += 1
            continue
        if impl_str(obj) != impl_str(r["impl"]):
            LAST_OVERLAY["ast_disagrees"].append(f"{r['type']}.{r['name']}: AST {impl_str(r['impl'])} / objects {impl_str(obj)}")
        r["impl"] = obj
        LAST_OVERLAY["from_objects"] += 1


def impl_str(impl) -> str:
    k = impl["kind"]
    if k in ("hugr", "boolop", "unwrapop"):
        return f"{k}:{impl['ext']}.{impl['op']}"
    if k == "unsupported":
        return f"unsupported:{impl['op']}"
    if k == "dunder":
        return f"dunder:{impl['name']}:{impl['nargs']}"
    if k in ("checker", "compiler"):
        return f"{k}:{impl['name']}"
    if k == "body":
        return "body:" + impl["src"]
    if k == "unknown":
        return "unknown:" + impl["src"]
    if k == "reversed":
        return "reversed:" + impl["target"]
    return k


# ---------------------------------------------------------------- binary / unary operator tables
def operator_tables():
    """`binary_table` / `unary_table` of expr_checker.py: {display: (lop, rop)} and {display: op}"""
    tree = ast.parse(_read(EXPR_CHECKER))
    bt, ut = {}, {}
    for node in tree.body:
        tgt = None
        if isinstance(node, ast.AnnAssign) and isinstance(node.target, ast.Name):
            tgt = node.target.id
        if tgt in ("binary_table", "unary_table") and isinstance(node.value, ast.Dict):
            for k, v in zip(node.value.keys, node.value.values):
                vals = [e.value for e in v.elts]
                if tgt == "binary_table":
                    bt[vals[2]] = (vals[0], vals[1])
                else:
                    ut[vals[1]] = vals[0]
    return bt, ut


# ---------------------------------------------------------------- numeric kinds and the coercion rule
_CMPNAME = {ast.Lt: "Lt", ast.LtE: "LtE", ast.Gt: "Gt", ast.GtE: "GtE", ast.Eq: "Eq", ast.NotEq: "NotEq"}


def kind_order():
    """NumericType.Kind: [(member name, auto() value)], and the comparison `Kind.__lt__` applies to `.value`s
    as ('Lt', 'self', 'other')."""
    tree = ast.parse(_read(TY))
    members, lt = [], None
    for cls in ast.walk(tree):
        if isinstance(cls, ast.ClassDef) and cls.name == "NumericType":
            for k in cls.body:
                if isinstance(k, ast.ClassDef) and k.name == "Kind":
                    i = 0
                    for s in k.body:
                        if isinstance(s, ast.Assign) and isinstance(s.targets[0], ast.Name):
                            i += 1
                            v = s.value
                            if isinstance(v, ast.Call) and ast.unparse(v.func) == "auto":
                                members.append((s.targets[0].id, i))
                            elif isinstance(v, ast.Constant) and isinstance(v.value, int):
                                i = v.value
                                members.append((s.targets[0].id, i))
                            else:
                                members.append((s.targets[0].id, -1))
                        if isinstance(s, ast.FunctionDef) and s.name == "__lt__":
                            r = [x for x in s.body if isinstance(x, ast.Return)]
                            if r and isinstance(r[0].value, ast.Compare) and len(r[0].value.ops) == 1:
                                c = r[0].value
                                lt = (_CMPNAME.get(type(c.ops[0]), "?"), ast.unparse(c.left), ast.unparse(c.comparators[0]))
    # prefer the imported enum of the tree under test for the member values (robust against how they are written)
    try:
        from guppylang_internals.tys.ty import NumericType
        obj = [(m.name, int(m.value)) for m in NumericType.Kind]
        if obj:
            members = obj
    except BaseException:  # noqa: BLE001
        pass
    return members, lt


def coerce_rule():
    """the condition of `try_coerce_to`: (cmp op, left expr, right expr, method-name template source)"""
    tree = ast.parse(_read(EXPR_CHECKER))
    for fn in tree.body:
        if isinstance(fn, ast.FunctionDef) and fn.name == "try_coerce_to":
            for s in fn.body:
                if isinstance(s, ast.If) and isinstance(s.test, ast.Compare) and len(s.test.ops) == 1 \
                        and "kind" in ast.unparse(s.test):
                    c = s.test
                    tmpl = "?"
                    for x in ast.walk(s):
                        if isinstance(x, ast.JoinedStr):
                            tmpl = ast.unparse(x)
                    return (_CMPNAME.get(type(c.ops[0]), "?"), ast.unparse(c.left), ast.unparse(c.comparators[0]), tmpl)
    return ("?", "?", "?", "?")


def setitem_index_slot() -> str:
    """`check_place_assignable`: how the INDEX input of the expected `__setitem__` signature is written:
    'fresh' (`ExistentialTypeVar.fresh(...)`), 'item.ty', or the unparsed expression"""
    tree = ast.parse(_read(EXPR_CHECKER))
    for fn in tree.body:
        if isinstance(fn, ast.FunctionDef) and fn.name == "check_place_assignable":
            for node in ast.walk(fn):
                if isinstance(node, ast.Assign) and isinstance(node.targets[0], ast.Name) and node.targets[0].id == "exp_sig":
                    call = node.value
                    if isinstance(call, ast.Call) and call.args and isinstance(call.args[0], ast.List) and len(call.args[0].elts) == 3:
                        idx = call.args[0].elts[1]
                        if isinstance(idx, ast.Call) and idx.args:
                            t = idx.args[0]
                            src = ast.unparse(t)
                            if isinstance(t, ast.Call) and src.startswith("ExistentialTypeVar.fresh"):
                                return "fresh"
                            return src
    return "?"


def lean_str(s: str) -> str:
    return '"' + s.replace("\\", "\\\\").replace('"', '\\"').replace("\n", "\\n") + '"'


# ---------------------------------------------------------------- Lean rendering (Gen/C04NumTable.lean)
def _lean_expr(e) -> str:
    k = e[0]
    L = lean_str
    if k == "var":
        return f"(.var {L(e[1])})"
    if k == "int":
        return f"(.int ({e[1]}))"
    if k == "flt":
        return f"(.flt {L(e[1])})"
    if k == "str":
        return f"(.str {L(e[1])})"
    if k == "bool":
        return f"(.bool {'true' if e[1] else 'false'})"
    if k == "bin":
        return f"(.bin {L(e[1])} {_lean_expr(e[2])} {_lean_expr(e[3])})"
    if k == "not":
        return f"(.not {_lean_expr(e[1])})"
    if k == "neg":
        return f"(.neg {_lean_expr(e[1])})"
    if k == "call":
        return f"(.call {L(e[1])} [{', '.join(_lean_expr(a) for a in e[2])}])"
    if k == "meth":
        return f"(.meth {_lean_expr(e[1])} {L(e[2])} [{', '.join(_lean_expr(a) for a in e[3])}])"
    if k == "ite":
        return f"(.ite {_lean_expr(e[1])} {_lean_expr(e[2])} {_lean_expr(e[3])})"
    if k == "tup":
        return f"(.tup [{', '.join(_lean_expr(a) for a in e[1])}])"
    return f"(.unsupported {L(str(e[1]))})"


def _lean_stmt(s) -> str:
    k = s[0]
    if k == "ret":
        return f"(.ret {_lean_expr(s[1])})"
    if k == "expr":
        return f"(.expr {_lean_expr(s[1])})"
    if k == "if":
        return f"(.ifThen {_lean_expr(s[1])} [{', '.join(_lean_stmt(x) for x in s[2])}])"
    return f"(.unsupported {lean_str(str(s[1]))})"


def lean_impl(impl) -> str:
    k, L = impl["kind"], lean_str
    if k in ("hugr", "boolop", "unwrapop"):
        return f".{k} {L(impl['ext'])} {L(impl['op'])}"
    if k == "noop":
        return ".noop"
    if k == "reversed":
        return f".reversed {L(impl['target'])}"
    if k == "dunder":
        return f".dunder {L(impl['name'])} {impl['nargs']}"
    if k == "body":
        return ".body [" + ", ".join(_lean_stmt(s) for s in impl["stmts"]) + "]"
    if k == "unsupported":
        return f".unsupported {L(impl['op'])}"
    return f".other {L(impl_str(impl))}"


def lean_table() -> str:
    rs = rows()
    bt, ut = operator_tables()
    L = lean_str
    out = [
        "import GuppyVerif.Model.NumEval",
        "/-! GENERATED on every run by harness/props/c04.py (harness/numtable.py) from the working tree of /repo:",
        "    guppylang/std/num.py, guppylang/std/bool.py (dunder -> implementation, by AST) and",
        "    checker/expr_checker.py (binary_table, unary_table).  Sorted; do not edit. -/",
        "namespace GuppyVerif.C04Gen",
        "open GuppyVerif.NumEval",
        "",
        "def rows : List Row := [",
    ]
    lines = []
    for r in rs:
        lines.append(
            "  { ty := %s, name := %s, params := [%s], pnames := [%s], ret := %s,\n    impl := %s }" % (
                L(r["type"]), L(r["name"]), ", ".join(L(p) for p in r["params"]), ", ".join(L(p) for p in r["pnames"]),
                L(r["ret"]), lean_impl(r["impl"])))
    out.append(",\n".join(lines) + "]")
    out.append("")
    out.append("def table : Table where")
    out.append("  rows := rows")
    out.append("  binary := [" + ", ".join(f"({L(d)}, {L(l)}, {L(r)})" for d, (l, r) in sorted(bt.items())) + "]")
    out.append("  unary := [" + ", ".join(f"({L(d)}, {L(m)})" for d, m in sorted(ut.items())) + "]")
    out.append("")
    out.append("end GuppyVerif.C04Gen")
    return "\n".join(out) + "\n"
