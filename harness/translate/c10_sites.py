"""T-src for C10: inventory of every place in guppylang_internals (and guppylang) that constructs
or iterates an unordered set.  Heuristic but conservative: every syntactic set construction is a
site; iteration sites are those whose iterable is syntactically set-valued (literal, set()/frozenset(),
set operators, dict-keys operators, names/attributes annotated or assigned as sets)."""
from __future__ import annotations

import ast
import os
import re


def _is_set_ann(a) -> bool:
    if a is None:
        return False
    s = ast.unparse(a)
    return bool(re.match(r"^(set|frozenset|AbstractSet|Set|MutableSet)\b", s))


def scan(repo: str):
    roots = [
        os.path.join(repo, "guppylang-internals", "src", "guppylang_internals"),
        os.path.join(repo, "guppylang", "src", "guppylang"),
    ]
    trees = {}
    set_attrs: set[str] = set()
    set_funcs: set[str] = set()
    for root in roots:
        for dp, _, fs in os.walk(root):
            for fn in sorted(fs):
                if fn.endswith(".py"):
                    p = os.path.join(dp, fn)
                    src = open(p).read()
                    try:
                        t = ast.parse(src)
                    except SyntaxError:
                        continue
                    rel = os.path.relpath(p, repo)
                    rel = rel.replace("guppylang-internals/src/guppylang_internals/", "internals/").replace(
                        "guppylang/src/guppylang/", "guppylang/")
                    trees[rel] = (src, t)
                    for n in ast.walk(t):
                        if isinstance(n, ast.AnnAssign) and _is_set_ann(n.annotation):
                            tg = n.target
                            set_attrs.add(tg.id if isinstance(tg, ast.Name) else getattr(tg, "attr", "?"))
                        if isinstance(n, ast.FunctionDef) and _is_set_ann(n.returns):
                            set_funcs.add(n.name)
                        if isinstance(n, ast.arg) and _is_set_ann(n.annotation):
                            set_attrs.add(n.arg)

    def keyscall(x):
        return isinstance(x, ast.Call) and isinstance(x.func, ast.Attribute) and x.func.attr == "keys"

    def setish(e, local):
        if isinstance(e, (ast.Set, ast.SetComp)):
            return True
        if isinstance(e, ast.Call):
            f = e.func
            if isinstance(f, ast.Name) and f.id in ("set", "frozenset"):
                return True
            if isinstance(f, ast.Attribute) and f.attr in (
                "union", "intersection", "difference", "symmetric_difference", "copy") and (
                    setish(f.value, local) or (isinstance(f.value, ast.Name) and f.value.id in ("set", "frozenset"))):
                return True
            if isinstance(f, ast.Name) and f.id in set_funcs:
                return True
            if isinstance(f, ast.Attribute) and f.attr in set_funcs:
                return True
        if isinstance(e, ast.BinOp) and isinstance(e.op, (ast.BitOr, ast.BitAnd, ast.Sub, ast.BitXor)):
            return setish(e.left, local) or setish(e.right, local) or keyscall(e.left) or keyscall(e.right)
        if isinstance(e, ast.Name):
            return e.id in local or e.id in set_attrs
        if isinstance(e, ast.Attribute):
            return e.attr in set_attrs or e.attr in set_funcs
        return False

    sites = []
    for rel, (src, t) in trees.items():
        funcs = [n for n in ast.walk(t) if isinstance(n, (ast.FunctionDef, ast.AsyncFunctionDef))]
        owner = {}
        for fn in funcs:
            for n in ast.walk(fn):
                owner.setdefault(id(n), fn.name) if False else None
        # innermost function name per node
        def walk(node, fname):
            for ch in ast.iter_child_nodes(node):
                nm = ch.name if isinstance(ch, (ast.FunctionDef, ast.AsyncFunctionDef)) else fname
                owner[id(ch)] = nm
                walk(ch, nm)
        walk(t, "<module>")
        locals_by_fn: dict[str, set[str]] = {}
        for _pass in range(2):
            for n in ast.walk(t):
                fn_ = owner.get(id(n), "<module>")
                loc_ = locals_by_fn.setdefault(fn_, set())
                if isinstance(n, ast.Assign) and setish(n.value, loc_):
                    for tg in n.targets:
                        if isinstance(tg, ast.Name):
                            loc_.add(tg.id)
                elif isinstance(n, ast.NamedExpr) and setish(n.value, loc_) and isinstance(n.target, ast.Name):
                    loc_.add(n.target.id)
                elif isinstance(n, ast.AnnAssign) and isinstance(n.target, ast.Name) and (
                        _is_set_ann(n.annotation) or (n.value is not None and setish(n.value, loc_))):
                    loc_.add(n.target.id)
                elif isinstance(n, ast.AugAssign) and isinstance(n.target, ast.Name) and setish(n.value, loc_):
                    loc_.add(n.target.id)
        for n in ast.walk(t):
            fname = owner.get(id(n), "<module>")
            local = locals_by_fn.get(fname, set())
            # construction
            if isinstance(n, (ast.Set, ast.SetComp)) or (
                    isinstance(n, ast.Call) and isinstance(n.func, ast.Name) and n.func.id in ("set", "frozenset")):
                sites.append((rel, fname, "construct"))
            if isinstance(n, ast.BinOp) and isinstance(n.op, (ast.BitOr, ast.BitAnd, ast.Sub, ast.BitXor)) and (
                    keyscall(n.left) or keyscall(n.right)):
                sites.append((rel, fname, "construct"))
            # iteration
            it, kind = None, None
            if isinstance(n, ast.For):
                it, kind = n.iter, "iterate"
            elif isinstance(n, ast.comprehension):
                it, kind = n.iter, "iterate"
            elif isinstance(n, ast.Call) and isinstance(n.func, ast.Name) and n.func.id in (
                    "list", "tuple", "next", "iter", "enumerate", "zip", "min", "max", "sum", "map", "filter",
                    "reversed", "dict") and n.args:
                it, kind = n.args[0], "iterate"
            elif isinstance(n, ast.Call) and isinstance(n.func, ast.Attribute) and n.func.attr == "pop" and not n.args:
                it, kind = n.func.value, "pop"
            elif isinstance(n, ast.Call) and isinstance(n.func, ast.Attribute) and n.func.attr == "join" and n.args:
                it, kind = n.args[0], "iterate"
            elif isinstance(n, ast.Starred):
                it, kind = n.value, "iterate"
            if it is not None and setish(it, local):
                sites.append((rel, fname, kind))
    from collections import Counter
    cnt = Counter(sites)
    return sorted((f, fn, k, n) for (f, fn, k), n in cnt.items())


def to_lean(sites) -> str:
    rows = ",\n".join(f'  ("{f}", "{fn}", "{k}", {n})' for f, fn, k, n in sites)
    return (
        "/-! GENERATED by harness/translate/c10_sites.py from /repo's current source on every run.\n"
        "    Every (file, function, kind, number of such places in that function) where an unordered set is\n"
        "    constructed, iterated or popped. -/\n"
        "namespace GuppyVerif.Determ.Gen\n\n"
        "def setSites : List (String × String × String × Nat) := [\n" + rows + "\n]\n\n"
        "end GuppyVerif.Determ.Gen\n"
    )


if __name__ == "__main__":
    import sys
    for s in scan(sys.argv[1] if len(sys.argv) > 1 else "/repo"):
        print(*s, sep=" | ")
