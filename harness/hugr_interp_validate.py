#!/venv/bin/python
"""Validation of harness/hugr_interp.py (the interpreter is part of the trusted base of every check that
uses it, so it is validated against two independent references).

  (a) self-tests  — ~130 small Guppy programs (arithmetic incl. boundary operands, control flow, tuples,
      arrays, options, structs, nested calls, recursion, higher-order functions, panics, exit) are lowered
      by /repo's compiler, interpreted (default AND adversarial schedule) on several inputs each, and
      compared with CPython running the SAME source under a small shim (`array` = bounds-checked list,
      `some/nothing`, `panic`, `result`, …).  Programs stay inside the fragment where Guppy and Python agree
      by design (no overflow except through ring operations that are wrapped, positive divisors, …).

  (b) emulator cross-validation — Guppy programs with many `result(tag, expr)` are compiled AND emulated by
      the installed guppylang 1.0.4 / selene stack in a separate process (no bootstrap shim).  Three traces are
      compared per program:
         E     what the real emulator reports,
         I104  the interpreter on the HUGR produced by 1.0.4 (same HUGR as E: tests the interpreter alone),
         Irepo the interpreter on the HUGR produced by /repo 0.21.6 for the same source (only for programs that
               both versions accept; a difference with E = I104 is a difference between the two compilers).
      The `ops:*` programs are 1.0.4-only: they declare HUGR ops directly (`@hugr_op(int_op("irotl"))` …) so that
      op semantics not reachable through the 1.0.4 standard library are observed on the real runtime too.

usage:  hugr_interp_validate.py [--self] [--emu] [--out FILE] [--only SUBSTR] [-v]
        (no flag = both).  Exit status 0 iff no unexpected disagreement.  Results: JSON in --out
        (default /verif/out/hugr_interp_validation.json) and a summary on stdout.
"""
from __future__ import annotations

import json
import math
import os
import random
import subprocess
import sys
import tempfile
import time

HERE = os.path.dirname(os.path.abspath(__file__))
P63, P64, P53 = 1 << 63, 1 << 64, 1 << 53


# ======================================================================================================
# worker: runs under the INSTALLED guppylang (no shim).  argv: --worker104 in.json out.json
# ======================================================================================================
def _jsonable(x):
    if isinstance(x, float):
        return {"f": x.hex()}
    if isinstance(x, bool):
        return int(x)
    if isinstance(x, list | tuple):
        return [_jsonable(e) for e in x]
    return x


def _trace_json(tr):
    return [[t, _jsonable(v)] for t, v in tr]


def worker104(inp, outp):
    import importlib.util

    sys.path.insert(0, HERE)
    import hugr_interp as hi

    progs = json.load(open(inp))
    out = {}
    tmp = tempfile.mkdtemp(prefix="hi-val-")
    for i, p in enumerate(progs):
        rec = {}
        out[p["name"]] = rec
        path = os.path.join(tmp, f"prog_{i}.py")
        open(path, "w").write(p["src104"])
        t0 = time.time()
        try:
            spec = importlib.util.spec_from_file_location(f"hi_val_prog_{i}", path)
            mod = importlib.util.module_from_spec(spec)
            sys.modules[spec.name] = mod
            spec.loader.exec_module(mod)
            pkg = mod.main.compile()
        except BaseException as e:  # noqa: BLE001
            rec["compile_error"] = f"{type(e).__name__}: {str(e)[:400]}"
            continue
        rec["t_compile"] = round(time.time() - t0, 2)
        h = pkg.modules[0]
        for order in ("default", "adversarial"):
            try:
                r = hi.run(h, "main", [], order=order, max_qubits=p.get("n_qubits", 4), fuel=20_000_000)
                rec["interp_" + order] = {"status": r.status, "msg": r.msg, "signal": r.signal, "origin": r.origin,
                                          "trace": _trace_json(r.trace)}
            except hi.Unsupported as e:
                rec["interp_" + order] = {"status": "unsupported", "msg": e.name}
            except BaseException as e:  # noqa: BLE001
                rec["interp_" + order] = {"status": "error", "msg": f"{type(e).__name__}: {str(e)[:300]}"}
        t0 = time.time()
        try:
            res = mod.main.emulator(n_qubits=p.get("n_qubits", 4)).with_seed(1).run()
            rec["emu"] = {"status": "value", "trace": _trace_json(res.results[0].entries)}
        except BaseException as e:  # noqa: BLE001
            fs = getattr(e, "failing_shot", None)
            rec["emu"] = {"status": "error", "msg": str(e)[:300], "exc": type(e).__name__,
                          "trace": _trace_json(fs.entries) if fs is not None else None}
        rec["t_emu"] = round(time.time() - t0, 2)
    json.dump(out, open(outp, "w"))
    import shutil
    shutil.rmtree(tmp, ignore_errors=True)


# ======================================================================================================
# program texts
# ======================================================================================================
HDR104 = (
    "from guppylang import guppy\n"
    "from guppylang.std.builtins import *\n"
    "from guppylang.std.option import Option, nothing, some\n"
)
HDR104_OPS = HDR104 + (
    "from guppylang_internals.decorator import hugr_op\n"
    "from guppylang_internals.std._internal.util import float_op, int_op\n"
    "import hugr.std.int\n"
)
HDR_Q = (
    "from guppylang.std.quantum import *\n"
    "from guppylang.std.angles import angle, pi\n"
)
HDR_RT = "from guppylang.std.quantum import qubit, x, measure\n"

GI = [0, 1, -1, 2, -3, 7, 63, 64, -64, P53 + 1, -(1 << 62), P63 - 1, -P63]
GN = [0, 1, 2, 7, 63, 64, P53 + 1, P63 - 1, P63, P64 - 1]


def lit(v, ty):
    if ty == "float":
        if v != v:
            return "(INF() - INF())"
        if v == math.inf:
            return "INF()"
        if v == -math.inf:
            return "(-INF())"
        if v == 0 and math.copysign(1, v) < 0:
            return "(-ZERO())"
        return repr(float(v))
    if ty == "int" and v == -P63:
        return "(-9223372036854775807 - 1)"
    return str(v)


FLOAT_HELPERS = (
    "@guppy\ndef INF() -> float:\n    return 1e308 * 10.0\n\n"
    "@guppy\ndef ZERO() -> float:\n    return 0.0\n\n"
)


RT_HELPERS = (
    "@guppy\ndef ONE() -> int:\n    q = qubit()\n    x(q)\n    return int(bool(measure(q)))\n\n"
)


EXOTIC_INT = ("irotl", "irotr", "imax_s", "imax_u", "imin_s", "imin_u")


def prog_ops_int(rt, only=None):
    """1.0.4 only: every arithmetic.int op the interpreter implements, declared directly, on a boundary grid.
    rt=False: literal operands (the HUGR constant folder may evaluate the op before code generation);
    rt=True : operands multiplied by a run-time 1 obtained from a measurement, so that only the generated code can
              compute the result."""
    bin_ops = ["iadd", "isub", "imul", "iand", "ior", "ixor", "ishl", "ishr", "ipow", "idiv_s", "imod_s", "idiv_u", "imod_u"]
    un_ops = ["ineg", "inot", "iabs"]
    if only:
        bin_ops, un_ops = [only], []
    decls, calls = [RT_HELPERS], []
    if rt:
        calls.append("    one = ONE()")
        calls.append("    uone = nat(one)")
    def A(v, ty="int"):
        if not rt:
            return lit(v, ty)
        if ty == "int":
            return f"({lit(v, ty)} * one)"
        if v < P63:
            return f"(nat({v}) * uone)"
        return f"((nat({v >> 1}) * uone) * nat(2) + nat({v & 1}) * uone)"

    for op in bin_ops:
        decls.append(f'@hugr_op(int_op("{op}"))\ndef o_{op}(a: int, b: int) -> int: ...\n')
    decls.append('@hugr_op(int_op("idivmod_s"))\ndef o_idivmod_s(a: int, b: int) -> tuple[int, int]: ...\n')
    decls.append('@hugr_op(int_op("idivmod_u"))\ndef o_idivmod_u(a: int, b: int) -> tuple[int, int]: ...\n')
    for op in un_ops:
        decls.append(f'@hugr_op(int_op("{op}"))\ndef o_{op}(a: int) -> int: ...\n')
    n = 0
    for op in bin_ops + ([] if only else ["idivmod_s", "idivmod_u"]):
        for a in GI:
            for b in GI:
                if "div" in op or "mod" in op:
                    if b == 0:
                        continue
                if op in ("ishl", "ishr") and not 0 <= b < 64:
                    continue  # count >= width: unspecified by the description beyond "bits dropped" (LLVM: poison)
                if op == "ipow" and not 0 <= b <= 70:
                    continue
                if op in ("idivmod_s", "idivmod_u"):
                    calls.append(f"    q{n}, r{n} = o_{op}({A(a)}, {A(b)})")
                    calls.append(f'    result("{op}:{a}:{b}:q", q{n})')
                    calls.append(f'    result("{op}:{a}:{b}:r", r{n})')
                else:
                    calls.append(f'    result("{op}:{a}:{b}", o_{op}({A(a)}, {A(b)}))')
                n += 1
    for op in un_ops:
        for a in GI:
            calls.append(f'    result("{op}:{a}", o_{op}({A(a)}))')
    if only:
        return HDR104_OPS + HDR_RT + "\n" + "\n".join(decls) + "\n@guppy\ndef main() -> None:\n" + "\n".join(calls) + "\n"
    # comparisons and conversions through the standard operators
    for sym, nm in (("<", "lt"), ("<=", "le"), (">", "gt"), (">=", "ge"), ("==", "eq"), ("!=", "ne")):
        decls.append(f"@guppy\ndef c_{nm}_s(a: int, b: int) -> bool:\n    return a {sym} b\n")
        decls.append(f"@guppy\ndef c_{nm}_u(a: nat, b: nat) -> bool:\n    return a {sym} b\n")
        for a in GI:
            for b in GI:
                calls.append(f'    result("{nm}_s:{a}:{b}", c_{nm}_s({A(a)}, {A(b)}))')
        for a in GN:
            for b in GN:
                calls.append(f'    result("{nm}_u:{a}:{b}", c_{nm}_u({A(a, "nat")}, {A(b, "nat")}))')
    decls.append("@guppy\ndef f_s(a: int) -> float:\n    return float(a)\n")
    decls.append("@guppy\ndef f_u(a: nat) -> float:\n    return float(a)\n")
    decls.append("@guppy\ndef b_s(a: int) -> bool:\n    return bool(a)\n")
    decls.append("@guppy\ndef i_b(a: bool) -> int:\n    return int(a)\n")
    decls.append("@guppy\ndef n_i(a: int) -> nat:\n    return nat(a)\n")
    decls.append("@guppy\ndef i_n(a: nat) -> int:\n    return int(a)\n")
    for a in GI:
        calls.append(f'    result("convert_s:{a}", f_s({A(a)}))')
        calls.append(f'    result("bool_s:{a}", b_s({A(a)}))')
        if a >= 0:
            calls.append(f'    result("nat_of_int:{a}", n_i({A(a)}))')
    for a in GN:
        calls.append(f'    result("convert_u:{a}", f_u({A(a, "nat")}))')
        if a < P63:
            calls.append(f'    result("int_of_nat:{a}", i_n({A(a, "nat")}))')
    calls.append('    result("int_of_bool:1", i_b(True))')
    calls.append('    result("int_of_bool:0", i_b(False))')
    return HDR104_OPS + HDR_RT + "\n" + "\n".join(decls) + "\n@guppy\ndef main() -> None:\n" + "\n".join(calls) + "\n"


GF = [0.0, -0.0, 1.0, -1.0, 0.5, -0.5, 1.5, -1.5, 2.5, -2.5, 3.5, 0.49999999999999994, 2.4999, 0.1, -0.3, 7.0, -7.5, 1e10,
      float(P53), float(P53) + 2.0, 4503599627370497.0, 4503599627370495.5, 1e308, -1e308, 5e-324, math.inf, -math.inf, math.nan]


def prog_ops_float(rt, un_ops=("fneg",), with_bin=True):
    bin_ops = ["fadd", "fsub", "fmul", "fdiv", "fpow"] if with_bin else []
    decls = [FLOAT_HELPERS, RT_HELPERS]
    calls = []
    if rt:
        # non-finite values and -0.0 are COMPUTED at run time from the measured 1: the 1.0.4 optimiser turns folded float
        # constants into `ConstRotation` + `to_halfturns`, which panics on non-finite values
        calls += ["    fone = float(ONE())", "    inf = (1e308 * fone) * 10.0", "    nan = inf - inf", "    nzero = (0.0 - fone) * 0.0"]

    def A(v):
        if not rt:
            return lit(v, "float")
        if v != v:
            return "nan"
        if v in (math.inf, -math.inf):
            return "inf" if v > 0 else "(-inf)"
        if v == 0 and math.copysign(1, v) < 0:
            return "nzero"
        return f"({v!r} * fone)"

    # binary ops through the standard operators (a directly declared `fadd` is rewritten by the 1.0.4 optimiser into
    # rotation arithmetic — from_halfturns_unchecked / radd / to_halfturns — which panics on non-finite operands)
    for op, sym in zip(bin_ops, ("+", "-", "*", "/", "**"), strict=False):
        decls.append(f"@guppy\ndef o_{op}(a: float, b: float) -> float:\n    return a {sym} b\n")
    for op in un_ops:
        if op == "fneg":
            decls.append("@guppy\ndef o_fneg(a: float) -> float:\n    return -a\n")
        else:
            decls.append(f'@hugr_op(float_op("{op}"))\ndef o_{op}(a: float) -> float: ...\n')
    if with_bin:
        for sym, nm in (("<", "flt"), ("<=", "fle"), (">", "fgt"), (">=", "fge"), ("==", "feq"), ("!=", "fne")):
            decls.append(f"@guppy\ndef c_{nm}(a: float, b: float) -> bool:\n    return a {sym} b\n")
        GB = [0.0, -0.0, 1.0, -1.0, 0.5, -2.5, 3.0, 7.0, 1e10, 1e308, 5e-324, math.inf, -math.inf, math.nan]
        for i, a in enumerate(GB):
            for j, b in enumerate(GB):
                for op in bin_ops:
                    if op in ("fadd", "fsub") and not (math.isfinite(a) and math.isfinite(b)):
                        # the 1.0.4 optimiser rewrites float addition of run-time values into rotation arithmetic
                        # (from_halfturns_unchecked / radd / to_halfturns), which panics on non-finite operands
                        continue
                    calls.append(f'    result("{op}:{i}:{j}", o_{op}({A(a)}, {A(b)}))')
                for nm in ("flt", "fle", "fgt", "fge", "feq", "fne"):
                    calls.append(f'    result("{nm}:{i}:{j}", c_{nm}({A(a)}, {A(b)}))')
    for i, a in enumerate(GF):
        for op in un_ops:
            calls.append(f'    result("{op}:{i}", o_{op}({A(a)}))')
    if with_bin:
        # float -> int conversions inside their range (trunc_s / trunc_u followed by the unwrap)
        decls.append("@guppy\ndef t_s(a: float) -> int:\n    return int(a)\n")
        decls.append("@guppy\ndef t_u(a: float) -> nat:\n    return nat(a)\n")
        for i, a in enumerate([0.0, -0.0, 0.5, -0.5, 0.99, -0.99, 1.5, -1.5, 2.5, 1e10, -1e10, float(P53), 9.2e18, -9.2e18,
                               9223372036854774784.0, -9223372036854775808.0]):
            calls.append(f'    result("trunc_s:{i}", t_s({A(a)}))')
        for i, a in enumerate([0.0, -0.0, 0.5, 0.99, 1.5, 2.5, 1e10, float(P53), 9.2e18, 9223372036854775808.0,
                               18446744073709549568.0]):
            calls.append(f'    result("trunc_u:{i}", t_u({A(a)}))')
    return HDR104_OPS + HDR_RT + "\n" + "\n".join(decls) + "\n@guppy\ndef main() -> None:\n" + "\n".join(calls) + "\n"


def _single(name, body, hdr=HDR104, pre=""):
    return {"name": name, "src104": hdr + "\n" + pre + body, "common": False}


def progs_ops_panics():
    """one run per panicking op (the emulator stops at the first panic); operands are run-time values"""
    out = []
    H = HDR104_OPS + HDR_RT
    mk = lambda nm, decl, call: out.append({  # noqa: E731
        "name": "ops:panic:" + nm, "common": False, "n_qubits": 2,
        "src104": H + "\n" + FLOAT_HELPERS + RT_HELPERS + decl + "\n@guppy\ndef main() -> None:\n    one = ONE()\n    fone = float(one)\n"
                  "    uone = nat(one)\n    result(\"before\", one)\n"
                  f"    result(\"x\", {call})\n    result(\"after\", 2)\n"})
    for op in ("idiv_s", "imod_s", "idiv_u", "imod_u"):
        mk(op + "_zero", f'@hugr_op(int_op("{op}"))\ndef o(a: int, b: int) -> int: ...\n', "o(7 * one, one - one)")
    mk("is_to_u_neg", "@guppy\ndef o(a: int) -> nat:\n    return nat(a)\n", "o(-1 * one)")
    mk("iu_to_s_big", "@guppy\ndef o(a: nat) -> int:\n    return int(a)\n", "o(nat(9223372036854775807) * uone + uone)")
    mk("trunc_s_big", "@guppy\ndef o(a: float) -> int:\n    return int(a)\n", "o(9223372036854775808.0 * fone)")
    mk("trunc_s_nan", "@guppy\ndef o(a: float) -> int:\n    return int(a)\n", "o((INF() - INF()) * fone)")
    mk("trunc_u_neg", "@guppy\ndef o(a: float) -> nat:\n    return nat(a)\n", "o(-1.0 * fone)")
    mk("trunc_u_negfrac", "@guppy\ndef o(a: float) -> nat:\n    return nat(a)\n", "o(-0.5 * fone)")
    mk("trunc_u_big", "@guppy\ndef o(a: float) -> nat:\n    return nat(a)\n", "o(18446744073709551616.0 * fone)")
    mk("trunc_u_inf", "@guppy\ndef o(a: float) -> nat:\n    return nat(a)\n", "o(INF() * fone)")
    mk("ipow_neg", "@guppy\ndef o(a: int, b: int) -> int:\n    return a ** b\n", "o(2 * one, -1 * one)")
    return out


# ---- programs common to both compiler versions (plain Guppy, no internals) -----------------------------
COMMON = {}

COMMON["cf:loops"] = '''
@guppy
def collatz(n: int) -> int:
    steps = 0
    while n != 1:
        if n % 2 == 0:
            n = n // 2
        else:
            n = 3 * n + 1
        steps += 1
    return steps

@guppy
def tri(n: int) -> int:
    s = 0
    for i in range(n):
        if i == 3:
            continue
        if i > 7:
            break
        s += i
    return s

@guppy
def nested(a: int, b: int) -> int:
    t = 0
    i = 0
    while i < a:
        j = 0
        while j < b:
            if (i + j) % 3 == 0:
                t += i * j
            elif (i + j) % 3 == 1:
                t -= 1
            else:
                t += 2
            j += 1
        i += 1
    return t

@guppy
def early(x: int) -> int:
    if x < 0:
        return -1
    if x == 0:
        return 0
    for k in range(10):
        if k * k >= x:
            return k
    return 99

@guppy
def sc(a: int, b: int) -> bool:
    return (a > 0 and b > 0) or (not a == b and a < -5)

@guppy
def tern(a: int) -> int:
    return 1 if a > 10 else 2 if a > 5 else 3

@guppy
def chain(a: int, b: int, c: int) -> bool:
    return a < b <= c

@guppy
def main() -> None:
    result("collatz27", collatz(27))
    result("collatz1", collatz(1))
    result("tri0", tri(0))
    result("tri5", tri(5))
    result("tri20", tri(20))
    result("nested", nested(4, 5))
    result("nested0", nested(0, 5))
    result("early-1", early(-3))
    result("early0", early(0))
    result("early17", early(17))
    result("early500", early(500))
    result("sc1", sc(1, 2))
    result("sc2", sc(-7, 2))
    result("sc3", sc(-7, -7))
    result("sc4", sc(0, 0))
    result("tern", tern(11))
    result("tern2", tern(7))
    result("tern3", tern(1))
    result("chain1", chain(1, 2, 2))
    result("chain2", chain(1, 1, 2))
    result("chain3", chain(1, 3, 2))
'''

COMMON["cf:calls"] = '''
@guppy
def fib(n: int) -> int:
    if n < 2:
        return n
    return fib(n - 1) + fib(n - 2)

@guppy
def fact(n: int) -> int:
    return 1 if n <= 1 else n * fact(n - 1)

@guppy
def is_even(n: int) -> bool:
    if n == 0:
        return True
    return is_odd(n - 1)

@guppy
def is_odd(n: int) -> bool:
    if n == 0:
        return False
    return is_even(n - 1)

@guppy
def gcd(a: int, b: int) -> int:
    while b != 0:
        a, b = b, a % b
    return a

@guppy
def ack(m: int, n: int) -> int:
    if m == 0:
        return n + 1
    if n == 0:
        return ack(m - 1, 1)
    return ack(m - 1, ack(m, n - 1))

@guppy
def noisy(tagv: int) -> int:
    result("noisy", tagv)
    return tagv * 2

@guppy
def order(a: int) -> int:
    return noisy(a) + noisy(a + 1) * noisy(a + 2)

@guppy
def main() -> None:
    result("fib15", fib(15))
    result("fact20", fact(20))
    result("fact25", fact(25))
    result("even10", is_even(10))
    result("even7", is_even(7))
    result("gcd", gcd(1071, 462))
    result("ack22", ack(2, 2))
    result("order", order(5))
    x = noisy(1)
    y = noisy(2)
    result("xy", x - y)
'''

COMMON["cf:tuples"] = '''
@guppy
def swap(t: tuple[int, float]) -> tuple[float, int]:
    a, b = t
    return b, a

@guppy
def nest(a: int) -> tuple[int, tuple[int, bool]]:
    return a, (a + 1, a > 0)

@guppy
def minmax(a: int, b: int, c: int) -> tuple[int, int]:
    lo = a
    hi = a
    if b < lo:
        lo = b
    if c < lo:
        lo = c
    if b > hi:
        hi = b
    if c > hi:
        hi = c
    return lo, hi

@guppy
def main() -> None:
    f, i = swap((3, 2.5))
    result("swap_f", f)
    result("swap_i", i)
    a, (b, c) = nest(7)
    result("nest_a", a)
    result("nest_b", b)
    result("nest_c", c)
    a2, (b2, c2) = nest(-7)
    result("nest_c2", c2)
    lo, hi = minmax(3, -9, 12)
    result("lo", lo)
    result("hi", hi)
    t = (1, 2, 3)
    x, y, z = t
    result("sum", x + y * z)
    q, r = divmod(17, 5)
    result("q", q)
    result("r", r)
'''

COMMON["arr:basic"] = '''
@guppy
def total(xs: array[int, 5]) -> int:
    s = 0
    for x in xs.copy():
        s += x
    return s

@guppy
def bump(xs: array[int, 5], k: int) -> None:
    for i in range(5):
        xs[i] = xs[i] + k * i

@guppy
def rev(xs: array[int, 5] @owned) -> array[int, 5]:
    for i in range(2):
        t = xs[i]
        xs[i] = xs[4 - i]
        xs[4 - i] = t
    return xs

@guppy
def main() -> None:
    xs = array(5, 4, 3, 2, 1)
    result("total", total(xs))
    bump(xs, 10)
    result("bumped", xs)
    ys = rev(xs)
    result("rev", ys)
    zs = array(x * x for x in ys)
    result("sq", zs)
    ws = array(i + 100 for i in range(6))
    result("ws", ws)
    result("ws3", ws[3])
    a, b, c = array(7, 8, 9)
    result("unp", a * 100 + b * 10 + c)
    fs = array(1.5, 2.5)
    result("fs", fs)
    bs = array(True, False, True)
    result("bs", bs)
    ns = array(nat(1), nat(2))
    result("ns", ns)
    m = array(array(1, 2), array(3, 4))
    result("m10", m[1][0])
    i = 0
    acc = 0
    while i < 6:
        acc = acc * 3 + ws[i]
        i += 1
    result("acc", acc)
'''

COMMON["opt:basic"] = '''
@guppy
def find(xs: array[int, 4], v: int) -> Option[int]:
    for i in range(4):
        if xs[i] == v:
            return some(i)
    return nothing()

@guppy
def main() -> None:
    xs = array(4, 8, 15, 16)
    a = find(xs, 15)
    result("a_some", a.is_some())
    result("a", a.unwrap())
    b = find(xs, 23)
    result("b_none", b.is_nothing())
    c: Option[int] = some(3)
    if c.is_some():
        result("c", c.unwrap())
    d: Option[tuple[int, float]] = some((1, 2.5))
    p, q = d.unwrap()
    result("p", p)
    result("q", q)
'''

COMMON["hof:basic"] = '''
from collections.abc import Callable

@guppy
def inc(x: int) -> int:
    return x + 1

@guppy
def dbl(x: int) -> int:
    return x * 2

@guppy
def twice(f: Callable[[int], int], x: int) -> int:
    return f(f(x))

@guppy
def comp(f: Callable[[int], int], g: Callable[[int], int], x: int) -> int:
    return f(g(x))

@guppy
def main() -> None:
    result("t1", twice(inc, 5))
    result("t2", twice(dbl, 5))
    result("t3", comp(inc, dbl, 10))
    result("t4", comp(dbl, inc, 10))
    h = inc
    result("t5", twice(h, 0) + h(3))
'''

COMMON["struct:basic"] = '''
@guppy.struct
class P:
    x: int
    y: int

@guppy
def norm1(p: P) -> int:
    return abs(p.x) + abs(p.y)

@guppy
def shift(p: P, d: int) -> P:
    return P(p.x + d, p.y - d)

@guppy
def main() -> None:
    p = P(3, -4)
    result("n", norm1(p))
    q = shift(p, 10)
    result("qx", q.x)
    result("qy", q.y)
'''

COMMON["num:std"] = None  # filled by gen_num_std()


def gen_num_std():
    """operators through the standard library of BOTH versions, on boundary operands (the dunder → op maps agree).
    Operands are multiplied by a run-time 1 (a measured |1>): with literal operands the 1.0.4 tool chain evaluates parts of
    the program at compile time, and that evaluation is not faithful (imod_s at -2^63, fdiv off by an ulp, -0.0 merged with
    0.0); the generated code is what is compared here."""
    decls = ["@guppy\ndef ONE() -> int:\n    q = qubit()\n    x(q)\n    return int(bool(measure(q)))\n"]
    calls = ["    one = ONE()", "    uone = nat(one)", "    fone = float(one)"]

    def A(v, ty):
        if ty == "int":
            return f"({lit(v, ty)} * one)"
        if ty == "float":
            return f"({v!r} * fone)"
        if v < P63:
            return f"(nat({v}) * uone)"
        return f"((nat({v >> 1}) * uone) * nat(2) + nat({v & 1}) * uone)"

    ops_i = [("+", "add"), ("-", "sub"), ("*", "mul"), ("//", "fdiv"), ("%", "mod"), ("&", "and"), ("|", "or"), ("^", "xor"),
             ("<<", "shl"), (">>", "shr"), ("**", "pow")]
    for ty, G in (("int", GI), ("nat", GN)):
        for sym, nm in ops_i:
            decls.append(f"@guppy\ndef {ty}_{nm}(a: {ty}, b: {ty}) -> {ty}:\n    return a {sym} b\n")
            for a in G:
                for b in G:
                    if sym in ("//", "%") and b == 0:
                        continue
                    if sym in ("<<", ">>") and not 0 <= b < 64:
                        continue
                    if sym == "**" and not 0 <= b <= 70:
                        continue
                    calls.append(f'    result("{ty}_{nm}:{a}:{b}", {ty}_{nm}({A(a, ty)}, {A(b, ty)}))')
        for sym, nm in (("<", "lt"), ("<=", "le"), (">", "gt"), (">=", "ge"), ("==", "eq"), ("!=", "ne")):
            decls.append(f"@guppy\ndef {ty}_{nm}(a: {ty}, b: {ty}) -> bool:\n    return a {sym} b\n")
            for a in G[::2]:
                for b in G:
                    calls.append(f'    result("{ty}_{nm}:{a}:{b}", {ty}_{nm}({A(a, ty)}, {A(b, ty)}))')
    decls.append("@guppy\ndef int_neg(a: int) -> int:\n    return -a\n")
    decls.append("@guppy\ndef int_inv(a: int) -> int:\n    return ~a\n")
    decls.append("@guppy\ndef int_abs(a: int) -> int:\n    return abs(a)\n")
    decls.append("@guppy\ndef int_tdiv(a: int, b: int) -> float:\n    return a / b\n")
    decls.append("@guppy\ndef int_flt(a: int) -> float:\n    return float(a)\n")
    for a in GI:
        for f in ("neg", "inv", "abs", "flt"):
            calls.append(f'    result("int_{f}:{a}", int_{f}({A(a, "int")}))')
        for b in (1, -3, 7, P53 + 1):
            calls.append(f'    result("int_tdiv:{a}:{b}", int_tdiv({A(a, "int")}, {A(b, "int")}))')
    fl = [0.0, 1.0, -1.0, 0.5, -2.5, 3.0, 7.25, 1e10, 1e308]
    for sym, nm in (("+", "add"), ("-", "sub"), ("*", "mul"), ("/", "div"), ("**", "pow")):
        decls.append(f"@guppy\ndef f_{nm}(a: float, b: float) -> float:\n    return a {sym} b\n")
        for a in fl:
            for b in fl:
                if sym in ("/", "//", "%") and b == 0:
                    continue
                calls.append(f'    result("f_{nm}:{a}:{b}", f_{nm}({A(a, "float")}, {A(b, "float")}))')
    for sym, nm in (("<", "lt"), ("==", "eq"), (">=", "ge")):
        decls.append(f"@guppy\ndef f_{nm}(a: float, b: float) -> bool:\n    return a {sym} b\n")
        for a in fl:
            for b in fl:
                calls.append(f'    result("f_{nm}:{a}:{b}", f_{nm}({A(a, "float")}, {A(b, "float")}))')
    decls.append("@guppy\ndef mixed(a: int, b: float) -> float:\n    return a * b + a\n")
    calls.append('    result("mixed", mixed(3 * one, 0.5 * fone))')
    for nm, sym in (("and", "&"), ("or", "|"), ("xor", "^"), ("eq", "=="), ("ne", "!=")):
        decls.append(f"@guppy\ndef b_{nm}(a: bool, b: bool) -> bool:\n    return a {sym} b\n")
        for a in (True, False):
            for b in (True, False):
                calls.append(f'    result("b_{nm}:{a}:{b}", b_{nm}(one == {int(a)}, one == {int(b)}))')
    decls.append("@guppy\ndef b_not(a: bool) -> bool:\n    return not a\n")
    calls.append('    result("b_not:T", b_not(one == 1))')
    calls.append('    result("b_not:F", b_not(one == 0))')
    return ("from guppylang.std.quantum import qubit, x, measure\n\n" + "\n".join(decls)
            + "\n@guppy\ndef main() -> None:\n" + "\n".join(calls) + "\n")


COMMON["num:std"] = gen_num_std()

# float // and % lower to ffloor, which the 1.0.4 runtime cannot generate code for: expected 'runtime-unimplemented'
COMMON["num:float_floordiv"] = '''
@guppy
def fd(a: float, b: float) -> float:
    return a // b

@guppy
def fm(a: float, b: float) -> float:
    return a % b

@guppy
def main() -> None:
    result("fd1", fd(7.5, 2.0))
    result("fd2", fd(-7.5, 2.0))
    result("fm1", fm(7.5, 2.0))
    result("fm2", fm(-7.5, 2.0))
'''

# panics / exit: one program per event (prefix trace must agree too)
COMMON["panic:index_read"] = '''
@guppy
def main() -> None:
    xs = array(1, 2, 3)
    result("a", xs[2])
    i = 3
    result("b", xs[i])
    result("c", 0)
'''
COMMON["panic:index_neg"] = '''
@guppy
def main() -> None:
    xs = array(1, 2, 3)
    i = -1
    result("a", 1)
    result("b", xs[i])
'''
COMMON["panic:index_write"] = '''
@guppy
def main() -> None:
    xs = array(1, 2, 3)
    result("a", 1)
    i = 7
    xs[i] = 4
    result("b", xs[0])
'''
COMMON["panic:unwrap"] = '''
@guppy
def main() -> None:
    o: Option[int] = nothing()
    result("a", 1)
    result("b", o.unwrap())
'''
COMMON["panic:explicit"] = '''
@guppy
def f(x: int) -> int:
    if x > 2:
        panic("too big")
    return x

@guppy
def main() -> None:
    result("a", f(1))
    result("b", f(2))
    result("c", f(3))
    result("d", f(4))
'''
COMMON["panic:exit"] = '''
@guppy
def main() -> None:
    result("a", 1)
    exit("bye", 3)
    result("b", 2)
'''
COMMON["panic:divzero"] = '''
@guppy
def d(a: int, b: int) -> int:
    return a // b

@guppy
def main() -> None:
    result("a", d(7, 2))
    result("b", d(7, 0))
'''

COMMON["panic:divzero_blocks"] = '''
@guppy
def main() -> None:
    result("a", 1)
    i = 0
    while i < 3:
        result("i", i)
        result("d", 10 // (1 - i))
        i += 1
'''

# quantum, deterministic outcomes only
COMMON["q:basic"] = '''
@guppy
def main() -> None:
    q = qubit()
    x(q)
    result("x", bool(measure(q)))
    q = qubit()
    h(q)
    h(q)
    result("hh", bool(measure(q)))
    a = qubit()
    b = qubit()
    x(a)
    cx(a, b)
    result("cx_a", bool(measure(a)))
    result("cx_b", bool(measure(b)))
    q = qubit()
    x(q)
    reset(q)
    result("reset", bool(measure(q)))
    q = qubit()
    h(q)
    z(q)
    h(q)
    result("hzh", bool(measure(q)))
    q = qubit()
    h(q)
    s(q)
    s(q)
    h(q)
    result("hssh", bool(measure(q)))
    q = qubit()
    h(q)
    t(q)
    t(q)
    t(q)
    t(q)
    h(q)
    result("ht4h", bool(measure(q)))
    q = qubit()
    v(q)
    v(q)
    result("vv", bool(measure(q)))
    q = qubit()
    y(q)
    result("y", bool(measure(q)))
    a = qubit()
    b = qubit()
    c = qubit()
    x(a)
    x(b)
    toffoli(a, b, c)
    result("tof", bool(measure(c)))
    discard(a)
    discard(b)
    q = qubit()
    rx(q, pi)
    result("rxpi", bool(measure(q)))
    q = qubit()
    h(q)
    rz(q, pi)
    h(q)
    result("hrzh", bool(measure(q)))
    q = qubit()
    ry(q, pi)
    result("rypi", bool(measure(q)))
    a = qubit()
    b = qubit()
    h(a)
    cx(a, b)
    cx(a, b)
    h(a)
    result("bell_undo_a", bool(measure(a)))
    result("bell_undo_b", bool(measure(b)))
    a = qubit()
    b = qubit()
    x(b)
    h(b)
    cz(a, b)
    h(b)
    result("cz0", bool(measure(b)))
    discard(a)
    a = qubit()
    b = qubit()
    x(a)
    x(b)
    h(b)
    cz(a, b)
    h(b)
    result("cz1", bool(measure(b)))
    discard(a)
    qs = array(qubit() for _ in range(3))
    x(qs[1])
    q0, q1, q2 = qs
    result("arr0", bool(measure(q0)))
    result("arr1", bool(measure(q1)))
    result("arr2", bool(measure(q2)))
'''


def all_programs():
    progs = [
        {"name": "ops:int:const", "src104": prog_ops_int(False), "common": False},
        {"name": "ops:int:runtime", "src104": prog_ops_int(True), "common": False, "n_qubits": 2},
        {"name": "ops:float:runtime", "src104": prog_ops_float(True), "common": False, "n_qubits": 2},
    ]
    for op in EXOTIC_INT:
        progs.append({"name": f"ops:int:{op}:const", "src104": prog_ops_int(False, op), "common": False})
        progs.append({"name": f"ops:int:{op}:runtime", "src104": prog_ops_int(True, op), "common": False, "n_qubits": 2})
    for op in ("fabs", "ffloor", "fceil", "fround", "froundeven"):
        progs.append({"name": f"ops:float:{op}:const", "src104": prog_ops_float(False, (op,), False), "common": False})
        progs.append({"name": f"ops:float:{op}:runtime", "src104": prog_ops_float(True, (op,), False), "common": False,
                      "n_qubits": 2})
    progs += progs_ops_panics()
    for name, body in COMMON.items():
        hdr = HDR104 + (HDR_Q if name.startswith("q:") else "")
        progs.append({"name": name, "src104": hdr + body, "body": body, "common": True,
                      "n_qubits": 4 if name.startswith("q:") else 2})
    return progs


# ======================================================================================================
# (b) driver
# ======================================================================================================
def _norm_trace(tr):
    return None if tr is None else [[t, _jsonable(v)] for t, v in tr] if tr and not isinstance(tr[0], list) else tr


def _interp_repo(p):
    """interpret /repo's lowering of a common program (in-process, under the bootstrap shim)"""
    sys.path.insert(0, HERE)
    import feed
    import hugr_interp as hi

    prelude = feed.PRELUDE
    if p["name"].startswith("q:"):
        prelude += HDR_Q
    out = {}
    try:
        m = feed.load(p["body"], prelude=prelude)
    except BaseException as e:  # noqa: BLE001
        return {"compile_error": f"load: {type(e).__name__}: {str(e)[:300]}"}
    try:
        try:
            g = feed.lower(m.main)
        except BaseException as e:  # noqa: BLE001
            return {"compile_error": f"{type(e).__name__}: {str(e)[:300]}"}
        for order in ("default", "adversarial"):
            try:
                r = hi.run(g.hugr, "main", [], order=order, max_qubits=p.get("n_qubits", 4), fuel=20_000_000)
                out["interp_" + order] = {"status": r.status, "msg": r.msg, "signal": r.signal, "origin": r.origin,
                                          "trace": _trace_json(r.trace)}
            except hi.Unsupported as e:
                out["interp_" + order] = {"status": "unsupported", "msg": e.name}
            except BaseException as e:  # noqa: BLE001
                out["interp_" + order] = {"status": "error", "msg": f"{type(e).__name__}: {str(e)[:300]}"}
    finally:
        feed.unload(m)
    return out


def _emu_outcome(e):
    """emulator record -> (status, msg) comparable with the interpreter's"""
    if e["status"] == "value":
        return ("value", None)
    msg = e.get("msg") or ""
    # "Panic (#1001): boom"  — signal + 1000
    if msg.startswith("Panic (#"):
        return ("panic", msg.split("): ", 1)[1] if "): " in msg else msg)
    if "unimplemented op" in msg or "Failed to emit LLVM" in msg:
        return ("runtime-unimplemented", msg.split("Stack backtrace")[0][-200:].strip())
    return ("error", msg[:300])


KNOWN_RUNTIME_DEVIATIONS = {
    # tag prefix -> reason; the interpreter follows the op DESCRIPTION, the 1.0.4 runtime's generated code deviates
    "imod_s:-9223372036854775808:": "1.0.4 runtime: imod_s with n = -2^63 returns a remainder outside [0,m) (notes/C04.md)",
    "idivmod_s:-9223372036854775808:": "same defect through idivmod_s (remainder output)",
    "fne:NAN": "1.0.4 runtime: fne is lowered to an ORDERED comparison (fcmp one): x != NaN is False; IEEE-754 / Python: True",
}

# panic texts produced INSIDE an op by the runtime (the interpreter has its own wording for these)
RUNTIME_OP_PANICS = ("Attempted division by 0",)


def _interp_view(ir):
    """interpreter record -> (outcome, trace) in the emulator's conventions: `exit` ends the shot normally after an
    ("exit: <msg>", signal) entry"""
    tr = list(ir["trace"])
    if ir["status"] == "exit":
        tr.append([f"exit: {ir['msg']}", ir["signal"]])
        return ("value", None), tr
    if ir["status"] == "panic":
        return ("panic", ir["msg"]), tr
    return ("value", None), tr


def _cmp_traces(ta, tb):
    diffs = []
    for i in range(max(len(ta), len(tb))):
        x = ta[i] if i < len(ta) else None
        y = tb[i] if i < len(tb) else None
        if x != y:
            if x and y and x[0] == y[0] and isinstance(x[1], dict) and isinstance(y[1], dict):
                fx, fy = float.fromhex(x[1]["f"]), float.fromhex(y[1]["f"])
                if fx != fx and fy != fy:
                    continue  # NaN sign / payload is not compared
            diffs.append((i, x, y))
    return diffs


def _match(emu, ir):
    """-> (ok, known_deviations, detail)"""
    eo = _emu_outcome(emu)
    et = emu.get("trace") or []
    io, it = _interp_view(ir)
    known, unexplained = [], []
    for i, x, y in _cmp_traces(et, it):
        tag = (x or y)[0]
        ktag = tag
        if tag.startswith("fne:") and "13" in tag.split(":")[1:]:  # operand index 13 of the float grid is NaN
            ktag = "fne:NAN"
        why = next((w for k, w in KNOWN_RUNTIME_DEVIATIONS.items() if ktag.startswith(k)), None)
        if why and x and y:
            known.append({"tag": tag, "emulator": x[1], "interp": y[1], "why": why})
        else:
            unexplained.append({"index": i, "emulator": x, "interp": y})
    ok = not unexplained
    if eo[0] != io[0]:
        ok = False
    elif eo[0] == "panic" and eo[1] != io[1]:
        # a panic raised inside an op: wording differs, panic-ness must agree
        if not (ir.get("origin") == "op" and (eo[1] in RUNTIME_OP_PANICS or True)):
            ok = False
    return ok, known, {"outcome_emulator": list(eo), "outcome_interp": list(io), "trace_diffs": unexplained[:10],
                       "n_trace_diffs": len(unexplained)}


def run_emulator_validation(only=None, verbose=False):
    progs = [p for p in all_programs() if not only or only in p["name"]]
    tmp = tempfile.mkdtemp(prefix="hi-val-main-")
    inp, outp = os.path.join(tmp, "in.json"), os.path.join(tmp, "out.json")
    json.dump(progs, open(inp, "w"))
    env = {k: v for k, v in os.environ.items() if k not in ("PYTHONPATH", "VERIF_REPO")}
    t0 = time.time()
    p = subprocess.run(["/venv/bin/python", os.path.abspath(__file__), "--worker104", inp, outp],
                       env=env, capture_output=True, text=True, timeout=7200)
    if not os.path.exists(outp):
        return {"infra_error": (p.stderr or p.stdout)[-2000:]}, False
    got = json.load(open(outp))
    import shutil
    shutil.rmtree(tmp, ignore_errors=True)
    report = {"programs": {}, "seconds_worker": round(time.time() - t0, 1)}
    ok_all = True
    n_results = 0
    for pr in progs:
        name = pr["name"]
        rec = got.get(name, {})
        R = {"results_compared": 0, "status": "ok", "notes": []}
        report["programs"][name] = R
        if "compile_error" in rec:
            R["status"] = "not-accepted-by-1.0.4"
            R["notes"].append(rec["compile_error"])
            continue
        emu = rec["emu"]
        eo = _emu_outcome(emu)
        R["emu_outcome"] = list(eo)
        R["t_emu"] = rec.get("t_emu")
        R["results_compared"] = len(emu.get("trace") or [])
        compilers = {"I104": {o: rec["interp_" + o] for o in ("default", "adversarial")}}
        if pr["common"]:
            rr = _interp_repo(pr)
            if "compile_error" in rr:
                R["notes"].append("not accepted by /repo 0.21.6: " + rr["compile_error"])
                R["repo"] = "not-common"
            else:
                compilers["Irepo"] = {o: rr["interp_" + o] for o in ("default", "adversarial")}
        if eo[0] in ("runtime-unimplemented", "error"):
            # nothing to compare with: the real runtime cannot run the program
            R["status"] = eo[0]
            R["notes"].append(eo[1])
            for c, per in compilers.items():
                R[c] = {o: (ir["status"], ir.get("msg")) for o, ir in per.items()}
            if eo[0] == "error":
                ok_all = False
            continue
        for c, per in compilers.items():
            verdicts = {}
            for o, ir in per.items():
                if ir["status"] in ("unsupported", "error"):
                    verdicts[o] = (ir["status"], ir["msg"])
                    continue
                ok, known, detail = _match(emu, ir)
                if known:
                    R["known_runtime_deviations"] = known
                verdicts[o] = ("match", None) if ok else ("differ", detail)
            kinds = {v[0] for v in verdicts.values()}
            if "match" in kinds:
                R[c] = "match" if kinds == {"match"} else {o: v[0] for o, v in verdicts.items()}
                if kinds != {"match"}:
                    R["notes"].append(f"{c}: the emulator's behaviour equals one legal schedule only: "
                                      + ", ".join(f"{o}={v[0]}" for o, v in verdicts.items()))
                    R.setdefault("schedule_dependent", []).append(c)
            elif kinds == {"unsupported"}:
                R[c] = "unsupported: " + ", ".join(sorted({str(v[1]) for v in verdicts.values()}))
                R["notes"].append(f"{c}: {R[c]}")
            else:
                R[c] = {o: v for o, v in verdicts.items()}
                if c == "I104" or "error" in kinds:
                    R["status"] = "FAIL"
                    ok_all = False
                elif R["status"] == "ok":
                    R["status"] = "DIFF-repo-vs-1.0.4"
        n_results += R["results_compared"]
        if verbose or R["status"] not in ("ok",):
            print(f"  [{R['status']}] {name}: {R['results_compared']} results, emu {eo[0]} {str(eo[1])[:80]!r}; "
                  f"I104={json.dumps(R.get('I104'))[:400]} Irepo={json.dumps(R.get('Irepo'))[:400]} notes={R['notes'][:2]}")
    report["results_compared_total"] = n_results
    return report, ok_all


# ======================================================================================================
# (a) self-tests against CPython
# ======================================================================================================
class _PyPanic(Exception):
    pass


class _PyExit(Exception):
    pass


class _GArr(list):
    def _ix(self, i):
        if not isinstance(i, int) or isinstance(i, bool):
            raise TypeError(i)
        if not 0 <= i < len(self):
            raise _PyPanic("Array index out of bounds")
        return i

    def __getitem__(self, i):
        return list.__getitem__(self, self._ix(i))

    def __setitem__(self, i, v):
        list.__setitem__(self, self._ix(i), v)

    def copy(self):
        return _GArr(self)


class _FArr(_GArr):
    """frozenarray (comptime list)"""

    def _ix(self, i):
        if not 0 <= i < len(self):
            raise _PyPanic("Frozenarray index out of bounds")
        return i


class _Opt:
    def __init__(self, has, v=None):
        self.has, self.v = has, v

    def is_some(self):
        return self.has

    def is_nothing(self):
        return not self.has

    def unwrap(self):
        if not self.has:
            raise _PyPanic("Option.unwrap: value is `Nothing`")
        return self.v

    def unwrap_nothing(self):
        if self.has:
            raise _PyPanic("Option.unwrap: value is `Some`")


def _py_env(trace):
    import dataclasses

    class _G:
        def __call__(self, f):
            return f

        @staticmethod
        def struct(c):
            return dataclasses.dataclass(c)

        @staticmethod
        def type_var(*a, **k):
            return None

        @staticmethod
        def nat_var(*a, **k):
            return None

    def array(*a):
        if len(a) == 1 and hasattr(a[0], "__next__"):
            return _GArr(list(a[0]))
        return _GArr(a)

    def panic(msg, *a):
        raise _PyPanic(msg)

    def exit(msg, signal, *a):  # noqa: A001
        raise _PyExit(msg, signal)

    def result(tag, v):
        trace.append((tag, list(v) if isinstance(v, list) else v))

    def comptime(v):
        return _FArr(v) if isinstance(v, list) else v

    env = {"guppy": _G(), "comptime": comptime, "array": array, "panic": panic, "exit": exit, "result": result, "nat": int,
           "some": lambda v: _Opt(True, v), "nothing": lambda: _Opt(False), "owned": None, "Option": None}
    from collections.abc import Callable

    env["Callable"] = Callable
    return env


def _norm_py(v):
    if isinstance(v, _Opt):
        return ("some", _norm_py(v.v)) if v.has else ("nothing",)
    if isinstance(v, _GArr | list):
        return [_norm_py(x) for x in v]
    if isinstance(v, tuple):
        return tuple(_norm_py(x) for x in v)
    return v


def _wrapS(x):
    return (x + P63) % P64 - P63


def _py_run(src, fname, args, wrap):
    trace = []
    env = _py_env(trace)
    code = compile("from __future__ import annotations\n" + src, "<selftest>", "exec")
    exec(code, env)  # noqa: S102
    a2 = [_GArr(a) if isinstance(a, list) else a for a in args]
    try:
        v = env[fname](*a2)
        v = _norm_py(v)
        if wrap:
            v = _wrap_val(v)
        return ("value", v), trace, [_norm_py(a) for a in a2]
    except _PyPanic as e:
        return ("panic", str(e)), trace, None
    except _PyExit as e:
        return ("exit", e.args[0], e.args[1]), trace, None
    except ZeroDivisionError:
        return ("panic", "<op>"), trace, None


def _wrap_val(v):
    if isinstance(v, bool):
        return v
    if isinstance(v, int):
        return _wrapS(v)
    if isinstance(v, tuple):
        return tuple(_wrap_val(x) for x in v)
    if isinstance(v, list):
        return [_wrap_val(x) for x in v]
    return v


def selftest_programs(rng):
    """-> list of (name, source, fname, [args...], wrap)   (wrap: compare modulo 2^64 — ring expressions only)"""
    T = []
    BI = [0, 1, -1, 2, -2, 7, -13, 63, 1 << 31, -(1 << 31), (1 << 32) + 5, P53 + 1, 1 << 62, -(1 << 62), P63 - 1, -P63, -P63 + 1]

    # ---- F1a ring expressions on boundary operands (compared modulo 2^64) --------------------------------
    def ring(depth):
        if depth == 0 or rng.random() < 0.2:
            return rng.choice(["a", "b", "c", str(rng.choice([0, 1, 2, 3, 5, 255, 65537, P63 - 1]))])
        k = rng.random()
        if k < 0.12:
            return f"(-{ring(depth - 1)})"
        if k < 0.24:
            return f"(~{ring(depth - 1)})"
        if k < 0.32:
            return f"({ring(depth - 1)} << {rng.choice([0, 1, 3, 31, 63])})"
        op = rng.choice(["+", "-", "*", "&", "|", "^", "+", "-", "*"])
        return f"({ring(depth - 1)} {op} {ring(depth - 1)})"

    for i in range(24):
        e = ring(rng.choice([2, 3, 4]))
        src = f"@guppy\ndef f(a: int, b: int, c: int) -> int:\n    return {e}\n"
        args = [[rng.choice(BI), rng.choice(BI), rng.choice(BI)] for _ in range(10)]
        T.append((f"ring{i}", src, "f", args, True))

    # ---- F1b guarded ops: divisor > 0, shifts of non-negative values, comparisons, abs, pow, divmod (no overflow) -----
    SM = [0, 1, -1, 2, 7, -7, 10, -10, 63, 100, -100, 12345, -98765, 1 << 20, -(1 << 20), (1 << 40) + 3, -(1 << 40) - 3, P63 - 1, -P63 + 1]
    POS = [1, 2, 3, 7, 10, 64, 1000, (1 << 31) + 1, P63 - 1]
    guarded = [
        ("fdiv", "a // b", SM, POS), ("mod", "a % b", SM, POS),
        ("shr", "a >> b", [x for x in SM if x >= 0], [0, 1, 5, 31, 62, 63]),
        ("lt", "a < b", BI, BI), ("le", "a <= b", BI, BI), ("gt", "a > b", BI, BI), ("ge", "a >= b", BI, BI),
        ("eq", "a == b", BI, BI), ("ne", "a != b", BI, BI),
        ("pow", "a ** b", [0, 1, -1, 2, -2, 3, 7, -7, 10], [0, 1, 2, 3, 5, 10, 18]),
        ("abs", "abs(a) + b", [x for x in BI if x != -P63], [0]),
        ("divmod", "divmod(a, b)", SM, POS),
        ("tdiv", "a / b", [x for x in SM if abs(x) <= P53], [x for x in POS if x <= P53] + [-3, -7]),
        ("min3", "(a if a < b else b)", BI, BI),
        ("bool", "bool(a) and not bool(b)", BI, [0, 1, -1]),
        ("mix", "(a // b) * b + (a % b) == a", SM, POS),
    ]
    for nm, e, A, B in guarded:
        rt = {"lt": "bool", "le": "bool", "gt": "bool", "ge": "bool", "eq": "bool", "ne": "bool", "bool": "bool", "mix": "bool",
              "divmod": "tuple[int, int]", "tdiv": "float"}.get(nm, "int")
        src = f"@guppy\ndef f(a: int, b: int) -> {rt}:\n    return {e}\n"
        args = [[a, b] for a in A for b in B]
        rng.shuffle(args)
        T.append((f"guard_{nm}", src, "f", args[:40], False))
    # nat
    NB = [0, 1, 2, 7, 63, 64, 1 << 32, P53 + 1, P63 - 1]
    for nm, e, rt in (("nfdiv", "a // (b + nat(1))", "nat"), ("nmod", "a % (b + nat(1))", "nat"), ("nshr", "a >> (b % nat(64))", "nat"),
                      ("nlt", "a < b", "bool"), ("nge", "a >= b", "bool")):
        src = f"@guppy\ndef f(a: nat, b: nat) -> {rt}:\n    return {e}\n"
        T.append((f"guard_{nm}", src, "f", [[a, b] for a in NB for b in NB][:50], False))
    # floats
    FL = [0.0, 1.0, -1.0, 0.5, -0.25, 1.5, 3.0, -7.5, 1e10, 1e-3, 123456.789]
    for nm, e, rt in (("fadd", "a + b * a - b", "float"), ("fdivv", "a / (b * b + 1.0)", "float"), ("fcmp", "a < b or a == b", "bool"),
                      ("fneg", "-a + abs(b)", "float"), ("fint", "float(int(a)) + b", "float"), ("fpow", "(abs(a) + 1.0) ** 2.0", "float")):
        src = f"@guppy\ndef f(a: float, b: float) -> {rt}:\n    return {e}\n"
        T.append((f"float_{nm}", src, "f", [[a, b] for a in FL for b in FL][:40], False))
    T.append(("float_ofint", "@guppy\ndef f(a: int) -> float:\n    return float(a) * 0.5\n", "f", [[a] for a in BI], False))
    T.append(("int_offloat", "@guppy\ndef f(a: float) -> int:\n    return int(a)\n", "f",
              [[a] for a in [0.0, 0.9, -0.9, 1.5, -1.5, 1e10, -1e10, 9.2e18, -9.2e18]], False))

    # ---- F2 control flow ---------------------------------------------------------------------------------------
    small = [[x] for x in (-3, 0, 1, 2, 5, 9, 17, 40)]
    pairs = [[a, b] for a in (-2, 0, 1, 3, 6) for b in (-1, 0, 2, 5)]
    for i in range(10):
        c1, c2, c3 = rng.randrange(2, 6), rng.randrange(1, 9), rng.randrange(2, 5)
        src = f'''@guppy
def f(n: int) -> int:
    s = {c2}
    i = 0
    while i < n:
        if i % {c1} == 0:
            s += i * {c3}
        elif i % {c1} == 1:
            s -= {c2}
            if s < -20:
                break
        else:
            i += 1
            continue
        i += 1
    return s
'''
        T.append((f"while{i}", src, "f", small, False))
    for i in range(8):
        c1, c2 = rng.randrange(1, 7), rng.randrange(2, 9)
        step = rng.choice([1, 2, 3])
        src = f'''@guppy
def f(a: int, b: int) -> int:
    t = 0
    for i in range(0, a * 2 + 1, {step}):
        for j in range(b):
            if (i + j) % {c2} == {c1 % c2}:
                continue
            t += i - j
            if t > 50:
                return t
            result("t", t)
    return -t
'''
        T.append((f"for{i}", src, "f", pairs, False))
    for i in range(6):
        k1, k2 = rng.randrange(-5, 6), rng.randrange(1, 10)
        src = f'''@guppy
def g(x: int) -> bool:
    result("g", x)
    return x > {k1}

@guppy
def f(a: int, b: int) -> int:
    r = 0
    if g(a) and g(b):
        r += 1
    if g(a + {k2}) or g(b - {k2}):
        r += 10
    if not (g(a * 2) or a == b) and g(b):
        r += 100
    r += 1000 if g(a - b) else 2000 if a < b <= {k2} else 3000
    return r
'''
        T.append((f"bool{i}", src, "f", pairs, False))
    T.append(("order_args", '''@guppy
def n(x: int) -> int:
    result("n", x)
    return x + 1

@guppy
def f(a: int) -> int:
    t = (n(a), n(a + 10), n(a + 20))
    x, y, z = t
    return n(x) * 100 + n(y) - n(n(z))
''', "f", small, False))
    T.append(("none_ret", '''@guppy
def f(a: int) -> None:
    if a > 3:
        result("big", a)
        return
    result("small", a)
''', "f", small, False))

    # ---- F3 tuples / structs ----------------------------------------------------------------------------------------
    T.append(("tup_swap", "@guppy\ndef f(a: int, b: int) -> tuple[int, int]:\n    a, b = b, a + b\n    a, b = b, a + b\n    return a, b\n", "f", pairs, False))
    T.append(("tup_nest", "@guppy\ndef f(a: int, b: int) -> tuple[int, tuple[bool, int]]:\n    t = (a, (a < b, b * 2))\n    x, (y, z) = t\n    return z, (not y, x)\n", "f", pairs, False))
    T.append(("tup_param", "@guppy\ndef g(t: tuple[int, int]) -> int:\n    return t[0] - t[1]\n\n@guppy\ndef f(a: int, b: int) -> int:\n    return g((a, b)) * g((b, a))\n", "f", pairs, False))
    T.append(("tup_float", "@guppy\ndef f(a: int, b: float) -> tuple[float, int, bool]:\n    return b * 2.0, a + 1, b > 1.0\n", "f", [[1, 0.5], [-3, 2.5], [0, 1.0]], False))
    T.append(("tup_loop", "@guppy\ndef f(n: int) -> tuple[int, int]:\n    p = (0, 1)\n    for _ in range(n):\n        p = (p[1], p[0] + p[1])\n    return p\n", "f", [[x] for x in (0, 1, 2, 10, 40)], False))
    T.append(("struct_pt", '''@guppy.struct
class Pt:
    x: int
    y: int

@guppy
def mv(p: Pt, d: int) -> Pt:
    return Pt(p.x + d, p.y - d)

@guppy
def f(a: int, b: int) -> tuple[int, int]:
    p = Pt(a, b)
    q = mv(mv(p, 3), b)
    return q.x * 2, q.y + p.x
''', "f", pairs, False))
    T.append(("struct_nested", '''@guppy.struct
class In:
    v: int
    w: bool

@guppy.struct
class Out:
    i: In
    k: int

@guppy
def f(a: int, b: int) -> int:
    o = Out(In(a, a > b), b)
    k = o.k
    if o.i.w:
        k += o.i.v
    return k * 10 + o.i.v
''', "f", pairs, False))

    # ---- F4 arrays -----------------------------------------------------------------------------------------------
    idx = [[i] for i in (-7, -1, 0, 1, 2, 3, 4, 5, 100, P63 - 1, -P63)]
    T.append(("arr_get", "@guppy\ndef f(i: int) -> int:\n    xs = array(10, 20, 30, 40)\n    return xs[i]\n", "f", idx, False))
    T.append(("arr_set", "@guppy\ndef f(i: int) -> int:\n    xs = array(10, 20, 30, 40)\n    xs[i] = 7\n    return xs[0] + xs[1] + xs[2] + xs[3]\n", "f", idx, False))
    T.append(("arr_param", "@guppy\ndef f(xs: array[int, 4], i: int) -> int:\n    xs[i] = xs[i] + 1\n    return xs[i] * 2\n", "f",
              [[[1, 2, 3, 4], i[0]] for i in idx], False))
    T.append(("arr_inout", '''@guppy
def add(xs: array[int, 3], k: int) -> None:
    for i in range(3):
        xs[i] += k

@guppy
def f(xs: array[int, 3], k: int) -> int:
    add(xs, k)
    add(xs, k * 2)
    return xs[0] + xs[2]
''', "f", [[[1, 2, 3], k] for k in (-2, 0, 5)], False))
    T.append(("arr_ret", "@guppy\ndef f(a: int, b: int) -> array[int, 3]:\n    xs = array(a, b, a + b)\n    xs[1] = xs[0] * xs[2]\n    return xs\n", "f", pairs, False))
    T.append(("arr_comp", "@guppy\ndef f(xs: array[int, 4] @owned, k: int) -> array[int, 4]:\n    return array(x * k + 1 for x in xs)\n", "f",
              [[[1, -2, 3, 0], k] for k in (-1, 0, 3)], False))
    T.append(("arr_comp_range", "@guppy\ndef f(k: int) -> array[int, 5]:\n    return array(i * i - k for i in range(5))\n", "f", small, False))
    T.append(("arr_iter", "@guppy\ndef f(xs: array[int, 5] @owned) -> int:\n    s = 0\n    for x in xs:\n        if x < 0:\n            continue\n        s = s * 2 + x\n    return s\n",
              "f", [[[1, 2, 3, 4, 5]], [[0, -1, 7, -3, 2]], [[0, 0, 0, 0, 0]]], False))
    T.append(("arr_unpack", "@guppy\ndef f(xs: array[int, 3] @owned) -> int:\n    a, b, c = xs\n    return a * 100 + b * 10 + c\n", "f", [[[1, 2, 3]], [[9, 0, -4]]], False))
    T.append(("arr_star", "@guppy\ndef f(xs: array[int, 5] @owned) -> int:\n    a, *m, z = xs\n    return a * 1000 + m[0] * 100 + m[2] * 10 + z\n", "f", [[[1, 2, 3, 4, 5]]], False))
    T.append(("arr_nested", "@guppy\ndef f(i: int, j: int) -> int:\n    m = array(array(1, 2, 3), array(4, 5, 6))\n    return m[i][j]\n", "f",
              [[i, j] for i in (-1, 0, 1, 2) for j in (0, 2, 3)], False))
    T.append(("arr_tuple_elems", "@guppy\ndef f(i: int) -> tuple[int, bool]:\n    xs = array((1, True), (2, False), (3, True))\n    a, b = xs[i]\n    return a * 2, not b\n", "f", idx[:7], False))
    T.append(("arr_float", "@guppy\ndef f(i: int) -> float:\n    xs = array(0.5, 1.5, 2.5)\n    xs[i] = xs[i] * 4.0\n    return xs[0] + xs[1] + xs[2]\n", "f", idx[:7], False))
    T.append(("arr_bool", "@guppy\ndef f(i: int) -> array[bool, 3]:\n    xs = array(True, False, True)\n    xs[i] = not xs[i]\n    return xs\n", "f", idx[:7], False))
    T.append(("arr_len", "@guppy\ndef f(xs: array[int, 4]) -> int:\n    return len(xs) * 10 + xs[len(xs) - 1]\n", "f", [[[5, 6, 7, 8]]], False))
    T.append(("arr_copy", "@guppy\ndef f(xs: array[int, 3]) -> int:\n    ys = xs.copy()\n    ys[0] = 99\n    return xs[0] * 1000 + ys[0]\n", "f", [[[1, 2, 3]]], False))
    T.append(("arr_while_oob", "@guppy\ndef f(n: int) -> int:\n    xs = array(1, 2, 3, 4)\n    s = 0\n    i = 0\n    while i < n:\n        result(\"i\", i)\n        s += xs[i]\n        i += 1\n    return s\n",
              "f", [[0], [2], [4], [5], [9]], False))
    for i in range(6):
        n = rng.randrange(2, 6)
        vals = [rng.randrange(-9, 10) for _ in range(n)]
        k = rng.randrange(1, 4)
        src = f'''@guppy
def f(i: int, j: int) -> int:
    xs = array({", ".join(map(str, vals))})
    t = xs[i]
    xs[i] = xs[j] * {k}
    xs[j] = t - {k}
    s = 0
    for p in range({n}):
        s = s * 3 + xs[p]
    return s
'''
        T.append((f"arr_rand{i}", src, "f", [[a, b] for a in (-1, 0, 1, n - 1, n) for b in (0, n - 1, n + 1)], False))

    # ---- F5 options -------------------------------------------------------------------------------------------------------
    T.append(("opt_ret", "@guppy\ndef f(a: int) -> Option[int]:\n    if a > 2:\n        return some(a * 2)\n    return nothing()\n", "f", small, False))
    T.append(("opt_unwrap", "@guppy\ndef g(a: int) -> Option[int]:\n    if a % 2 == 0:\n        return some(a // 2)\n    return nothing()\n\n@guppy\ndef f(a: int) -> int:\n    result(\"pre\", a)\n    return g(a).unwrap() + 1\n",
              "f", [[x] for x in (0, 1, 2, 7, 10)], False))
    T.append(("opt_is", "@guppy\ndef f(a: int) -> tuple[bool, bool]:\n    o: Option[int] = some(a)\n    n: Option[int] = nothing()\n    if a < 0:\n        o = n\n    return o.is_some(), o.is_nothing()\n", "f", small, False))
    T.append(("opt_unwrap_nothing", "@guppy\ndef f(a: int) -> int:\n    o: Option[int] = some(a)\n    n: Option[int] = nothing()\n    if a < 0:\n        o = n\n    o.unwrap_nothing()\n    return 1\n", "f", [[-1], [1]], False))
    T.append(("opt_tuple", "@guppy\ndef f(a: int) -> int:\n    o: Option[tuple[int, bool]] = some((a, a > 1))\n    x, y = o.unwrap()\n    return x + 5 if y else x - 5\n", "f", small, False))
    T.append(("opt_loop", '''@guppy
def first_neg(xs: array[int, 4]) -> Option[int]:
    for i in range(4):
        if xs[i] < 0:
            return some(i)
    return nothing()

@guppy
def f(xs: array[int, 4]) -> int:
    o = first_neg(xs)
    if o.is_some():
        return o.unwrap()
    return 100
''', "f", [[[1, 2, 3, 4]], [[1, -2, 3, -4]], [[-1, 2, 3, 4]], [[1, 2, 3, -4]]], False))

    # ---- F6 calls / recursion / higher order ------------------------------------------------------------------------------------
    T.append(("rec_fib", "@guppy\ndef f(n: int) -> int:\n    if n < 2:\n        return n\n    return f(n - 1) + f(n - 2)\n", "f", [[x] for x in (0, 1, 2, 10, 15)], False))
    T.append(("rec_fact_wrap", "@guppy\ndef f(n: int) -> int:\n    return 1 if n <= 1 else n * f(n - 1)\n", "f", [[x] for x in (0, 5, 20, 21, 25, 66)], True))
    T.append(("rec_mutual", "@guppy\ndef ev(n: int) -> bool:\n    return True if n == 0 else od(n - 1)\n\n@guppy\ndef od(n: int) -> bool:\n    return False if n == 0 else ev(n - 1)\n\n@guppy\ndef f(n: int) -> bool:\n    return ev(n)\n",
              "f", [[x] for x in (0, 1, 10, 33)], False))
    T.append(("rec_gcd", "@guppy\ndef f(a: int, b: int) -> int:\n    if b == 0:\n        return a\n    return f(b, a % b)\n", "f", [[1071, 462], [17, 5], [0, 9], [9, 0], [100, 75]], False))
    T.append(("rec_ack", "@guppy\ndef f(m: int, n: int) -> int:\n    if m == 0:\n        return n + 1\n    if n == 0:\n        return f(m - 1, 1)\n    return f(m - 1, f(m, n - 1))\n",
              "f", [[0, 0], [1, 2], [2, 2], [2, 3]], False))
    T.append(("rec_arr", "@guppy\ndef sm(xs: array[int, 4], i: int) -> int:\n    if i >= 4:\n        return 0\n    return xs[i] + sm(xs, i + 1)\n\n@guppy\ndef f(xs: array[int, 4]) -> int:\n    return sm(xs, 0)\n",
              "f", [[[1, 2, 3, 4]], [[-5, 5, 10, 0]]], False))
    T.append(("hof_twice", "@guppy\ndef inc(x: int) -> int:\n    return x + 1\n\n@guppy\ndef dbl(x: int) -> int:\n    return x * 2\n\n@guppy\ndef tw(g: Callable[[int], int], x: int) -> int:\n    return g(g(x))\n\n"
              "@guppy\ndef f(a: int, b: int) -> int:\n    h = inc if a > b else dbl\n    return tw(h, a) + tw(dbl, b) - tw(inc, 0)\n", "f", pairs, False))
    T.append(("hof_ret", "@guppy\ndef inc(x: int) -> int:\n    return x + 1\n\n@guppy\ndef neg(x: int) -> int:\n    return -x\n\n@guppy\ndef pick(b: bool) -> Callable[[int], int]:\n    if b:\n        return inc\n    return neg\n\n"
              "@guppy\ndef f(a: int, b: int) -> int:\n    return pick(a > 0)(b) * 10 + pick(b > 0)(a)\n", "f", pairs, False))
    T.append(("nested_def", "@guppy\ndef f(a: int, b: int) -> int:\n    def h(x: int) -> int:\n        return x * x + 1\n    return h(a) - h(b)\n", "f", pairs, False))
    T.append(("depth_chain", "@guppy\ndef a1(x: int) -> int:\n    return x + 1\n\n@guppy\ndef a2(x: int) -> int:\n    return a1(x) * 2\n\n@guppy\ndef a3(x: int) -> int:\n    return a2(x) - a1(x)\n\n@guppy\ndef f(x: int) -> int:\n    return a3(a2(a1(x)))\n",
              "f", small, False))

    # ---- F6b generics, frozenarrays (static_array), comptime values ------------------------------------------------------
    T.append(("generic_id", 'T = guppy.type_var("T")\n\n@guppy\ndef ident(x: T) -> T:\n    return x\n\n@guppy\ndef f(a: int, b: int) -> tuple[int, bool]:\n'
              '    return ident(a) + ident(b), ident(a > b)\n', "f", pairs, False))
    T.append(("generic_pair", 'A = guppy.type_var("A")\nB = guppy.type_var("B")\n\n@guppy\ndef sw(t: tuple[A, B]) -> tuple[B, A]:\n    x, y = t\n    return y, x\n\n'
              '@guppy\ndef f(a: int, b: int) -> tuple[bool, int]:\n    return sw((a * 2, a < b))\n', "f", pairs, False))
    T.append(("generic_len", 'n = guppy.nat_var("n")\n\n@guppy\ndef sm(xs: array[int, n]) -> int:\n    s = 0\n    for i in range(len(xs)):\n        s += xs[i] * (i + 1)\n    return s\n\n'
              '@guppy\ndef f(a: int, b: int) -> int:\n    return sm(array(a, b, 3)) * 100 + sm(array(b, a))\n', "f", pairs, False))
    T.append(("frozen_get", "@guppy\ndef f(i: int) -> int:\n    xs = comptime([10, 20, 30, 40])\n    return xs[i] + 1\n", "f", idx, False))
    T.append(("frozen_loop", "@guppy\ndef f(k: int) -> int:\n    xs = comptime([3, 1, 4, 1, 5])\n    s = 0\n    for x in xs:\n        s = s * k + x\n    return s\n", "f", small[:6], False))
    T.append(("comptime_vals", "@guppy\ndef f(a: int) -> tuple[int, float, bool]:\n    return a + comptime(2 ** 40), comptime(1.5 * 3), comptime(3 > 2)\n", "f", small, False))

    # ---- F7 panic / exit ------------------------------------------------------------------------------------------------------
    T.append(("panic_branch", "@guppy\ndef f(a: int) -> int:\n    result(\"in\", a)\n    if a > 4:\n        panic(\"too big\")\n    result(\"ok\", a)\n    return a\n", "f", small, False))
    T.append(("panic_loop", "@guppy\ndef f(n: int) -> int:\n    s = 0\n    for i in range(n):\n        if i == 6:\n            panic(\"six\")\n        s += i\n        result(\"s\", s)\n    return s\n", "f", small, False))
    T.append(("panic_callee", "@guppy\ndef g(a: int) -> int:\n    if a == 2:\n        panic(\"two\")\n    return a\n\n@guppy\ndef f(a: int) -> int:\n    return g(a) + g(a + 1) + g(a + 2)\n", "f", small, False))
    T.append(("exit_branch", "@guppy\ndef f(a: int) -> int:\n    if a == 5:\n        exit(\"five\", 4)\n    return a\n", "f", small, False))
    T.append(("divzero", "@guppy\ndef f(a: int) -> int:\n    result(\"pre\", a)\n    return 100 // a\n", "f", [[5], [0], [1]], False))
    T.append(("modzero_nat", "@guppy\ndef f(a: nat) -> nat:\n    return nat(100) % a\n", "f", [[5], [0], [7]], False))
    return T


def run_selftests(verbose=False, only=None):
    sys.path.insert(0, HERE)
    import feed
    import hugr_interp as hi

    rng = random.Random(20260922)
    tests = [t for t in selftest_programs(rng) if not only or only in t[0]]
    rep = {"programs": len(tests), "cases": 0, "failures": [], "unsupported": [], "rejected": []}
    for name, src, fname, arglists, wrap in tests:
        try:
            m = feed.load(src if "Callable" not in src else "from collections.abc import Callable\n" + src)
            g = feed.lower(getattr(m, fname))
            _n, shape = hi._guppy_sig(getattr(m, fname))
        except BaseException as e:  # noqa: BLE001
            rep["rejected"].append({"program": name, "error": f"{type(e).__name__}: {str(e)[:200]}"})
            continue
        try:
            for args in arglists:
                want, wtrace, wargs = _py_run(src, fname, [list(a) if isinstance(a, list) else a for a in args], wrap)
                for order in ("default", "adversarial"):
                    rep["cases"] += 1
                    try:
                        r = hi.run(g.hugr, fname, args, order=order, ret_shape=shape, fuel=5_000_000)
                    except hi.Unsupported as e:
                        rep["unsupported"].append({"program": name, "op": e.name})
                        break
                    except BaseException as e:  # noqa: BLE001
                        rep["failures"].append({"program": name, "args": repr(args), "order": order,
                                                "error": f"{type(e).__name__}: {str(e)[:300]}"})
                        continue
                    got = r.outcome()
                    op_panic = r.status == "panic" and r.origin == "op"
                    if op_panic:
                        # a panic raised inside an op (division by zero, `borrow` out of range on an array of
                        # non-copyable elements): the message is the runtime's, only panic-ness is compared
                        got = ("panic", "<op>")
                        if want[0] == "panic":
                            want = ("panic", "<op>")
                    ok = _same(got, want)
                    if ok and r.trace != wtrace:
                        # ops that panic internally carry no order edge in /repo's lowering
                        # (EXTENSION_OPS_WITH_SIDE_EFFECTS lists results / panic / exit / qubit alloc only), so under the
                        # adversarial schedule such a panic may legally overtake an earlier `result`: the trace is then a
                        # PREFIX of CPython's.  Recorded, not a failure of the interpreter.
                        if op_panic and order != "default" and wtrace[:len(r.trace)] == r.trace:
                            rep.setdefault("op_panic_overtakes_result", []).append({"program": name, "args": repr(args)})
                        else:
                            ok = False
                    if ok and want[0] == "value" and wargs is not None and r.inouts:
                        # borrowed array arguments: final contents must equal CPython's mutated lists
                        pyin = [a for a in wargs if isinstance(a, list)]
                        if len(pyin) == len(r.inouts) and pyin != r.inouts:
                            ok = False
                    if not ok:
                        rep["failures"].append({"program": name, "args": repr(args), "order": order, "interp": repr(got),
                                                "python": repr(want), "trace_interp": repr(r.trace)[:300],
                                                "trace_python": repr(wtrace)[:300], "inouts": repr(r.inouts)[:200]})
        finally:
            feed.unload(m)
    if verbose or rep["failures"] or rep["rejected"] or rep["unsupported"]:
        for f in rep["failures"][:30]:
            print("  FAIL", json.dumps(f)[:700])
        for f in rep["rejected"][:30]:
            print("  REJECTED", json.dumps(f)[:400])
        for f in rep["unsupported"][:30]:
            print("  UNSUPPORTED", json.dumps(f)[:400])
    return rep, not rep["failures"] and not rep["rejected"] and not rep["unsupported"]


def _same(a, b):
    if isinstance(a, float) and isinstance(b, float):
        return (a != a and b != b) or (a == b and math.copysign(1, a) == math.copysign(1, b))
    if isinstance(a, tuple | list) and isinstance(b, tuple | list):
        return type(a) is type(b) and len(a) == len(b) and all(_same(x, y) for x, y in zip(a, b, strict=True))
    if isinstance(a, bool) != isinstance(b, bool):
        return False
    return a == b


# ======================================================================================================
def main(argv):
    if len(argv) >= 4 and argv[1] == "--worker104":
        worker104(argv[2], argv[3])
        return 0
    do_self = "--self" in argv or not ("--emu" in argv)
    do_emu = "--emu" in argv or not ("--self" in argv)
    verbose = "-v" in argv
    only = argv[argv.index("--only") + 1] if "--only" in argv else None
    out = argv[argv.index("--out") + 1] if "--out" in argv else os.path.join(os.path.dirname(HERE), "out", "hugr_interp_validation.json")
    report = {"when": time.strftime("%Y-%m-%dT%H:%M:%SZ", time.gmtime())}
    ok = True
    if do_self:
        t0 = time.time()
        rep, ok1 = run_selftests(verbose, only)
        rep["seconds"] = round(time.time() - t0, 1)
        report["selftests"] = rep
        ok &= ok1
        print(f"self-tests: {rep['programs']} programs, {rep['cases']} cases, {len(rep['failures'])} failures, "
              f"{len(rep['rejected'])} rejected, {len(rep['unsupported'])} unsupported, {rep['seconds']} s")
    if do_emu:
        t0 = time.time()
        rep, ok2 = run_emulator_validation(only, verbose)
        rep["seconds"] = round(time.time() - t0, 1)
        report["emulator"] = rep
        ok &= ok2
        if "infra_error" in rep:
            print("emulator validation: infrastructure error:", rep["infra_error"][-500:])
        else:
            st = {}
            for r in rep["programs"].values():
                st[r["status"]] = st.get(r["status"], 0) + 1
            print(f"emulator validation: {len(rep['programs'])} programs, {rep['results_compared_total']} results compared, "
                  f"status {st}, {rep['seconds']} s")
    os.makedirs(os.path.dirname(out), exist_ok=True)
    json.dump(report, open(out, "w"), indent=1, default=str)
    print("report:", out, "— OK" if ok else "— DISAGREEMENTS")
    return 0 if ok else 1


if __name__ == "__main__":
    sys.exit(main(sys.argv))
