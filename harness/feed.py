"""Feed generated Guppy source to /repo's real compiler in-process."""
from __future__ import annotations

import itertools
import linecache
import sys
import types

import bootstrap

bootstrap.install()

_counter = itertools.count()

PRELUDE = (
    "from guppylang import guppy\n"
    "from guppylang.std.builtins import *\n"
)


def load(src: str, prelude: str = PRELUDE, name: str | None = None) -> types.ModuleType:
    """exec `prelude+src` as a fresh module whose source is visible to inspect."""
    n = next(_counter)
    modname = name or f"_verif_prog_{n}"
    fn = f"<verif-prog-{n}>"
    full = prelude + src
    linecache.cache[fn] = (len(full), None, full.splitlines(True), fn)
    m = types.ModuleType(modname)
    m.__file__ = fn
    sys.modules[modname] = m
    exec(compile(full, fn, "exec"), m.__dict__)
    return m


def unload(m: types.ModuleType) -> None:
    sys.modules.pop(m.__name__, None)
    linecache.cache.pop(m.__file__, None)


def check_outcome(defn):
    """Run .check() on a GuppyDefinition; return ('ok',None) | ('user', err) | ('crash', exc)."""
    from guppylang_internals.error import GuppyError, GuppyTypeError, GuppyComptimeError

    try:
        defn.check()
        return ("ok", None)
    except GuppyError as e:  # includes GuppyTypeError
        return ("user", e)
    except GuppyComptimeError as e:
        return ("user", e)
    except BaseException as e:  # noqa: BLE001
        return ("crash", e)


def err_class(e) -> str:
    d = getattr(e, "error", None)
    return type(d).__name__ if d is not None else type(e).__name__


def lower(defn):
    """Check + lower `defn` with the real compiler; returns the hugr Module builder."""
    import hugr.build.function as hf
    from guppylang_internals.compiler.core import CompilerContext
    from guppylang_internals.engine import ENGINE

    ENGINE.check(defn.id)
    g = hf.Module()
    ctx = CompilerContext(g)
    ctx.compile(ENGINE.checked[defn.id])
    return g


def op_name(op) -> str:
    import hugr.ops as ops

    if isinstance(op, ops.ExtOp):
        return op.op_def().qualified_name()
    if isinstance(op, ops.Custom):
        return f"{op.extension}.{op.op_name}"
    return type(op).__name__


def ops_of(g) -> list[str]:
    return [op_name(g.hugr[n].op) for n in g.hugr]
