"""C33 — Experimental features are gated and the gate state is restored."""
from __future__ import annotations

import json
import os
import sys

sys.path.insert(0, os.path.dirname(os.path.dirname(os.path.abspath(__file__))))
import vlib

PID = "C33"
THEOREM_MODULES = ["GuppyVerif.Props.C33", "GuppyVerif.Props.C33Closure", "GuppyVerif.Props.C33GateOrder"]
DRIVER = "C33"
RULE = (
    "case = (initial flag, program tree) over: bare enable/disable calls, `with enable/disable():` blocks, kept manager "
    "objects (`x = enable()` ... `with x:`), `.check()` of 8 fixed Guppy programs (list type / list literal in synth and "
    "check mode / list comprehension / function tensor x2 / capturing closure / modifier block), `raise`, `try/except`. "
    "The tree is printed as Python source and exec'd against the REAL classes; observed: accept/reject (+diagnostic class) "
    "of every check and the real flag after every statement. quick: corpus + random trees (depth<=4); thorough: every tree "
    "with <=5 nodes x both initial flags (exhaustive) + random larger trees. non-trivial = with-nesting depth >=2 or an "
    "exception raised inside a with block; distinct by canonical request line. SECOND STREAM (which programs trip the closure gate): "
    "generated enclosing functions with value / Callable parameters, value locals, function-valued locals (`g = double`) and nested "
    "functions whose straight-line bodies read outer locals of either type, own parameters (possibly shadowing an outer local), own "
    "name, a global, own temporaries (possibly assigned before/after being read, possibly named like an outer local); each is "
    "printed as a Guppy program and checked by the real checker with the features off and on (accept / Capturing-closures "
    "rejection / IllegalAssignError) against Model/ClosureGate.lean and a positional Python oracle; non-trivial = a nested function "
    "captures or has >1 statement. THIRD STREAM (gate before every other check): 26 degenerate / ill-formed instances of the gated "
    "constructs in random statement contexts, features off => exactly the gate error, on => not the gate error; T-src table of all "
    "gate call sites regenerated from the checker's AST every run (Gen/C33GateSites.lean)"
)
ASSUMPTIONS = [
    "CPython `with` statement semantics (manager expression evaluated first, __exit__ called on normal and exceptional exit, falsy return re-raises)",
    "the Lean model Model/FeatureGate.lean is hand-written; agreement with experimental.py and with the checker's gate call sites is established by the same-input correspondence run here",
    "reading: 'rejected with an experimental-feature error' means a GuppyError whose diagnostic is ExperimentalFeatureError, except capturing closures which the code (and its golden test tests/error/experimental_errors/capturing_closure.err) reject with UnsupportedError('Capturing closures')",
    "reading: for a manager object that was constructed earlier and later used in `with`, 'previous setting' is the setting before the object was constructed (theorem withVar_restores_captured; the other reading is refuted by withVar_need_not_restore_block_entry_value)",
]
MANIFEST = {
    "level_text": "Lean theorems over all program trees (arbitrary nesting, exceptions, bare calls, kept manager objects): "
    "after `with enable/disable_experimental_features(): body` the flag equals its value before the block on normal and "
    "exceptional exit and exceptions propagate (with_restores); kept objects restore the value captured at construction "
    "(withVar_restores_captured, bind_captures); each gated feature is rejected iff the flag is false at check time "
    "(gated_iff_flag); the model's whole observation trace equals that of an object-free scoping interpreter "
    "(trace_refines_spec) and, for programs made of with-blocks only, of a state-free lexical reading (inline_lexical); a nested "
    "function trips the closure gate iff it reads, before assigning it and not as a parameter, a local of the enclosing function "
    "(closure_gated_iff_captures) whatever the types of the locals (closure_gate_ignores_types); every gate call site regenerated "
    "from the checker sources is the first possibly-raising statement of its block, so ill-formed instances still get the gate "
    "error (real_sites_gate_first, gate_precedes_other_errors). "
    "Model tied to /repo on every run by executing generated trees with the real context managers and real .check() "
    "calls on 11 feature-using programs, plus generated nested-function shapes checked with the features off/on (quick 200, thorough 4000) (quick 600 random trees; thorough all trees <=5 nodes x 2 flags + 30000 random).",
    "level_note": "Trusted: Lean kernel + propext/Classical.choice/Quot.sound; the hand-written model (correspondence is "
    "sampling, exhaustive for small trees in the thorough tier); one fixed program per gate call site stands for 'programs "
    "using the feature'; CPython's with-statement semantics.",
    "technique": "Lean 4 proof (structural induction, refinement to a scoping interpreter) + differential correspondence with experimental.py and the checker",
    "design_ref": "DESIGN.md §5 C33",
    "ready": True,
}
UNMODELLED = [
    "which Guppy programs reach the list / tensor / modifier gates (fixed programs per call site); for closures the trigger (captured = live ∩ locals − params) is modelled for straight-line nested bodies, not for branching bodies or deeper nesting",
    "threads / contextvars: the flag is a plain module global, concurrent use is out of scope",
    "re-calling __init__ on an existing manager object",
]

FEATURES = ["lists", "tensors", "closures", "modifiers"]
# (feature, variant name, source)  -- one per call site of a check_*_enabled function
VARIANTS = [
    ("lists", "list_type", "@guppy\ndef main(xs: list[int]) -> None:\n    pass\n"),
    ("lists", "list_literal_synth", "@guppy\ndef main() -> None:\n    xs = [1, 2]\n"),
    ("lists", "list_literal_check",
     "@guppy.declare\ndef g(xs: list[int]) -> None: ...\n@guppy\ndef main() -> None:\n    g([1, 2])\n"),
    ("lists", "list_comprehension", "@guppy\ndef main() -> None:\n    xs = [x for x in range(3)]\n"),
    ("tensors", "tensor_call",
     "@guppy\ndef f(x: int) -> int:\n    return x\n@guppy\ndef main() -> tuple[int, int]:\n    t = (f, f)\n    return t(1, 2)\n"),
    ("tensors", "tensor_call_synth",
     "@guppy\ndef f(x: int) -> int:\n    return x\n@guppy\ndef main() -> None:\n    t = (f, f)\n    y = t(1, 2)\n"),
    ("closures", "capturing_closure",
     "@guppy\ndef main(x: int) -> int:\n    def g() -> int:\n        return x\n    return g()\n"),
    ("modifiers", "modifier_block",
     "from guppylang.std.quantum import qubit, h\n@guppy\ndef main(q: qubit) -> None:\n    with dagger:\n        h(q)\n"),
    ("closures", "closure_callable_param",
     "from collections.abc import Callable\n@guppy\ndef main(f: Callable[[int], int]) -> int:\n    def g(b: int) -> int:\n        return f(b) + 1\n    return g(1)\n"),
    ("closures", "closure_function_valued_local",
     "@guppy\ndef double(a: int) -> int:\n    return 2 * a\n@guppy\ndef main(n: int) -> int:\n    h = double\n    def g(b: int) -> int:\n        return h(b) + 1\n    return g(n)\n"),
    ("closures", "closure_sibling_local_function",
     "@guppy\ndef main(n: int) -> int:\n    def helper(b: int) -> int:\n        return b + 1\n    def g(b: int) -> int:\n        return helper(helper(b))\n    return g(n)\n"),
]
BY_FEATURE = {f: [i for i, v in enumerate(VARIANTS) if v[0] == f] for f in FEATURES}
THINGS = {"lists": "Lists", "tensors": "Function tensors", "closures": "Capturing closures", "modifiers": "Modifiers"}
EXPECTED_CLASS = {"lists": "exp", "tensors": "exp", "closures": "uns", "modifiers": "exp"}

_mods = None


def _programs():
    global _mods
    if _mods is None:
        import feed
        _mods = [feed.load(src, name=f"_verif_c33_{name}") for _f, name, src in VARIANTS]
    return _mods


# ----------------------------------------------------------------- program trees
# ("skip",) ("raise",) ("seq",p,q) ("call",k) ("with",k,p) ("bind",x,k) ("withvar",x,p)
# ("check",feature,variant_index) ("try",p)      k in {"e","d"}


def _sexp(p) -> str:
    t = p[0]
    if t in ("skip", "raise"):
        return t
    if t == "seq":
        return f"(seq {_sexp(p[1])} {_sexp(p[2])})"
    if t == "call":
        return f"(call {p[1]})"
    if t == "with":
        return f"(with {p[1]} {_sexp(p[2])})"
    if t == "bind":
        return f"(bind {p[1]} {p[2]})"
    if t == "withvar":
        return f"(withvar {p[1]} {_sexp(p[2])})"
    if t == "check":
        return f"(check {p[1]})"
    if t == "try":
        return f"(try {_sexp(p[1])})"
    raise AssertionError(p)


CM = {"e": "enable_experimental_features", "d": "disable_experimental_features"}


def _emit(p, ind, out):
    """print the tree as Python source using the real `with` statement"""
    pad = "    " * ind
    t = p[0]
    if t == "skip":
        out.append(pad + "pass")
    elif t == "raise":
        out.append(pad + "log()")
        out.append(pad + "raise Boom()")
    elif t == "seq":
        _emit(p[1], ind, out)
        _emit(p[2], ind, out)
    elif t == "call":
        out.append(pad + CM[p[1]] + "()")
        out.append(pad + "log()")
    elif t == "with":
        out.append(pad + "try:")
        out.append(pad + f"    with {CM[p[1]]}():")
        _emit(p[2], ind + 2, out)
        out.append(pad + "finally:")
        out.append(pad + "    log()")
    elif t == "bind":
        out.append(pad + f"x{p[1]} = {CM[p[2]]}()")
        out.append(pad + "log()")
    elif t == "withvar":
        out.append(pad + "try:")
        out.append(pad + f"    with x{p[1]}:")
        _emit(p[2], ind + 2, out)
        out.append(pad + "finally:")
        out.append(pad + "    log()")
    elif t == "check":
        out.append(pad + f"check({p[1]!r}, {p[2]})")
        out.append(pad + "log()")
    elif t == "try":
        out.append(pad + "try:")
        _emit(p[1], ind + 1, out)
        out.append(pad + "except Exception:")
        out.append(pad + "    pass")
        out.append(pad + "log()")
    else:
        raise AssertionError(p)


class Boom(Exception):
    pass


def _real(init: bool, p) -> str:
    """run the tree against the real classes / real checker; canonical trace string"""
    import feed
    import guppylang_internals.experimental as ex
    from guppylang.experimental import disable_experimental_features, enable_experimental_features

    mods = _programs()
    tr: list[str] = []

    def log():
        v = ex.EXPERIMENTAL_FEATURES_ENABLED
        tr.append("F1" if v is True else "F0" if v is False else f"F?{v!r}")

    def check(feature, variant):
        kind, e = feed.check_outcome(mods[variant].main)
        if kind == "ok":
            tr.append(f"A:{feature}")
        elif kind == "user":
            d = getattr(e, "error", None)
            cls = type(d).__name__
            c = {"ExperimentalFeatureError": "exp", "UnsupportedError": "uns"}.get(cls, "?" + cls)
            if getattr(d, "things", None) != THINGS[feature]:
                c += "!" + str(getattr(d, "things", None)).replace(" ", "_")
            tr.append(f"R:{feature}:{c}")
        else:
            tr.append(f"X:{feature}:{type(e).__name__}")

    lines = ["def prog():"]
    _emit(p, 1, lines)
    lines.append("    pass")
    src = "\n".join(lines) + "\n"
    ns = {"log": log, "check": check, "Boom": Boom,
          "enable_experimental_features": enable_experimental_features,
          "disable_experimental_features": disable_experimental_features}
    saved = ex.EXPERIMENTAL_FEATURES_ENABLED
    ex.EXPERIMENTAL_FEATURES_ENABLED = init
    raised = 0
    try:
        exec(compile(src, "<c33-prog>", "exec"), ns)
        try:
            ns["prog"]()
        except (Boom, NameError):
            raised = 1
        except BaseException as e:  # noqa: BLE001
            tr.append("EXC:" + type(e).__name__)
            raised = 1
        v = ex.EXPERIMENTAL_FEATURES_ENABLED
        return " ".join(tr) + f" | f={1 if v is True else 0 if v is False else v!r} r={raised}"
    finally:
        ex.EXPERIMENTAL_FEATURES_ENABLED = saved


class _Raised(Exception):
    pass


def _oracle(init: bool, p) -> str:
    """the property's literal reading on plain booleans: a `with` block on a fresh manager leaves the
    flag as it was before the block; a kept manager restores the setting that held before it was made;
    a bare call sets the flag; a check is rejected iff the flag is off; exceptions propagate."""
    st = {"flag": init, "saved": {}}
    tr: list[str] = []

    def log():
        tr.append("F1" if st["flag"] else "F0")

    def go(p):
        t = p[0]
        if t == "skip":
            return
        if t == "raise":
            log()
            raise _Raised
        if t == "seq":
            go(p[1])
            go(p[2])
        elif t == "call":
            st["flag"] = p[1] == "e"
            log()
        elif t == "with":
            before = st["flag"]
            st["flag"] = p[1] == "e"
            try:
                go(p[2])
            finally:
                st["flag"] = before
                log()
        elif t == "bind":
            st["saved"][p[1]] = st["flag"]
            st["flag"] = p[2] == "e"
            log()
        elif t == "withvar":
            if p[1] not in st["saved"]:
                log()
                raise _Raised
            captured = st["saved"][p[1]]  # the `with` statement holds the object, not the name
            try:
                go(p[2])
            finally:
                st["flag"] = captured
                log()
        elif t == "check":
            tr.append(f"A:{p[1]}" if st["flag"] else f"R:{p[1]}:{EXPECTED_CLASS[p[1]]}")
            log()
        elif t == "try":
            try:
                go(p[1])
            except _Raised:
                pass
            log()
        else:
            raise AssertionError(p)

    raised = 0
    try:
        go(p)
    except _Raised:
        raised = 1
    return " ".join(tr) + f" | f={1 if st['flag'] else 0} r={raised}"


def _nontrivial(p) -> bool:
    def depth(p):
        t = p[0]
        if t == "seq":
            return max(depth(p[1]), depth(p[2]))
        if t in ("with", "withvar"):
            return 1 + depth(p[-1])
        if t == "try":
            return depth(p[1])
        return 0

    def raise_in_with(p, inside):
        t = p[0]
        if t == "raise":
            return inside
        if t == "seq":
            return raise_in_with(p[1], inside) or raise_in_with(p[2], inside)
        if t in ("with", "withvar"):
            return raise_in_with(p[-1], True)
        if t == "try":
            return raise_in_with(p[1], inside)
        return False

    return depth(p) >= 2 or raise_in_with(p, False)


# ----------------------------------------------------------------- generators
def _rand_tree(rng, depth):
    def block(d):
        n = rng.choice([1, 1, 2, 2, 3, 4])
        items = [stmt(d) for _ in range(n)]
        p = items[-1]
        for q in reversed(items[:-1]):
            p = ("seq", q, p)
        return p

    def stmt(d):
        leafs = ["check"] * 5 + ["call"] * 2 + ["bind", "raise", "skip"]
        inner = ["with"] * 5 + ["withvar"] * 2 + ["try"] * 2
        t = rng.choice(leafs if d <= 0 else leafs + inner + inner)
        if t == "check":
            f = rng.choice(FEATURES)
            return ("check", f, rng.choice(BY_FEATURE[f]))
        if t == "call":
            return ("call", rng.choice("ed"))
        if t == "bind":
            return ("bind", rng.randrange(2), rng.choice("ed"))
        if t == "raise":
            return ("raise",)
        if t == "skip":
            return ("skip",)
        if t == "with":
            return ("with", rng.choice("ed"), block(d - 1))
        if t == "withvar":
            return ("withvar", rng.randrange(2), block(d - 1))
        return ("try", block(d - 1))

    return block(depth)


def _all_trees(n, memo={}):
    """every tree with exactly n nodes (variable 0 only; first variant of each feature)"""
    if n in memo:
        return memo[n]
    if n <= 0:
        return []
    if n == 1:
        out = [("call", "e"), ("call", "d"), ("bind", 0, "e"), ("bind", 0, "d"), ("raise",)]
        out += [("check", f, BY_FEATURE[f][0]) for f in FEATURES]
    else:
        out = []
        for b in _all_trees(n - 1):
            out += [("with", "e", b), ("with", "d", b), ("withvar", 0, b), ("try", b)]
        for i in range(1, n - 1):
            for a in _all_trees(i):
                for b in _all_trees(n - 1 - i):
                    out.append(("seq", a, b))
    memo[n] = out
    return out


def _tup(x):
    return tuple(_tup(i) for i in x) if isinstance(x, (list, tuple)) else x


def _cases(ctx):
    cases = []
    corpus = os.path.join(vlib.VERIF, "corpus", "c33")
    if os.path.isdir(corpus):
        for fn in sorted(os.listdir(corpus)):
            if fn.startswith("closure"):
                continue  # closure-shape cases, read by _closure_cases
            for init, p in json.load(open(os.path.join(corpus, fn))):
                cases.append((bool(init), _tup(p)))
    if ctx.replay_in and "case" in ctx.replay_in.get("replay", {}):
        init, p = ctx.replay_in["replay"]["case"]
        cases.append((bool(init), _tup(p)))
    # every variant under both settings, bare and inside each kind of block
    for i, (f, _n, _s) in enumerate(VARIANTS):
        for init in (False, True):
            cases.append((init, ("check", f, i)))
            for k in "ed":
                cases.append((init, ("with", k, ("check", f, i))))
    if not ctx.quick:
        n_ex = 0
        for n in range(1, 6):
            for p in _all_trees(n):
                for init in (False, True):
                    cases.append((init, p))
                    n_ex += 1
        ctx.extra["exhaustive"] = True
        ctx.extra["exhaustive_note"] = f"all {n_ex} (initial flag, tree) pairs with <=5 nodes (one kept-object variable, one program per feature)"
    for _ in range(ctx.n(600, 30000)):
        cases.append((ctx.rng.random() < 0.5, _rand_tree(ctx.rng, ctx.rng.choice([1, 2, 3, 3, 4]))))
    return cases


def _eval(ctx, cases, use_model=True):
    lines = [f"{1 if init else 0} {_sexp(p)}" for init, p in cases]
    model = ctx.driver(DRIVER, lines) if use_model else [None] * len(lines)
    for (init, p), line, m in zip(cases, lines, model):
        real = _real(init, p)
        orc = _oracle(init, p)
        kinds = "+".join(sorted({t for t in _sexp(p).replace("(", " ").replace(")", " ").split()
                                 if t in ("with", "withvar", "try", "raise", "call", "bind")})) or "check-only"
        ctx.count(line, nontrivial=_nontrivial(p), kind=kinds)
        if real != orc:
            ctx.violation(
                "input:" + line + "#" + ",".join(str(v) for v in _variants(p)),
                f"gate behaviour differs from the statement on `{line}`: real=[{real}] expected=[{orc}]",
                {"case": [init, p], "line": line, "variants": [VARIANTS[v][1] for v in _variants(p)],
                 "real": real, "oracle": orc, "model": m},
            )
        if use_model and real != m:
            ctx.broke(f"correspondence Model/FeatureGate.lean vs experimental.py + checker on `{line}` (real=[{real}] model=[{m}])")


def _variants(p):
    t = p[0]
    if t == "check":
        return [p[2]]
    out = []
    for c in p[1:]:
        if isinstance(c, tuple):
            out += _variants(c)
    return out


# ----------------------------------------------------------------- T-src: where the gate sits in the checker (Gen/C33GateSites.lean)
GATE_FILES = ["tys/builtin.py", "cfg/builder.py", "checker/func_checker.py", "checker/expr_checker.py"]
GATE_FEATURE = {"check_lists_enabled": "lists", "check_function_tensors_enabled": "tensors",
                "check_capturing_closures_enabled": "closures", "check_modifiers_enabled": "modifiers"}


def _gate_sites():
    """every call statement `check_<feature>_enabled(..)` in the checker: enclosing function and the number of statements
    in front of it in the same block that are not plain assignments (so could raise a different user error first)"""
    import ast

    import bootstrap

    sites = []
    base = os.path.join(bootstrap.REPO, "guppylang-internals", "src", "guppylang_internals")
    for rel in GATE_FILES:
        tree = ast.parse(open(os.path.join(base, rel)).read())

        def walk(node, qual):
            for field in ("body", "orelse", "finalbody"):
                block = getattr(node, field, None)
                if not isinstance(block, list):
                    continue
                for i, st in enumerate(block):
                    if (isinstance(st, ast.Expr) and isinstance(st.value, ast.Call) and isinstance(st.value.func, ast.Name)
                            and st.value.func.id in GATE_FEATURE):
                        before = [b for b in block[:i] if not isinstance(b, (ast.Assign, ast.AnnAssign, ast.Pass))
                                  and not (isinstance(b, ast.Expr) and isinstance(b.value, ast.Constant))]
                        sites.append((rel, qual, GATE_FEATURE[st.value.func.id], len(before)))
                    q = qual + "." + st.name if isinstance(st, (ast.FunctionDef, ast.ClassDef)) else qual
                    walk(st, q.lstrip("."))
            for h in getattr(node, "handlers", []):
                walk(h, qual)

        walk(tree, "")
    return sorted(sites)


def translate(ctx):
    sites = _gate_sites()
    rows = ",\n   ".join(f'⟨"{f}", "{q}", .{feat}, {n}⟩' for f, q, feat, n in sites)
    src = ("import GuppyVerif.Model.GateOrder\n"
           "/-! GENERATED by harness/props/c33.py::translate from /repo's checker sources on every run: every call of a\n"
           "    `check_*_enabled` gate, its enclosing function and how many possibly-raising statements precede it in its block. -/\n"
           "namespace GuppyVerif.GateOrder.Gen\nopen GuppyVerif.GateOrder GuppyVerif.FeatureGate\n\n"
           f"def sites : List Site :=\n  [{rows}]\n\nend GuppyVerif.GateOrder.Gen\n")
    path = os.path.join(vlib.LEAN, "GuppyVerif", "Gen", "C33GateSites.lean")
    if not os.path.exists(path) or open(path).read() != src:
        with open(path, "w") as f:
            f.write(src)
    ctx.extra["gate_sites"] = [list(x) for x in sites]


# ----------------------------------------------------------------- closure shapes (which nested functions trip the gate)
# case = {"items": [["v", id] | ["f", id, how] | ["n", name, [params], [[assigned|None, [reads]], ...]]]}
GLOBAL_FN = 99


def _gen_closure(rng):
    items = [["v", 0]]
    env = {0: "value", GLOBAL_FN: "func"}
    fresh = [10]

    def new_id():
        fresh[0] += 1
        return fresh[0]

    if rng.random() < 0.6:
        items.append(["f", 1, "param"])
        env[1] = "func"
    nested_names, nested_arity = [], {}
    for _ in range(rng.choice([1, 2, 2, 3, 4])):
        t = rng.choice(["v", "f", "n", "n", "n"])
        if t == "v":
            x = new_id()
            items.append(["v", x])
            env[x] = "value"
        elif t == "f":
            x = new_id()
            items.append(["f", x, "alias"])
            env[x] = "func"
        else:
            name = rng.choice(nested_names) if nested_names and rng.random() < 0.12 else new_id()
            outer = [k for k in env if k != GLOBAL_FN]
            params = []
            want = nested_arity.get(name) or rng.choice([1, 1, 2])  # a redefinition keeps the arity (all calls stay well-typed)
            for _ in range(want):
                q = rng.choice(outer) if rng.random() < 0.2 else new_id()
                if q not in params and q != name:
                    params.append(q)
            while len(params) < want:
                params.append(new_id())
            nested_arity[name] = len(params)
            temps, body = [], []
            n_st = rng.choice([1, 1, 2, 3])
            for i in range(n_st):
                # bias: function-typed locals, value locals, own params, own name, the global, earlier temporaries
                funcs = [k for k in outer if env[k] == "func"]
                vals = [k for k in outer if env[k] == "value"]
                pool = params * 2 + temps + [GLOBAL_FN]
                r = rng.random()
                if r < 0.35 and funcs:
                    pool += funcs * 4
                elif r < 0.6:
                    pool += vals * 3
                elif r < 0.75:
                    pool += funcs + vals
                if rng.random() < 0.15:
                    pool.append(name)
                reads = [rng.choice(pool) for _ in range(rng.choice([1, 2, 3]))]
                if i == n_st - 1:
                    body.append([None, reads])
                else:
                    tgt = rng.choice(outer) if rng.random() < 0.25 else new_id()
                    if tgt == name:
                        tgt = new_id()
                    temps.append(tgt)
                    body.append([tgt, reads])
            items.append(["n", name, params, body])
            env[name] = "func"
            if name not in nested_names:
                nested_names.append(name)
    return {"items": items}


def _closure_line(flag, case):
    out = []
    for it in case["items"]:
        if it[0] == "v":
            out.append(f"(v {it[1]})")
        elif it[0] == "f":
            out.append(f"(f {it[1]})")
        else:
            st = " ".join("(" + ("-" if a is None else str(a)) + "".join(f" {r}" for r in rs) + ")" for a, rs in it[3])
            out.append(f"(n {it[1]} ({' '.join(map(str, it[2]))}) ({st}))")
    return f"cl {1 if flag else 0} (" + " ".join(out) + ")"


def _closure_source(case):
    """print the shape as a Guppy program: every value is an int, every function int -> int"""
    nm = lambda i: "double" if i == GLOBAL_FN else f"n{i}"
    params, lines = [], []
    env = {GLOBAL_FN: "func"}
    arity = {}
    call = lambda r: f"{nm(r)}({', '.join('1' for _ in range(arity.get(r, 1)))})"
    last_fn = None
    for it in case["items"]:
        if it[0] == "v" and it[1] == 0:
            params.append("n0: int")
            env[0] = "value"
        elif it[0] == "f" and it[2] == "param":
            params.append(f"{nm(it[1])}: Callable[[int], int]")
            env[it[1]] = "func"
        elif it[0] == "v":
            lines.append(f"    {nm(it[1])} = 3")
            env[it[1]] = "value"
        elif it[0] == "f":
            lines.append(f"    {nm(it[1])} = double")
            env[it[1]] = "func"
        else:
            _, name, ps, body = it
            inner = dict(env)
            inner[name] = "func"
            arity[name] = len(ps)
            for q in ps:
                inner[q] = "value"
            lines.append(f"    def {nm(name)}(" + ", ".join(f"{nm(q)}: int" for q in ps) + ") -> int:")
            for a, rs in body:
                e = " + ".join(nm(r) if inner.get(r) == "value" else call(r) for r in rs)
                if a is None:
                    lines.append(f"        return {e}")
                else:
                    lines.append(f"        {nm(a)} = {e}")
                    inner[a] = "value"
            env[name] = "func"
            last_fn = (name, len(ps))
    ret = f"    return {nm(last_fn[0])}({', '.join('1' for _ in range(last_fn[1]))})" if last_fn else "    return 0"
    return ("from collections.abc import Callable\n@guppy\ndef double(a: int) -> int:\n    return 2 * a\n"
            f"@guppy\ndef main({', '.join(params)}) -> int:\n" + "\n".join(lines + [ret]) + "\n")


def _closure_real(case):
    import feed
    import guppylang_internals.experimental as ex

    m = feed.load(_closure_source(case))
    saved = ex.EXPERIMENTAL_FEATURES_ENABLED
    out = []
    try:
        for flag in (False, True):
            ex.EXPERIMENTAL_FEATURES_ENABLED = flag
            kind, e = feed.check_outcome(m.main)
            if kind == "ok":
                out.append("accept")
            elif kind == "user":
                d = getattr(e, "error", None)
                cls = type(d).__name__
                if cls == "UnsupportedError" and getattr(d, "things", None) == "Capturing closures":
                    out.append("reject")
                elif cls == "IllegalAssignError":
                    out.append("illegal")
                else:
                    out.append("other:" + cls)
            else:
                out.append("crash:" + type(e).__name__)
        return out
    finally:
        ex.EXPERIMENTAL_FEATURES_ENABLED = saved
        feed.unload(m)


def _closure_oracle(case, flag):
    """literal reading: a nested function is a capturing closure iff it reads — before assigning it itself and
    not as one of its own parameters — a name that is a local of the enclosing function at that point, whatever
    that local's type; capturing closures are rejected iff the features are off."""
    outer = set()
    for it in case["items"]:
        if it[0] in ("v", "f"):
            outer.add(it[1])
            continue
        _, name, ps, body = it
        assigned_so_far, caught = set(), set()
        for a, rs in body:
            for r in rs:
                if r in outer and r not in ps and r not in assigned_so_far:
                    caught.add(r)
            if a is not None:
                assigned_so_far.add(a)
        if caught:
            if not flag:
                return "reject"
            if any(a in caught for a, _ in body):
                return "illegal"
        outer.add(name)
    return "accept"


def _closure_tie(ctx, cases, use_model=True):
    lines = []
    for c in cases:
        lines += [_closure_line(False, c), _closure_line(True, c)]
    model = ctx.driver(DRIVER, lines) if use_model else [None] * len(lines)
    for i, c in enumerate(cases):
        real = _closure_real(c)
        for j, flag in enumerate((False, True)):
            line, m, orc = lines[2 * i + j], model[2 * i + j], _closure_oracle(c, flag)
            kinds = {(it[2] if it[0] == "f" else it[0]) for it in c["items"]}
            ctx.count(line, nontrivial=orc != "accept" or any(it[0] == "n" and len(it[3]) > 1 for it in c["items"]),
                      kind="closure-shape:" + orc)
            if real[j] != orc:
                ctx.violation(
                    "closure:" + line,
                    f"capturing-closure gate differs from the statement on `{line}`: real={real[j]} expected={orc}\n{_closure_source(c)}",
                    {"closure_case": c, "line": line, "flag": flag, "real": real[j], "oracle": orc, "model": m,
                     "source": _closure_source(c)},
                )
            if use_model and real[j] != m:
                ctx.broke(f"correspondence Model/ClosureGate.lean vs check_nested_func_def on `{line}` (real={real[j]} model={m})")


def _closure_cases(ctx, n):
    cases = []
    d2 = os.path.join(vlib.VERIF, "corpus", "c33", "closures.json")
    if os.path.exists(d2):
        cases += json.load(open(d2))
    if ctx.replay_in and "closure_case" in ctx.replay_in.get("replay", {}):
        cases.append(ctx.replay_in["replay"]["closure_case"])
    cases += [_gen_closure(ctx.rng) for _ in range(n)]
    return cases


# ----------------------------------------------------------------- degenerate / ill-formed instances of every gated construct
# The gate must come before every other check of the construct: with the features off these are all reported as experimental
# features (never as the type error they also contain); with the features on they are accepted or get that other error.
# (feature, name, extra defs, statement lines placed in a context)  /  (feature, name, whole program) when stmt is None
DEGENERATE = [
    ("lists", "empty_literal_statement", "", ["[]"]),
    ("lists", "empty_literal_assigned", "", ["xs = []"]),
    ("lists", "nested_empty_literal", "", ["xs = [[]]"]),
    ("lists", "empty_literal_annotated", "", ["xs: list[int] = []"]),
    ("lists", "comprehension_over_empty_literal", "", ["xs = [x for x in []]"]),
    ("lists", "comprehension_over_empty_range", "", ["xs = [x for x in range(0)]"]),
    ("lists", "comprehension_undefined_element", "", ["xs = [undefined_thing for x in range(3)]"]),
    ("lists", "heterogeneous_literal", "", ["xs = [1, True]"]),
    ("lists", "literal_of_empty_tuple", "", ["xs = [()]"]),
    ("tensors", "tensor_called_without_arguments", "", ["t = (f1, f1)", "t()"]),
    ("tensors", "tensor_called_with_wrong_types", "", ["t = (f1, f1)", "y = t(1.5, True)"]),
    ("tensors", "tensor_of_one_function", "", ["t = (f1,)", "y = t(1)"]),
    ("tensors", "tensor_too_many_arguments", "", ["t = (f1, f1)", "y = t(1, 2, 3)"]),
    ("modifiers", "modifier_block_pass", "", ["with dagger:", "    pass"]),
    ("modifiers", "modifier_block_as", "", ["with dagger as d:", "    pass"]),
    ("modifiers", "with_non_modifier", "", ["with f1(1):", "    pass"]),
    ("modifiers", "with_unknown_name", "", ["with nonsense:", "    pass"]),
    ("modifiers", "power_zero", "", ["with power(0):", "    pass"]),
    ("modifiers", "control_without_arguments", "", ["with control():", "    pass"]),
    ("closures", "closure_assigning_captured", "", ["def g() -> int:", "    t = a", "    a = 2", "    return t"]),
    ("closures", "closure_never_called", "", ["def g() -> int:", "    return a"]),
    ("closures", "closure_wrong_return_type", "", ["def g() -> bool:", "    return a"]),
    ("lists", "list_type_two_arguments", None, "@guppy\ndef main(a: int, b: bool, xs: list[int, int]) -> None:\n    pass\n"),
    ("lists", "list_type_no_argument", None, "@guppy\ndef main(a: int, b: bool, xs: list) -> None:\n    pass\n"),
    ("lists", "empty_literal_returned", None, "@guppy\ndef main(a: int, b: bool) -> list[int]:\n    return []\n"),
    ("lists", "list_of_lists_type", None, "@guppy\ndef main(a: int, b: bool, xs: list[list[int]]) -> None:\n    pass\n"),
]
CONTEXTS = ["plain", "if", "else", "while", "after", "nested_if"]
DEG_PRELUDE_EXTRA = ("from guppylang.std.quantum import qubit, h\n@guppy\ndef f1(x: int) -> int:\n    return x\n")


def _deg_source(item, context):
    feature, name, extra, stmts = item
    if extra is None:
        return stmts
    ind = {"plain": 1, "if": 2, "else": 2, "while": 2, "after": 1, "nested_if": 3}[context]
    head = {"plain": [], "if": ["    if b:"], "else": ["    if b:", "        pass", "    else:"], "while": ["    while b:"],
            "after": ["    u = a + 1", "    v = u * 2"], "nested_if": ["    if b:", "        if a > 0:"]}[context]
    body = ["    " * ind + ln for ln in stmts]
    return "@guppy\ndef main(a: int, b: bool) -> None:\n" + "\n".join(head + body) + "\n"


def _deg_tie(ctx, n_random):
    import feed
    import guppylang_internals.experimental as ex

    cases = [(it, "plain") for it in DEGENERATE]
    cases += [(ctx.rng.choice([it for it in DEGENERATE if it[2] is not None]), ctx.rng.choice(CONTEXTS)) for _ in range(n_random)]
    if ctx.replay_in and "degenerate" in ctx.replay_in.get("replay", {}):
        rn, rc = ctx.replay_in["replay"]["degenerate"]
        cases = [(it, rc) for it in DEGENERATE if it[1] == rn] + cases
    seen = set()
    saved = ex.EXPERIMENTAL_FEATURES_ENABLED
    try:
        for it, context in cases:
            feature, name = it[0], it[1]
            key = f"{name}@{context if it[2] is not None else 'whole'}"
            if key in seen:
                continue
            seen.add(key)
            src = _deg_source(it, context)
            m = feed.load(src, prelude=feed.PRELUDE + DEG_PRELUDE_EXTRA)
            try:
                for flag in (False, True):
                    ex.EXPERIMENTAL_FEATURES_ENABLED = flag
                    kind, e = feed.check_outcome(m.main)
                    d = getattr(e, "error", None)
                    cls = type(d).__name__ if d is not None else (type(e).__name__ if e is not None else None)
                    is_gate = (kind == "user" and getattr(d, "things", None) == THINGS[feature]
                               and cls == {"exp": "ExperimentalFeatureError", "uns": "UnsupportedError"}[EXPECTED_CLASS[feature]])
                    real = "gate" if is_gate else ("crash:" + cls if kind == "crash" else "no-gate:" + (cls or "accepted"))
                    want_gate = not flag
                    ctx.count(f"deg {key} flag={int(flag)}", nontrivial=True, kind=f"degenerate:{feature}")
                    if (real == "gate") != want_gate or real.startswith("crash"):
                        ctx.violation(
                            f"degenerate:{key}:{int(flag)}",
                            f"{name} ({feature}, context {context}) with experimental features {'on' if flag else 'off'}: got {real}, "
                            f"expected {'the experimental-feature error before any other check' if want_gate else 'no gate error'}\n{src}",
                            {"degenerate": [name, context], "flag": flag, "real": real, "source": src},
                        )
            finally:
                feed.unload(m)
    finally:
        ex.EXPERIMENTAL_FEATURES_ENABLED = saved


def tie(ctx):
    _eval(ctx, _cases(ctx))
    _closure_tie(ctx, _closure_cases(ctx, ctx.n(200, 4000)))
    _deg_tie(ctx, ctx.n(60, 600))


def search(ctx, why):
    """something broke without a concrete failing input: more random trees against the oracle only"""
    cases = [(ctx.rng.random() < 0.5, _rand_tree(ctx.rng, ctx.rng.choice([2, 3, 4]))) for _ in range(ctx.n(2000, 20000))]
    _eval(ctx, cases, use_model=False)
    _closure_tie(ctx, [_gen_closure(ctx.rng) for _ in range(ctx.n(500, 5000))], use_model=False)
    _deg_tie(ctx, 600)


if __name__ == "__main__":
    vlib.main(sys.modules[__name__])
