"""C12 — Type inference finds an instantiation exactly when one exists (unification)."""
from __future__ import annotations

import json
import os
import sys

sys.path.insert(0, os.path.dirname(os.path.dirname(os.path.abspath(__file__))))
import vlib

PID = "C12"
THEOREM_MODULES = ["GuppyVerif.Props.C12"]
DRIVER = "C12"
RULE = (
    "unify cases (s, t, sigma0) built on the real guppylang classes (ExistentialTypeVar/ConstVar, BoundTypeVar/ConstVar, "
    "NumericType, NoneType, TupleType, FunctionType with flags/params/comptime args, OpaqueType bool/list/array/Option/"
    "linear Q/affine A/relevant R, StructType generic and linear, ConstValue): two partial generalisations of a common term "
    "(near-unifiable), mutated near-misses (leaf, flag, arity, arg kind, occurs), variable cycles through the prior, "
    "ownership-flag cases on linear inputs, independent random pairs; sigma0 = random acyclic prior or the result of a "
    "previous real unify. Plus single-pass / exhaustive substitution and linearity requests, and check_type_against "
    "requests (generic function type over bound variables against an expected function type with inference variables, derived "
    "from a common instance), and generated generic-call programs through the real check() (declared generic functions called with variables, tuple literals, "
    "literals, function names, nested calls; synthesis and checking position), plus corpus programs. Non-trivial = a unify case where both sides "
    "contain variables or sigma0 is non-empty, or a check_type_against case whose expected type has variables; distinct by "
    "canonical request line"
)
ASSUMPTIONS = [
    "inputs are well-sorted as Python's static types demand (TypeArg holds a type, ConstArg a const, a substitution maps "
    "type variables to types and const variables to consts, s and t are both types or both consts); the model is unconstrained "
    "where the Python `assert isinstance(s, TypeBase) == isinstance(t, TypeBase)` would fire",
    "existential variable ids are globally unique (ExistentialVar._fresh_id) so that the id determines display name, sort and "
    "copy/drop flags; likewise a bound-variable index determines its attributes within one binder context; the model identifies "
    "variables by id / index only, as `unify` does",
    "the Lean model Model/Unify.lean is hand-written; agreement with ty.py/subst.py/expr_checker.check_type_against is established "
    "by the same-input correspondence run here (exact equality of the returned dict, in insertion order, with unsubstituted images)",
    "struct types are instantiated according to their definition's parameters (as check_instantiate enforces): `.linear` of an "
    "ill-kinded StructType raises inside Instantiator; opaque types are generated with wrong arity / argument kinds as near-misses",
    "rank-1 discipline: variables are not solved to generic function types inside opaque/struct arguments (the constructors raise)",
    "`linear` of struct types: copyable(struct) = c_defn and all type arguments copyable, where c_defn is the struct's "
    "intrinsic copyability under all-copyable arguments (monotonicity of field copyability); checked against `.linear` in the tie",
    "check_type_against is called with a dummy AST node and ctx=None (neither is used on the parametrised path); "
    "ExistentialVar._fresh_id is reset before each call so that the fresh variables are known",
]
UNMODELLED = [
    "call path (Model/GenCall.lean) covers first-order arguments only: no numeric coercions (try_coerce_to; such cases are classified "
    "unknown and not sent to the model), no @comptime/inout inputs, no generic function values as arguments, no list literals; "
    "nested calls enter the model as already-typed arguments; Instantiator on nested generic function types",
    "FunctionType.unitary_flags (ignored by unify, dropped by FunctionType.transform; generator always uses NoFlags)",
    "Substituter on function types carrying explicit comptime_args: FunctionType.transform rebuilds the type without them "
    "(0.21.6; upstream 1.0.4 keeps them) — the substitution requests use default comptime args only; unify requests cover explicit ones",
    "display names, TupleType/NoneType.preserve (excluded from dataclass equality)",
    "ownership-flag rule when linearity of a function input changes under the unifier: the code evaluates the rule on the types "
    "as written; such cases are classified flag-ambiguous and only the model correspondence is checked (two witnesses are "
    "KNOWN-FINDINGs, proved in Lean as unify_complete_linear_flags_false / unify_sound_linear_flags_false)",
]
MANIFEST = {
    "level_text": "Lean theorems about an executable model of unify/_unify_var/_occurs/_unify_args/Substituter/linear/"
    "resolve_subst/check_type_against, for all terms and all acyclic prior substitutions (no size bound): soundness w.r.t. "
    "solution semantics (the result extends the prior, stays acyclic, every solution of it solves the prior and equates both "
    "sides up to ownership flags; |sigma| Substituter passes reach a fixpoint that equates both sides), termination (for every "
    "acyclic prior some fuel reaches an outcome and all larger fuels agree), success implies a unifier exists; completeness, "
    "most-generality and the iff for well-sorted inputs in three `_partial` forms: when nothing is linear, for exact unifiers "
    "(any environment), and for the property's literal flag reading restricted to assignments that keep linearity — with "
    "machine-checked counterexamples showing the restriction is necessary; soundness of check_type_against for generic "
    "function values; soundness of synthesize_call / check_call on first-order arguments incl. tuple literals, and the "
    "iff (accepted exactly when an instantiation respecting the bounds fits, returned instantiation is that one) for arguments with "
    "synthesised types (partial). Model tied to ty.py/subst.py/expr_checker.py on every run by same-input correspondence on the real "
    "guppylang classes (quick 5000 unify + 1500 check_type_against + 720 generic-call programs through check(), thorough 400000 + 40000 + 48000; "
    "exact equality of returned dicts) with an independent Robinson unifier as property oracle (unifiable or not, result unifies, result most general, "
    "principal instantiation).",
    "level_note": "Trusted: Lean kernel + propext/Classical.choice/Quot.sound; my statement of solutions/acyclicity/"
    "well-sortedness/LinEq; the encoder from guppylang objects to model terms; the correspondence is sampling. Three defects fixed "
    "in /repo (cyclic result from an occurs check that ignored the substitution; constants of different type unified; "
    "check_type_against leaking unresolved triangular solutions, crashing apply(ident, 5)); theorems are about the repaired code. "
    "Two known findings: the ownership-flag rule is evaluated on types as written (not complete / not sound for the literal "
    "reading when instantiation changes linearity).",
    "technique": "Lean 4 proof over a hand-written model + differential correspondence with ty.py/subst.py/expr_checker.py + independent unifier oracle",
    "design_ref": "DESIGN.md §5 C12",
    "ready": True,
}

# ----------------------------------------------------------------------------------------------
# universe on the real classes
# ----------------------------------------------------------------------------------------------
_U = None

# (copyable, droppable) of existential type variable ids / bound indices (function of the id)
VATTR = [(True, True), (True, True), (False, False), (True, True), (False, True), (False, False), (True, True), (False, False)]
BATTR = [(True, True), (False, False), (True, True), (False, True)]
# representatives of the classes of constant values under ConstValue's equality (type + value key: floats by repr, so
# 1.0 != 1, -0.0 != 0.0, nan == nan; everything else by Python ==, so True == 1).  Indices 0..5 are used as array sizes.
VALS = [0, 1, 2, 5, -1, 2.5, 300, 10**20, 0.0, -0.0, float("nan"), 1.0, 257]


def vkey(v):
    return ("float", repr(v)) if isinstance(v, float) else v


def fresh_value(v):
    """an equal but not identical Python object (big ints and floats are not interned)"""
    if isinstance(v, bool):
        return v
    if isinstance(v, float):
        return float(repr(v))
    return int(str(v))


class Universe:
    def __init__(self):
        from guppylang_internals.definition.common import DefId
        from guppylang_internals.definition.struct import CheckedStructDef, StructField
        from guppylang_internals.definition.ty import OpaqueTypeDef
        from guppylang_internals.tys import builtin as B
        from guppylang_internals.tys.arg import ConstArg, TypeArg
        from guppylang_internals.tys.const import BoundConstVar, ConstValue
        from guppylang_internals.tys.param import ConstParam, TypeParam
        from guppylang_internals.tys.ty import BoundTypeVar, NoneType, NumericType, OpaqueType, StructType
        import ast

        nat = NumericType(NumericType.Kind.Nat)
        self.nat = nat

        def odef(name, nc, nd):
            return OpaqueTypeDef(id=DefId.fresh(), name=name, defined_at=None, params=[], never_copyable=nc,
                                 never_droppable=nd, to_hugr=lambda args, ctx: None)

        # opaque defs: (def, param kinds)
        self.odefs = [
            (B.bool_type_def, ""), (B.list_type_def, "t"), (B.array_type_def, "tc"), (B.option_type_def, "t"),
            (odef("Q", True, True), ""), (odef("A", True, False), ""), (odef("R", False, True), ""),
        ]
        T0 = TypeParam(0, "T", False, False)
        N1 = ConstParam(1, "n", nat)
        bT = BoundTypeVar("T", 0, False, False)
        bn = BoundConstVar(nat, "n", 1)
        cls = ast.parse("class S: pass").body[0]
        Q = OpaqueType([], self.odefs[4][0])

        def sdef(name, params, fields):
            return CheckedStructDef(DefId.fresh(), name, cls, params, [StructField(n, t) for n, t in fields])

        self.sdefs = [
            (sdef("S0", [T0], [("x", bT)]), "t"),
            (sdef("S1", [], [("q", Q)]), ""),
            (sdef("S2", [T0, N1], [("a", B.array_type(bT, bn)), ("k", nat)]), "tc"),
            (sdef("S3", [], [("x", nat)]), ""),
        ]
        self.SBASE = 100
        # params pool
        self.params = [
            [],
            [TypeParam(0, "T", False, False)],
            [TypeParam(0, "T", True, True)],
            [ConstParam(0, "n", nat)],
            [TypeParam(0, "T", False, False), ConstParam(1, "n", nat, from_comptime_arg=True)],
            [TypeParam(0, "T", False, False), TypeParam(1, "U", False, False)],
            [TypeParam(0, "T", False, False), ConstParam(1, "n", nat)],
        ]
        self.generic_pools = {1: "t", 3: "c", 5: "tt", 6: "tc"}   # params code -> parameter kinds
        self.ctys = [nat, NumericType(NumericType.Kind.Int), NumericType(NumericType.Kind.Float), B.bool_type()]
        # definition-level copy/drop bits (all-copyable arguments)
        self.dNoCopy, self.dNoDrop = [], []
        for i, (d, _k) in enumerate(self.odefs):
            if d.never_copyable:
                self.dNoCopy.append(i)
            if d.never_droppable:
                self.dNoDrop.append(i)
        for i, (d, kinds) in enumerate(self.sdefs):
            args = [TypeArg(NoneType()) if k == "t" else ConstArg(ConstValue(nat, 0)) for k in kinds]
            st = StructType(args, d)
            if not st.copyable:
                self.dNoCopy.append(self.SBASE + i)
            if not st.droppable:
                self.dNoDrop.append(self.SBASE + i)

    def default_comptime(self, p):
        from guppylang_internals.tys.param import ConstParam
        return [q.to_bound() for q in self.params[p] if isinstance(q, ConstParam) and q.from_comptime_arg]


def U() -> Universe:
    global _U
    if _U is None:
        _U = Universe()
    return _U


# ---------------------------------------------------------------------------- abstract -> real
def build(a, pres=False):
    """pres=True sets every field that is excluded from type equality to a non-default value: TupleType/NoneType.preserve,
    FuncInput.name"""
    from guppylang_internals.tys.arg import ConstArg, TypeArg
    from guppylang_internals.tys.const import BoundConstVar, ConstValue, ExistentialConstVar
    from guppylang_internals.tys.ty import (BoundTypeVar, ExistentialTypeVar, FuncInput, FunctionType, InputFlags,
                                            NoneType, NumericType, OpaqueType, StructType, TupleType)
    u = U()
    k = a[0]
    if k == "v":
        i, c = a[1] // 2, a[1] % 2
        if c:
            return ExistentialConstVar(u.nat, f"c{i}", i)
        cp, dr = VATTR[i % len(VATTR)]
        return ExistentialTypeVar(f"T{i}", i, cp, dr)
    if k == "bv":
        cp, dr = BATTR[a[1] % len(BATTR)]
        return BoundTypeVar(f"B{a[1]}", a[1], cp, dr)
    if k == "cbv":
        return BoundConstVar(u.nat, f"n{a[1]}", a[1])
    if k == "num":
        return NumericType(NumericType.Kind(a[1]))
    if k == "none":
        return NoneType(preserve=pres)
    if k == "cv":
        v = fresh_value(VALS[a[2]])
        if a[1] == 3 and v in (0, 1):
            v = bool(v)
        return ConstValue(u.ctys[a[1]], v)
    if k == "ta":
        return TypeArg(build(a[1], pres))
    if k == "ca":
        return ConstArg(build(a[1], pres))
    if k == "fn":
        flags, p, args = a[1], a[2], a[3]
        n = len(flags)
        inputs = [FuncInput(build(x[1], pres), InputFlags(f), f"x{j_}" if pres else None) for j_, (x, f) in enumerate(zip(args[:n], flags))]
        out = build(args[n][1], pres)
        ct = [build(x, pres) for x in args[n + 1:]]
        if ct == u.default_comptime(p):
            return FunctionType(inputs, out, u.params[p])
        return FunctionType(inputs, out, u.params[p], comptime_args=ct)
    if k == "tup":
        return TupleType([build(x[1], pres) for x in a[1]], preserve=pres)
    if k == "op":
        return OpaqueType([build(x, pres) for x in a[2]], u.odefs[a[1]][0])
    if k == "st":
        return StructType([build(x, pres) for x in a[2]], u.sdefs[a[1] - u.SBASE][0])
    raise AssertionError(a)


# ---------------------------------------------------------------------------- real -> canonical
def _index(xs, x, what):
    for i, y in enumerate(xs):
        if y == x:
            return i
    raise ValueError(f"unknown {what}: {x!r}")


def enc(x):
    from guppylang_internals.tys.arg import ConstArg, TypeArg
    from guppylang_internals.tys.const import BoundConstVar, ConstValue, ExistentialConstVar
    from guppylang_internals.tys.ty import (BoundTypeVar, ExistentialTypeVar, FunctionType, NoneType, NumericType,
                                            OpaqueType, StructType, TupleType)
    u = U()
    if isinstance(x, ExistentialTypeVar):
        return ("v", 2 * x.id)
    if isinstance(x, ExistentialConstVar):
        return ("v", 2 * x.id + 1)
    if isinstance(x, BoundTypeVar):
        return ("bv", x.idx)
    if isinstance(x, BoundConstVar):
        return ("cbv", x.idx)
    if isinstance(x, NumericType):
        return ("num", x.kind.value)
    if isinstance(x, NoneType):
        return ("none",)
    if isinstance(x, ConstValue):
        return ("cv", _index(u.ctys, x.ty, "const type"), _index([vkey(v) for v in VALS], vkey(x.value), "const value"))
    if isinstance(x, TypeArg):
        return ("ta", enc(x.ty))
    if isinstance(x, ConstArg):
        return ("ca", enc(x.const))
    if isinstance(x, FunctionType):
        assert len(x.args) == len(x.inputs) + 1 + len(x.comptime_args)
        return ("fn", tuple(i.flags.value for i in x.inputs), _index(u.params, list(x.params), "params"),
                tuple(enc(a) for a in x.args))
    if isinstance(x, TupleType):
        return ("tup", tuple(enc(a) for a in x.args))
    if isinstance(x, OpaqueType):
        return ("op", _index([d for d, _ in u.odefs], x.defn, "opaque def"), tuple(enc(a) for a in x.args))
    if isinstance(x, StructType):
        return ("st", u.SBASE + _index([d for d, _ in u.sdefs], x.defn, "struct def"), tuple(enc(a) for a in x.args))
    raise ValueError(f"cannot encode {x!r}")


def sx(a) -> str:
    k = a[0]
    if k == "none":
        return "none"
    if k in ("v", "bv", "cbv", "num"):
        return f"({k} {a[1]})"
    if k == "cv":
        return f"(cv {a[1]} {a[2]})"
    if k in ("ta", "ca"):
        return f"({k} {sx(a[1])})"
    if k == "fn":
        return "(fn (" + " ".join(map(str, a[1])) + f") {a[2]}" + "".join(" " + sx(x) for x in a[3]) + ")"
    if k == "tup":
        return "(tup" + "".join(" " + sx(x) for x in a[1]) + ")"
    if k in ("op", "st"):
        return f"({k} {a[1]}" + "".join(" " + sx(x) for x in a[2]) + ")"
    raise AssertionError(a)


def sx_subst(sg) -> str:
    return "(" + " ".join(f"({v} {sx(t)})" for v, t in sg) + ")"


def kids(a):
    k = a[0]
    if k in ("ta", "ca"):
        return (a[1],)
    if k == "fn":
        return a[3]
    if k == "tup":
        return a[1]
    if k in ("op", "st"):
        return a[2]
    return ()


def with_kids(a, ks):
    k = a[0]
    ks = tuple(ks)
    if k in ("ta", "ca"):
        return (k, ks[0])
    if k == "fn":
        return ("fn", a[1], a[2], ks)
    if k == "tup":
        return ("tup", ks)
    if k in ("op", "st"):
        return (k, a[1], ks)
    return a


def o_vars(a, acc=None):
    acc = [] if acc is None else acc
    if a[0] == "v":
        acc.append(a[1])
    for c in kids(a):
        o_vars(c, acc)
    return acc


def o_cbvars(a, acc=None):
    acc = [] if acc is None else acc
    if a[0] == "cbv":
        acc.append(a[1])
    for c in kids(a):
        o_cbvars(c, acc)
    return acc


def o_bvars(a, acc=None):
    acc = [] if acc is None else acc
    if a[0] == "bv":
        acc.append(a[1])
    for c in kids(a):
        o_bvars(c, acc)
    return acc


def env_of(terms, extra_nocopy=(), extra_nodrop=()) -> str:
    u = U()
    vs, bs = set(), set()
    for t in terms:
        vs.update(o_vars(t))
        bs.update(o_bvars(t))
    tv = sorted(v for v in vs if v % 2 == 0)
    vnc = [v for v in tv if not VATTR[(v // 2) % len(VATTR)][0]] + list(extra_nocopy)
    vnd = [v for v in tv if not VATTR[(v // 2) % len(VATTR)][1]] + list(extra_nodrop)
    bnc = [b for b in sorted(bs) if not BATTR[b % len(BATTR)][0]]
    bnd = [b for b in sorted(bs) if not BATTR[b % len(BATTR)][1]]
    f = lambda xs: "(" + " ".join(map(str, xs)) + ")"
    return "(" + " ".join([f(vnc), f(vnd), f(bnc), f(bnd), f(u.dNoCopy), f(u.dNoDrop)]) + ")"


# ---------------------------------------------------------------------------- oracle (plain tuples only)
class Cyclic(Exception):
    pass


def o_copy_drop(a):
    """(copyable, droppable) by the literal rules, from the attribute tables"""
    u = U()
    k = a[0]
    if k == "v":
        return VATTR[(a[1] // 2) % len(VATTR)] if a[1] % 2 == 0 else (True, True)
    if k == "bv":
        return BATTR[a[1] % len(BATTR)]
    if k in ("tup", "op", "st"):
        cp = dr = True
        if k != "tup":
            cp, dr = a[1] not in u.dNoCopy, a[1] not in u.dNoDrop
        for x in kids(a):
            if x[0] == "ta":
                c, d = o_copy_drop(x[1])
                cp, dr = cp and c, dr and d
        return (cp, dr)
    return (True, True)


def o_linear(a):
    c, d = o_copy_drop(a)
    return (not c) and (not d)


def o_full(sg: dict, a, stack=()):
    """exhaustive application of a (possibly triangular) substitution; raises Cyclic"""
    if a[0] == "v":
        if a[1] in sg:
            if a[1] in stack:
                raise Cyclic
            return o_full(sg, sg[a[1]], stack + (a[1],))
        return a
    ks = kids(a)
    if not ks:
        return a
    return with_kids(a, [o_full(sg, c, stack) for c in ks])


def o_erase(a):
    if a[0] == "fn":
        return ("fn", tuple(0 for _ in a[1]), a[2], tuple(o_erase(c) for c in a[3]))
    ks = kids(a)
    return with_kids(a, [o_erase(c) for c in ks]) if ks else a


def o_once(th: dict, a):
    """one pass of an idempotent substitution"""
    if a[0] == "v":
        return th.get(a[1], a)
    ks = kids(a)
    return with_kids(a, [o_once(th, c) for c in ks]) if ks else a


def o_head(a):
    k = a[0]
    if k == "fn":
        return ("fn", len(a[1]), a[2], len(a[3]))
    if k in ("op", "st"):
        return (k, a[1], len(a[2]))
    if k == "tup":
        return ("tup", len(a[1]))
    if k in ("ta", "ca"):
        return (k,)
    return a  # atoms: whole tuple


def robinson(eqs):
    """Most general unifier of a list of equations, ownership flags ignored.  Idempotent dict or None."""
    th: dict = {}
    work = list(eqs)
    while work:
        x, y = work.pop()
        x, y = o_once(th, x), o_once(th, y)
        if x == y:
            continue
        if x[0] != "v" and y[0] == "v":
            x, y = y, x
        if x[0] == "v":
            if x[1] in o_vars(y):
                robinson.why = "occurs"
                return None
            one = {x[1]: y}
            th = {v: o_once(one, u) for v, u in th.items()}
            th[x[1]] = y
            continue
        if o_head(x) != o_head(y):
            robinson.why = "clash"
            return None
        work.extend(zip(kids(x), kids(y)))
    return th


def flags_agree(S, T, strict):
    """S, T equal up to flags.  strict: every flag must agree; else only on inputs whose type is linear."""
    if S[0] == "fn":
        for i, (f, g) in enumerate(zip(S[1], T[1])):
            if f != g and (strict or o_linear(S[3][i][1])):
                return False
    return all(flags_agree(a, b, strict) for a, b in zip(kids(S), kids(T)))


def fn_inputs(a, acc):
    if a[0] == "fn":
        for x in a[3][: len(a[1])]:
            acc.append(x[1])
    for c in kids(a):
        fn_inputs(c, acc)
    return acc


def oracle(s, t, sg0):
    """-> (verdict in ok/fail/unknown, theta)"""
    eqs = [(("v", v), u_) for v, u_ in sg0] + [(s, t)]
    th = robinson(eqs)
    if th is None:
        oracle.why = robinson.why
        return "fail", None
    oracle.why = "flags"
    # every equation (the goal and the prior's bindings) must hold with the flag rule
    pairs = [(o_once(th, a), o_once(th, b)) for a, b in eqs]
    assert all(o_erase(a) == o_erase(b) for a, b in pairs)
    if all(flags_agree(a, b, strict=True) for a, b in pairs):
        return "ok", th
    ins = []
    for x in [s, t] + [u_ for _, u_ in sg0]:
        fn_inputs(x, ins)
    robust = all(o_linear(x) == o_linear(o_once(th, x)) for x in ins)
    if not robust:
        return "unknown", th
    return ("ok" if all(flags_agree(a, b, strict=False) for a, b in pairs) else "fail"), th


def check_result(s, t, sg0, sg, th, flags_decisive=True):
    """property checks on a returned substitution `sg` (ordered list); returns error string or None"""
    d = dict(sg)
    if len(d) != len(sg):
        return "duplicate keys"
    for v, u_ in sg0:
        if d.get(v) != u_:
            return f"result does not extend the prior at variable {v}"
    univ = set(o_vars(s)) | set(o_vars(t))
    for v, u_ in sg:
        univ.add(v)
        univ.update(o_vars(u_))
    try:
        full = {v: o_full(d, ("v", v)) for v in univ}
    except Cyclic:
        return "result is cyclic"
    S, T = o_once(full, s), o_once(full, t)
    if o_erase(S) != o_erase(T):
        return "result does not make the two sides identical"
    if flags_decisive and not flags_agree(S, T, strict=False):
        return "result leaves a linear function input with different ownership flags"
    for v in univ:
        x = ("v", v)
        if o_erase(o_once(th, full[v])) != o_erase(o_once(th, x)):
            return f"result is not most general (oracle mgu does not factor through it at variable {v})"
        if o_erase(o_once(full, o_once(th, x))) != o_erase(full[v]):
            return f"result is not a unifier of the prior+equation (fails to factor through oracle mgu at variable {v})"
    return None


# ---------------------------------------------------------------------------- generator
TV = [0, 1, 2, 3, 4, 5]          # type var ids (id 8 is used by the flag cases only)
CV = [6, 7, 8]                   # const var ids


class Gen:
    def __init__(self, rng, explicit_comptime=True):
        self.r = rng
        self.explicit_comptime = explicit_comptime
        self.pvar = rng.choice([0.1, 0.25, 0.4])

    def tvar(self):
        return ("v", 2 * self.r.choice(TV))

    def cvar(self):
        return ("v", 2 * self.r.choice(CV) + 1)

    def const(self, allow_var=True):
        r = self.r
        x = r.random()
        if allow_var and x < self.pvar + 0.1:
            return self.cvar()
        if x < 0.55:
            return ("cv", 0, r.choice([0, 1, 2, 3]))
        if x < 0.7:
            return ("cv", r.choice([0, 1, 2, 3]), r.randrange(len(VALS)))
        if x < 0.78:
            return ("cv", 0, r.choice([6, 7, 12]))      # big nat constants: equal objects are not identical
        if x < 0.82:
            return ("cv", 2, r.choice([5, 8, 9, 10, 11]))  # float constants incl. 0.0 / -0.0 / nan / 1.0
        if x < 0.9:
            return ("cbv", r.choice([0, 1, 2]))
        return ("cv", 3, r.choice([0, 1]))

    def arg(self, kind, depth, allow_var=True, strict=False):
        r = self.r
        if not strict and r.random() < 0.03:
            kind = "c" if kind == "t" else "t"  # near-miss: wrong argument kind
        return ("ta", self.ty(depth, allow_var)) if kind == "t" else ("ca", self.const(allow_var))

    def ty(self, depth, allow_var=True):
        r = self.r
        u = U()
        x = r.random()
        if allow_var and x < self.pvar:
            return self.tvar()
        if depth <= 0 or x < self.pvar + 0.2:
            c = r.randrange(9)
            if c < 3:
                return ("num", c + 1)
            if c == 3:
                return ("none",)
            if c == 4:
                return ("bv", r.choice([0, 1, 2, 3]))
            if c == 5:
                return ("op", 0, ())
            if c == 6:
                return ("op", r.choice([4, 5, 6]), ())
            if c == 7:
                return ("st", u.SBASE + r.choice([1, 3]), ())
            return ("num", 2)
        c = r.randrange(10)
        if c < 3:
            n = r.choice([0, 1, 2, 2, 3])
            return ("tup", tuple(("ta", self.ty(depth - 1, allow_var)) for _ in range(n)))
        if c < 6:
            n = r.choice([0, 1, 1, 2, 3])
            flags = tuple(r.choice([0, 0, 0, 1, 2, 2, 4]) for _ in range(n))
            p = r.choice([0, 0, 0, 0, 1, 2, 3, 4])
            args = [("ta", self.ty(depth - 1, allow_var)) for _ in range(n + 1)]
            ct = [enc(c_) for c_ in u.default_comptime(p)]
            if self.explicit_comptime and r.random() < 0.2:
                ct = [("ca", self.const(allow_var)) for _ in range(r.choice([1, 1, 2]))]
            return ("fn", flags, p, tuple(args + ct))
        if c < 8:
            d = r.choice([1, 2, 2, 3])
            kinds = u.odefs[d][1]
            if r.random() < 0.03:
                kinds = kinds + r.choice(["t", "c"]) if r.random() < 0.5 else kinds[:-1]
            return ("op", d, tuple(self.arg(k, depth - 1, allow_var) for k in kinds))
        d = r.choice([0, 2])
        kinds = u.sdefs[d][1]
        return ("st", u.SBASE + d, tuple(self.arg(k, depth - 1, allow_var, strict=True) for k in kinds))

    # positions
    def positions(self, a, path=()):
        out = [path]
        for i, c in enumerate(kids(a)):
            out.extend(self.positions(c, path + (i,)))
        return out

    def at(self, a, path):
        for i in path:
            a = kids(a)[i]
        return a

    def put(self, a, path, new):
        if not path:
            return new
        ks = list(kids(a))
        ks[path[0]] = self.put(ks[path[0]], path[1:], new)
        return with_kids(a, ks)

    def sort_of(self, a):
        if a[0] in ("ta", "ca"):
            return "arg"
        if a[0] in ("cv", "cbv") or (a[0] == "v" and a[1] % 2 == 1):
            return "c"
        return "t"

    def generalise(self, g, assign, n):
        """replace up to n subterms of g by variables, consistently with `assign` (var code -> subterm)"""
        r = self.r
        for _ in range(n):
            pos = [p for p in self.positions(g) if self.sort_of(self.at(g, p)) != "arg"]
            p = r.choice(pos)
            sub = self.at(g, p)
            if sub[0] == "v":
                continue
            v = (2 * r.choice(TV)) if self.sort_of(sub) == "t" else (2 * r.choice(CV) + 1)
            if v in assign and assign[v] != sub:
                if r.random() < 0.9:
                    continue
            else:
                assign[v] = sub
            g = self.put(g, p, ("v", v))
        return g

    def mutate(self, a):
        r = self.r
        pos = self.positions(a)
        p = r.choice(pos)
        sub = self.at(a, p)
        k = r.randrange(6)
        if k == 0 and sub[0] == "fn" and sub[1]:
            fl = list(sub[1])
            fl[r.randrange(len(fl))] = r.choice([0, 1, 2, 4])
            return self.put(a, p, ("fn", tuple(fl), sub[2], sub[3]))
        if k == 1 and kids(sub) and sub[0] not in ("ta", "ca", "fn", "st"):
            ks = list(kids(sub))
            if r.random() < 0.5:
                ks.pop(r.randrange(len(ks)))
            else:
                ks.append(r.choice(ks))
            return self.put(a, p, with_kids(sub, ks))
        if k == 2 and sub[0] == "fn":
            return self.put(a, p, ("fn", sub[1], r.choice([0, 1, 2, 3]), sub[3]))
        if k == 3 and self.sort_of(sub) == "t":
            vs = [v for v in o_vars(a) if v % 2 == 0]
            if vs:
                return self.put(a, p, ("v", r.choice(vs)))
        if self.sort_of(sub) == "t":
            return self.put(a, p, self.ty(1))
        if self.sort_of(sub) == "c":
            return self.put(a, p, self.const())
        return a

    def prior(self, pool_terms):
        """random acyclic, well-sorted prior substitution"""
        r = self.r
        vs = [2 * i for i in TV] + [2 * i + 1 for i in CV]
        r.shuffle(vs)
        k = r.choice([0, 0, 1, 1, 2, 3, 4])
        sg = []
        chosen = vs[:k]
        for idx, v in enumerate(chosen):
            lower = vs[k:] + chosen[:idx]  # variables of lower rank

            def lower_term(depth):
                lt = [w for w in lower if w % 2 == 0]
                lc = [w for w in lower if w % 2 == 1]
                g = self.ty(depth, allow_var=False) if v % 2 == 0 else self.const(allow_var=False)
                # sprinkle lower-ranked variables
                for _ in range(r.choice([0, 1, 2])):
                    pos = [p for p in self.positions(g) if self.sort_of(self.at(g, p)) != "arg"]
                    p = r.choice(pos)
                    so = self.sort_of(self.at(g, p))
                    cand = lt if so == "t" else lc
                    if cand:
                        g = self.put(g, p, ("v", r.choice(cand)))
                return g

            if pool_terms and v % 2 == 0 and r.random() < 0.3:
                g = r.choice(pool_terms)
                if any(w not in lower for w in o_vars(g)) or self.sort_of(g) != "t":
                    g = lower_term(r.choice([0, 1, 2]))
            else:
                g = lower_term(r.choice([0, 1, 2]))
            sg.append((v, g))
        r.shuffle(sg)
        return sg

    def case(self):
        r = self.r
        mode = r.random()
        depth = r.choice([1, 2, 2, 3])
        if mode < 0.1:
            # variable cycle through contexts
            k = r.choice([2, 2, 3])
            vs = r.sample(TV, k)
            ctx = lambda x: x if r.random() < 0.4 else r.choice(
                [("tup", (("ta", x),)), ("op", 1, (("ta", x),)), ("fn", (0,), 0, (("ta", x), ("ta", ("none",))))])
            s = ("tup", tuple(("ta", ("v", 2 * v)) for v in vs))
            t = ("tup", tuple(("ta", ctx(("v", 2 * vs[(i + 1) % k]))) for i in range(k)))
            sg0 = []
            if r.random() < 0.5:
                # move one equation into the prior
                sg0 = [(2 * vs[0], t[1][0][1])] if t[1][0][1] != ("v", 2 * vs[0]) else []
                if sg0 and (sg0[0][0] in o_vars(sg0[0][1])):
                    sg0 = []
            return s, t, sg0
        if mode < 0.2:
            # ownership flags on (mostly) linear inputs
            u = U()
            lin_pool = [("op", 4, ()), ("st", u.SBASE + 1, ()), ("v", 4), ("v", 10), ("bv", 1),
                        ("tup", (("ta", ("op", 4, ())), ("ta", ("num", 2)))), ("op", 2, (("ta", ("op", 4, ())), ("ca", ("cv", 0, 2)))),
                        ("st", u.SBASE + 0, (("ta", ("op", 4, ())),)), ("op", 3, (("ta", ("v", 4)),)),
                        ("num", 2), ("v", 0), ("op", 5, ()), ("op", 6, ())]
            n = r.choice([1, 2, 2, 3])
            ins = [r.choice(lin_pool) for _ in range(n)]
            fl = [r.choice([0, 1, 2, 2]) for _ in range(n)]
            out = self.ty(1)
            f1 = ("fn", tuple(fl), 0, tuple(("ta", x) for x in ins + [out]))
            fl2, ins2 = list(fl), list(ins)
            for i in range(n):
                if r.random() < 0.35:
                    fl2[i] = r.choice([0, 1, 2])
                if r.random() < 0.3:
                    ins2[i] = r.choice([("v", 4), ("v", 0), ("v", 10), ("v", 6), ins[i]])
            f2 = ("fn", tuple(fl2), 0, tuple(("ta", x) for x in ins2 + [out]))
            wrap = r.choice([lambda x: x, lambda x: ("tup", (("ta", x), ("ta", ("v", 2)))), lambda x: ("op", 1, (("ta", x),))])
            s, t = wrap(f1), wrap(f2)
            if r.random() < 0.3:
                # meet through a variable instead of directly
                s, t = ("tup", (("ta", ("v", 16)), ("ta", ("v", 16)))), ("tup", (("ta", f1), ("ta", f2)))
            sg0 = self.prior([]) if r.random() < 0.4 else []
            return s, t, sg0
        if mode < 0.3:
            if r.random() < 0.25:
                s, t = self.const(), self.const()
            else:
                s, t = self.ty(depth), self.ty(depth)
            return s, t, self.prior([])
        g = self.ty(depth) if r.random() < 0.93 else self.const()
        assign: dict = {}
        s = self.generalise(g, assign, r.choice([0, 1, 2, 3]))
        t = self.generalise(g, assign, r.choice([0, 1, 2, 3]))
        if r.random() < 0.3:
            t = self.mutate(t)
        if r.random() < 0.1:
            s = self.mutate(s)
        if r.random() < 0.5:
            s, t = t, s
        pool = [x for x in assign.values()]
        sg0 = self.prior(pool) if r.random() < 0.7 else []
        return s, t, sg0


def has_generic_fn(a):
    return (a[0] == "fn" and a[2] != 0) or any(has_generic_fn(c) for c in kids(a))


def explicit_comptime(a):
    """some function type whose comptime args are not the ones derived from its params"""
    if a[0] == "fn":
        dflt = tuple(enc(c_) for c_ in U().default_comptime(a[2]))
        if tuple(a[3][len(a[1]) + 1:]) != dflt:
            return True
    return any(explicit_comptime(c) for c in kids(a))


def acyclic(sg):
    d = dict(sg)
    try:
        for v in d:
            o_full(d, ("v", v))
    except Cyclic:
        return False
    return len(d) == len(sg)



# ---------------------------------------------------------------------------- check_type_against (generic function values)
FRESH_BASE = 1000


def gen_cta(gen: "Gen"):
    """(exp, act): act = generic function type over bound variables, exp = function type with inference variables,
    obtained from a common instance so that most cases fit"""
    r = gen.r
    u = U()
    p = r.choice(list(u.generic_pools))
    kinds = u.generic_pools[p]

    def body_ty(depth):
        x = r.random()
        tb = [i for i, k in enumerate(kinds) if k == "t"]
        cb = [i for i, k in enumerate(kinds) if k == "c"]
        if tb and x < 0.4:
            return ("bv", r.choice(tb))
        if depth <= 0 or x < 0.6:
            return r.choice([("num", 2), ("num", 1), ("none",), ("op", 0, ()), ("op", 4, ())])
        c = r.randrange(4)
        if c == 0:
            return ("tup", tuple(("ta", body_ty(depth - 1)) for _ in range(r.choice([1, 2]))))
        if c == 1:
            return ("op", 1, (("ta", body_ty(depth - 1)),))
        if c == 2:
            n = ("ca", ("cbv", r.choice(cb))) if cb and r.random() < 0.7 else ("ca", ("cv", 0, r.choice([1, 2])))
            return ("op", 2, (("ta", body_ty(depth - 1)), n))
        return ("fn", (0,), 0, (("ta", body_ty(depth - 1)), ("ta", body_ty(depth - 1))))

    n = r.choice([1, 1, 2, 3])
    flags = tuple(r.choice([0, 0, 0, 2]) for _ in range(n))
    for _try in range(6):
        args = tuple(("ta", body_ty(2)) for _ in range(n + 1))
        used = set()
        for a in args:
            used.update(o_bvars(a))
            used.update(o_cbvars(a))
        if len(used) == len(kinds) or r.random() < 0.1:
            break
    act = ("fn", flags, p, args)
    # an instance: params := random closed rank-1 types / constants
    rho = []
    for k in kinds:
        x = gen.ty(1, allow_var=False) if k == "t" else ("cv", 0, r.choice([1, 2, 3]))
        while has_generic_fn(x):
            x = gen.ty(1, allow_var=False)
        rho.append(x)

    def instb(a):
        if a[0] in ("bv", "cbv"):
            return rho[a[1]] if a[1] < len(rho) else a
        ks = kids(a)
        return with_kids(a, [instb(c) for c in ks]) if ks else a

    inst = ("fn", flags, 0, tuple(instb(a) for a in args))
    assign: dict = {}
    exp = gen.generalise(inst, assign, r.choice([0, 1, 2, 3]))
    if exp[0] != "fn":
        exp = inst
    if r.random() < 0.25:
        exp = gen.mutate(exp)
    if exp[0] != "fn" or exp[2] != 0 or any(has_generic_fn(x) for x in exp[3]):
        exp = inst
    return exp, act, kinds


def real_cta(ACT, EXP, kinds):
    """-> canonical outcome string"""
    import ast as _ast
    import itertools
    from guppylang_internals.checker.expr_checker import check_type_against
    from guppylang_internals.error import GuppyError
    from guppylang_internals.tys.var import ExistentialVar
    ExistentialVar._fresh_id = itertools.count(FRESH_BASE)
    try:
        _n, subst, inst = check_type_against(ACT, EXP, _ast.Name(id="f", ctx=_ast.Load()), None)
    except GuppyError as e:
        err = e.error
        if type(err).__name__ != "TypeMismatchError":
            return "error:" + type(err).__name__
        if err.kind == "argument":
            return "check-inst:const-type"   # raised by ConstParam.check_arg inside check_inst (not modelled)
        names = [q.name for q in ACT.params]
        for c in err.children:
            if type(c).__name__ == "CantInferParam":
                return f"cant-infer {names.index(c.type_var)}"
            if type(c).__name__ == "CantInstantiateFreeVars":
                return f"free-vars {names.index(c.param)}"
        return "mismatch"
    except Exception as e:  # noqa: BLE001
        return "exception:" + type(e).__name__
    try:
        real_cta.inst = [enc(a)[1] for a in inst]
        real_cta.subst = [(enc(k)[1], enc(v)) for k, v in subst.items()]
        return "ok (" + " ".join(sx(a) for a in real_cta.inst) + ") " + sx_subst([(enc(k)[1], enc(v)) for k, v in subst.items()])
    except Exception as e:  # noqa: BLE001
        return "exception:encode:" + type(e).__name__


def oracle_cta(exp, act, kinds):
    """literal reading: accepted iff the most general solution of exp ≐ act[params := fresh] exists and gives every
    parameter a variable-free value.  -> (verdict, theta, unq)"""
    fresh = [2 * (FRESH_BASE + i) + (1 if k == "c" else 0) for i, k in enumerate(kinds)]

    def instb(a):
        if a[0] in ("bv", "cbv"):
            return ("v", fresh[a[1]]) if a[1] < len(fresh) else a
        ks = kids(a)
        return with_kids(a, [instb(c) for c in ks]) if ks else a

    unq = ("fn", act[1], 0, tuple(instb(a) for a in act[3]))
    verdict, th = oracle(exp, unq, [])
    if verdict != "ok":
        return ("reject" if verdict == "fail" else "unknown"), th, unq, fresh
    for f in fresh:
        if f not in th or o_vars(th[f]):
            return "reject", th, unq, fresh
    return "accept", th, unq, fresh


# ---------------------------------------------------------------------------- generic CALLS through the real check()
# Declared generic functions called with generated argument expressions; the whole checker runs
# (check_call / synthesize_call / type_check_args / visit_Tuple / check_type_against / check_inst).
# Oracle: bottom-up typing of the argument expressions, then the independent Robinson unifier over
# (declared parameter types with fresh variables) ≐ (argument types), then the parameter bounds.
GC_PRELUDE = (
    "from collections.abc import Callable\n"
    "from guppylang.std.option import Option\n"
)
T_INT, T_FLOAT, T_BOOL = ("num", 2), ("num", 3), ("op", 0, ())
GC_ERRS = ("TypeMismatchError", "NonLinearInstantiateError", "WrongNumberOfArgsError")


def gc_fn(ins, out):
    return ("fn", tuple(0 for _ in ins), 0, tuple(("ta", x) for x in list(ins) + [out]))


def gc_src(a):
    """abstract type -> Guppy annotation"""
    k = a[0]
    if a == T_INT:
        return "int"
    if a == T_FLOAT:
        return "float"
    if a == T_BOOL:
        return "bool"
    if k == "v":
        return f"T{a[1] // 2}" if a[1] % 2 == 0 else f"n{a[1] // 2}"
    if k == "cv":
        return str(VALS[a[2]])
    if k == "tup":
        return "tuple[" + ", ".join(gc_src(x[1]) for x in a[1]) + "]"
    if k == "op" and a[1] == 2:
        return f"array[{gc_src(a[2][0][1])}, {gc_src(a[2][1][1])}]"
    if k == "op" and a[1] == 3:
        return f"Option[{gc_src(a[2][0][1])}]"
    if k == "fn":
        n = len(a[1])
        return "Callable[[" + ", ".join(gc_src(x[1]) for x in a[3][:n]) + "], " + gc_src(a[3][n][1]) + "]"
    raise AssertionError(a)


def gc_copyable(a):
    c, d = o_copy_drop(a)
    return c and d


class GCGen:
    """one program: callee declarations (generic and closed) + caller cases"""

    def __init__(self, rng):
        self.r = rng
        self.callees = []     # (name, tvars (codes), params, out)
        self.closed_fns = {}  # closed fn type -> name

    # ---- closed types
    def closed(self, depth, allow_arr=True):
        r = self.r
        x = r.random()
        if depth <= 0 or x < 0.5:
            return r.choice([T_INT, T_INT, T_BOOL, T_BOOL, T_FLOAT] if r.random() < 0.15 else [T_INT, T_INT, T_BOOL])
        c = r.randrange(5)
        if c <= 1:
            return ("tup", tuple(("ta", self.closed(depth - 1, allow_arr)) for _ in range(r.choice([2, 2, 3]))))
        if c == 2 and allow_arr:
            return ("op", 2, (("ta", self.closed(depth - 1, False)), ("ca", ("cv", 0, r.choice([2, 3, 6])))))
        if c == 3:
            return ("op", 3, (("ta", self.closed(depth - 1, False)),))
        return gc_fn([self.closed(0)], self.closed(0))

    # ---- callee signatures
    def sig_ty(self, tv, cv, depth):
        r = self.r
        x = r.random()
        if x < 0.45:
            return ("v", r.choice(tv))
        if depth <= 0 or x < 0.55:
            return r.choice([T_INT, T_BOOL])
        c = r.randrange(5)
        if c <= 1:
            return ("tup", tuple(("ta", self.sig_ty(tv, cv, depth - 1)) for _ in range(r.choice([2, 2, 3]))))
        if c == 2:
            size = ("v", r.choice(cv)) if cv and r.random() < 0.7 else ("cv", 0, r.choice([2, 3]))
            el = ("v", r.choice(tv)) if r.random() < 0.7 else T_INT
            return ("op", 2, (("ta", el), ("ca", size)))
        if c == 3:
            return ("op", 3, (("ta", self.sig_ty(tv, cv, 0)),))
        return gc_fn([self.sig_ty(tv, cv, 0)], self.sig_ty(tv, cv, 0))

    def new_callee(self):
        r = self.r
        tv = [2 * i for i in range(r.choice([1, 1, 2]))]
        cv = [2 * 5 + 1] if r.random() < 0.4 else []
        for _ in range(20):
            params = [self.sig_ty(tv, cv, 2) for _ in range(r.choice([1, 2, 2, 3]))]
            used = set()
            for q in params:
                used.update(o_vars(q))
            if used == set(tv + cv):
                break
        else:
            params = [("v", v) for v in tv] + [("op", 2, (("ta", T_INT), ("ca", ("v", v)))) for v in cv]
        outs = [("v", v) for v in tv] + [T_INT, T_BOOL, ("tup", (("ta", ("v", tv[0])), ("ta", T_INT))), ("op", 3, (("ta", ("v", tv[-1])),))]
        out = r.choice(outs)
        if r.random() < 0.12:
            # return-only type variable: inferable in checking position only
            tv = tv + [2 * 3]
            out = r.choice([("v", 6), ("tup", (("ta", ("v", 6)), ("ta", ("v", tv[0])))), ("op", 3, (("ta", ("v", 6)),))])
        name = f"f{len(self.callees)}"
        self.callees.append((name, tuple(tv + cv), tuple(params), out))
        return len(self.callees) - 1

    def closed_fn_name(self, ty):
        if ty not in self.closed_fns:
            self.closed_fns[ty] = f"g{len(self.closed_fns)}"
        return self.closed_fns[ty]

    # ---- expressions of (roughly) a wanted closed type
    def expr(self, ty, depth, arr_ok=True):
        r = self.r
        if r.random() < 0.06:
            ty = self.closed(1, allow_arr=arr_ok)       # near-miss: some other type (no borrowed arrays inside tuple literals)
        if ty[0] == "fn":
            return ("fname", ty)
        x = r.random()
        if ty[0] == "tup" and x < 0.6 and all(gc_copyable(c[1]) for c in ty[1]):
            return ("tuple", tuple(self.expr(c[1], depth - 1, arr_ok=False) for c in ty[1]))
        if ty in (T_INT, T_BOOL) and x < 0.25:
            return ("lit", ty)
        if depth > 0 and x > 0.75 and gc_copyable(ty) and self.callees:
            # nested call of a generic function whose result can be ty
            ci = r.randrange(len(self.callees))
            if 6 in self.callees[ci][1]:
                return ("var", ty)       # return-only callees are only called at the root
            e = self.call_for(ci, ty, depth - 1)
            if e is not None:
                return e
        return ("var", ty)

    def call_for(self, ci, want, depth):
        """a call of callee ci, with its variables instantiated so that the result is `want` when possible"""
        r = self.r
        name, vs, params, out = self.callees[ci]
        th = robinson([(out, want)]) if want is not None else {}
        if th is None:
            if want is not None and r.random() < 0.8:
                return None
            th = {}
        rho = dict(th)
        for v in vs:
            if v not in rho or o_vars(rho[v]):
                rho[v] = (self.closed(1) if r.random() < 0.9 else self.closed(2)) if v % 2 == 0 else ("cv", 0, r.choice([2, 3, 6]))
        if any(o_vars(o_once(rho, q)) for q in params):
            return None
        args = [self.expr(o_once(rho, q), depth) for q in params]
        if r.random() < 0.04:
            if r.random() < 0.5 and len(args) > 1:
                args.pop()
            else:
                args.append(("lit", T_INT))
        return ("call", ci, tuple(args))

    def case(self):
        r = self.r
        ci = r.randrange(len(self.callees))
        e = None
        while e is None:
            e = self.call_for(ci, None, 2)
        mode = r.choice(["synth", "check", "check"])
        return e, mode


def gc_eval(callees, e, counter, expected=None):
    """oracle typing: ('ok', type) | ('err', classes).  Internally every sub-expression gets a type (a fresh wildcard
    variable where it is ill-typed) so that all problems the checker can meet first, in its evaluation order, are collected."""
    ty, errs = _gc_eval(callees, e, counter, expected)
    return ("err", errs) if errs else ("ok", ty)


def _gc_wild(counter):
    counter[0] += 1
    return ("v", 2 * (900000 + counter[0]))


def _gc_eval(callees, e, counter, expected=None):
    k = e[0]
    if k in ("var", "lit", "fname"):
        return e[1], set()
    if k == "tuple":
        tys, errs = [], set()
        for x in e[1]:
            t, er = _gc_eval(callees, x, counter)
            tys.append(t)
            errs |= er
        return ("tup", tuple(("ta", t) for t in tys)), errs
    if k == "call":
        name, vs, params, out = callees[e[1]]
        errs = set()
        tys = []
        for x in e[2]:
            t, er = _gc_eval(callees, x, counter)
            tys.append(t)
            errs |= er
        if len(e[2]) != len(params):
            errs.add("WrongNumberOfArgsError")
            return _gc_wild(counter), errs
        counter[0] += 1
        ren = {v: ("v", 2 * (5000 + 10 * counter[0] + j) + v % 2) for j, v in enumerate(vs)}
        eqs = [(o_once(ren, q), t) for q, t in zip(params, tys)]
        th = robinson(eqs)
        if th is not None and expected is not None:
            th = robinson(eqs + [(o_once(ren, out), expected)])
        if th is None:
            errs.add("TypeMismatchError")
            return _gc_wild(counter), errs
        if errs:
            return _gc_wild(counter), errs
        if any(o_vars(o_once(th, ren[v])) for v in vs):
            return _gc_wild(counter), {"TypeInferenceError", "ParameterInferenceError"}
        for v in vs:
            val = o_once(th, ren[v])
            if v % 2 == 0 and not gc_copyable(val):
                return _gc_wild(counter), {"NonLinearInstantiateError"}
        return o_once(th, o_once(ren, out)), set()
    raise AssertionError(e)


def gc_kinds(a, acc):
    if a[0] == "num":
        acc.add(a[1])
    for c in kids(a):
        gc_kinds(c, acc)


def gc_expr_kinds(callees, e, acc):
    k = e[0]
    if k in ("var", "lit", "fname"):
        gc_kinds(e[1], acc)
    elif k == "tuple":
        for x in e[1]:
            gc_expr_kinds(callees, x, acc)
    else:
        _n, _vs, params, out = callees[e[1]]
        for q in list(params) + [out]:
            gc_kinds(q, acc)
        for x in e[2]:
            gc_expr_kinds(callees, x, acc)


def gc_render(callees, closed_fns, e, mode, ret, cname):
    """source of the declarations and of one caller"""
    params = []

    def ex(e):
        k = e[0]
        if k == "var":
            params.append(f"v{len(params)}: {gc_src(e[1])}")
            return f"v{len(params) - 1}"
        if k == "lit":
            return "1" if e[1] == T_INT else "True"
        if k == "fname":
            return closed_fns[e[1]]
        if k == "tuple":
            return "(" + ", ".join(ex(x) for x in e[1]) + ("," if len(e[1]) == 1 else "") + ")"
        return callees[e[1]][0] + "(" + ", ".join(ex(x) for x in e[2]) + ")"

    body = ex(e)
    if mode == "synth":
        return f"@guppy\ndef {cname}({', '.join(params)}) -> None:\n    z = {body}\n\n"
    return f"@guppy\ndef {cname}({', '.join(params)}) -> {gc_src(ret)}:\n    return {body}\n\n"


def gc_decls(callees, closed_fns):
    tv, cv = set(), set()
    for _n, vs, _p, _o in callees:
        for v in vs:
            (tv if v % 2 == 0 else cv).add(v)
    out = "".join(f'T{v // 2} = guppy.type_var("T{v // 2}")\n' for v in sorted(tv))
    out += "".join(f'n{v // 2} = guppy.nat_var("n{v // 2}")\n' for v in sorted(cv))
    out += "\n"
    for name, _vs, params, o in callees:
        out += f"@guppy.declare\ndef {name}(" + ", ".join(f"a{i}: {gc_src(q)}" for i, q in enumerate(params)) + f") -> {gc_src(o)}: ...\n\n"
    for ty, name in closed_fns.items():
        n = len(ty[1])
        out += f"@guppy.declare\ndef {name}(" + ", ".join(f"a{i}: {gc_src(x[1])}" for i, x in enumerate(ty[3][:n])) + f") -> {gc_src(ty[3][n][1])}: ...\n\n"
    return out


def gc_closed_fns_of(e, acc):
    if e[0] == "fname":
        acc.setdefault(e[1], f"g{len(acc)}")
    elif e[0] == "tuple":
        for x in e[1]:
            gc_closed_fns_of(x, acc)
    elif e[0] == "call":
        for x in e[2]:
            gc_closed_fns_of(x, acc)


def gc_judge(callees, e, mode, ret):
    """-> (verdict accept/reject/unknown, admissible error classes, result type or None)"""
    retonly = e[0] == "call" and 6 in callees[e[1]][1]
    res = gc_eval(callees, e, [0], expected=(ret if retonly and mode == "check" else None))
    kinds = set()
    gc_expr_kinds(callees, e, kinds)
    if mode == "check":
        gc_kinds(ret, kinds)
    mixed = len(kinds) > 1
    if res[0] == "err":
        return ("unknown" if mixed and "TypeMismatchError" in res[1] else "reject"), res[1], None
    if mode == "check" and o_erase(res[1]) != o_erase(ret):
        return ("unknown" if mixed else "reject"), {"TypeMismatchError"}, res[1]
    return "accept", set(), res[1]



GC_TAG = {"TypeMismatchError": "mismatch", "WrongNumberOfArgsError": "arity", "NonLinearInstantiateError": "bounds",
          "TypeInferenceError": "infer", "ParameterInferenceError": "infer"}


def gc_model_request(callees, e, mode, ret):
    """the root call as a request for the Lean model of synthesize_call / check_call, or None when an inner call is
    not accepted by the oracle (then the checker never completes the root call's own argument loop deterministically)"""
    assert e[0] == "call"
    name, vs, params, out = callees[e[1]]
    tobv = {v: (("bv", j) if v % 2 == 0 else ("cbv", j)) for j, v in enumerate(vs)}

    def conv(a):
        if a[0] == "v":
            return tobv[a[1]]
        ks = kids(a)
        return with_kids(a, [conv(c) for c in ks]) if ks else a

    def ex(x):
        if x[0] in ("var", "lit", "fname"):
            return "(val " + sx(x[1]) + ")"
        if x[0] == "tuple":
            return "(tup" + "".join(" " + ex(y) for y in x[1]) + ")"
        res = gc_eval(callees, x, [0])
        if res[0] != "ok":
            raise ValueError("inner call rejected")
        return "(val " + sx(res[1]) + ")"

    try:
        es = " ".join(ex(x) for x in e[2])
    except ValueError:
        return None
    bounds = " ".join("(1 1)" if v % 2 == 0 else "(0 0)" for v in vs)
    f1 = " ".join(str(2 * (2000 + j) + v % 2) for j, v in enumerate(vs))
    f2 = " ".join(str(2 * (3000 + j) + v % 2) for j, v in enumerate(vs))
    ty = "synth" if mode == "synth" else sx(ret)
    terms = [conv(q) for q in params] + [conv(out)]
    return (f"(gcall {env_of(terms)} (" + " ".join(sx(conv(q)) for q in params) + f") {sx(conv(out))} ({bounds}) ({f1}) ({f2}) ({es}) {ty})")


def gc_real_inst(m, cname, callee_name, vs):
    """instantiation the checker recorded on the root call of caller `cname` (in the order of `vs`), and its type"""
    from guppylang_internals.ast_util import get_type_opt
    from guppylang_internals.engine import ENGINE
    d = ENGINE.checked[getattr(m, cname).id]
    cid = getattr(m, callee_name).id
    for bb in d.cfg.bbs:
        for st in bb.statements:
            node = getattr(st, "value", None)
            if type(node).__name__ == "GlobalCall" and node.def_id == cid:
                names = [q.name for q in ENGINE.get_parsed(cid).ty.params] if hasattr(ENGINE, "get_parsed") else [q.name for q in ENGINE.parsed[cid].ty.params]
                by = {nm: enc(a)[1] for nm, a in zip(names, node.type_args)}
                ins = [by[f"T{v // 2}" if v % 2 == 0 else f"n{v // 2}"] for v in vs]
                ty = get_type_opt(node)
                return ins, (enc(ty) if ty is not None else None)
    return None, None


def gc_run(ctx, callees, cases):
    """cases: list of (expr, mode, ret).  Runs the real checker on every caller, compares with the oracle."""
    import feed
    closed_fns = {}
    for e, _m, _r in cases:
        gc_closed_fns_of(e, closed_fns)
    decls = gc_decls(callees, closed_fns)
    src = decls + "".join(gc_render(callees, closed_fns, e, mode, ret, f"c{i}") for i, (e, mode, ret) in enumerate(cases))
    try:
        m = feed.load(src, prelude=feed.PRELUDE + GC_PRELUDE)
    except Exception as ex:  # noqa: BLE001
        ctx.violation("program-load:" + src, f"generated generic-call program does not load: {type(ex).__name__}: {ex}",
                      {"program": src}, found_input=False)
        return
    try:
        for i, (e, mode, ret) in enumerate(cases):
            verdict, classes, rty = gc_judge(callees, e, mode, ret)
            out = feed.check_outcome(getattr(m, f"c{i}"))
            got = out[0] if out[0] == "ok" else ("user:" + feed.err_class(out[1]) if out[0] == "user" else "crash:" + type(out[1]).__name__)
            if out[0] == "user" and type(getattr(out[1], "error", None)).__module__.endswith("errors.linearity"):
                # the linearity checker runs after type checking: the call itself was accepted by the type checker
                ctx.bump("gcall:type-check-accepted-then-" + feed.err_class(out[1]))
                got = "ok"
                out = ("linearity", out[1])
            one = decls + gc_render(callees, closed_fns, e, mode, ret, "main")
            ctx.count("gcall:" + one, nontrivial=True, kind=f"gcall:{got}:oracle-{verdict}")
            kinds_ = set()
            gc_expr_kinds(callees, e, kinds_)
            if mode == "check":
                gc_kinds(ret, kinds_)
            req = gc_model_request(callees, e, mode, ret) if len(kinds_) <= 1 and out[0] != "crash" else None
            if req is not None:
                if got == "ok" and out[0] == "linearity":
                    real_s = None
                elif got == "ok":
                    try:
                        ins, rty_real = gc_real_inst(m, f"c{i}", callees[e[1]][0], callees[e[1]][1])
                    except Exception as ex_:  # noqa: BLE001
                        ins, rty_real = None, None
                        ctx.bump("gcall-model:inst-unreadable:" + type(ex_).__name__)
                    real_s = None if ins is None else "accept (" + " ".join(sx(a) for a in ins) + ")" + (" " + sx(rty_real) if rty_real is not None else "")
                else:
                    real_s = GC_TAG.get(got.split(":", 1)[1], got)
                if real_s is not None:
                    ctx.gc_pending.append((req, real_s, one, {"callees": callees, "expr": e, "mode": mode, "ret": ret}))
            bad = None
            if out[0] == "crash":
                bad = f"the checker crashed ({type(out[1]).__name__}: {out[1]})"
            elif verdict == "accept" and got != "ok":
                bad = f"a fitting instantiation exists (result type {gc_src(rty)}) but the call is rejected with {got}"
            elif verdict == "reject" and got == "ok":
                bad = "no instantiation of the parameters fits the arguments (expected " + "/".join(sorted(classes)) + ") but the call is accepted"
            elif verdict == "reject" and got.split(":", 1)[1] not in classes:
                bad = f"rejected with {got}, expected one of " + "/".join(sorted(classes))
            if bad:
                ctx.violation("gcall:" + one, f"generic call: {bad}\n{one}",
                              {"gcall": {"callees": callees, "expr": e, "mode": mode, "ret": ret}, "program": one, "got": got,
                               "oracle": verdict, "classes": sorted(classes)})
    finally:
        feed.unload(m)


def gc_tie(ctx):
    rng = ctx.rng
    ctx.gc_pending = []
    # corpus / replay
    fixed = [c["gcall"] for _fn, c in _corpus_other("gcall")]
    if ctx.replay_in and "gcall" in ctx.replay_in.get("replay", {}):
        fixed.append(ctx.replay_in["replay"]["gcall"])
    for g in fixed:
        gc_run(ctx, _tup(g["callees"]), [(_tup(g["expr"]), g["mode"], _tup(g["ret"]))])
    n_prog = ctx.n(60, 4000)
    for _ in range(n_prog):
        gg = GCGen(rng)
        for _k in range(rng.choice([2, 3, 4])):
            gg.new_callee()
        cases = []
        for _k in range(12):
            e, mode = gg.case()
            res = gc_eval(gg.callees, e, [0])
            ret = res[1] if res[0] == "ok" else T_INT
            if 6 in gg.callees[e[1]][1]:
                # instantiate the return type with a random closed type for the return-only variable
                _n, vs_, ps_, out_ = gg.callees[e[1]]
                th_ = robinson([(q, t) for q, t in zip(ps_, [gc_eval(gg.callees, x, [0])[1] if gc_eval(gg.callees, x, [0])[0] == "ok" else T_INT for x in e[2]])]) if len(ps_) == len(e[2]) else None
                rho_ = dict(th_ or {})
                rho_[6] = gg.closed(1, allow_arr=False)
                ret = o_once(rho_, out_)
                if o_vars(ret):
                    ret = T_INT
            if mode == "check" and rng.random() < 0.2:
                ret = gg.closed(1)
            cases.append((e, mode, ret))
        gc_run(ctx, tuple(gg.callees), cases)
    # ---- the same root calls through the Lean model of synthesize_call / check_call
    if ctx.gc_pending:
        replies = ctx.driver(DRIVER, [q[0] for q in ctx.gc_pending])
        for (req, real_s, one, info), m_ in zip(ctx.gc_pending, replies):
            ctx.bump("gcall-model:" + real_s.split(" ")[0])
            same = (m_ == real_s) or (real_s.startswith("accept") and m_.startswith(real_s + " "))
            if not same:
                ctx.broke(f"correspondence Model/GenCall.lean vs check() on `{req}` (real={real_s} model={m_})\n{one}")

# ---------------------------------------------------------------------------- running the real code
def real_unify(S, T, SG0):
    """-> ('ok', [(code, term)...]) | ('fail',) | ('exception', name)"""
    from guppylang_internals.tys.ty import unify
    try:
        res = unify(S, T, dict(SG0))
    except RecursionError:
        return ("exception", "RecursionError")
    except Exception as e:  # noqa: BLE001
        return ("exception", type(e).__name__)
    if res is None:
        return ("fail",)
    try:
        return ("ok", [(enc(k)[1], enc(v)) for k, v in res.items()])
    except Exception as e:  # noqa: BLE001
        return ("exception", "encode:" + type(e).__name__)


def show_real(rr):
    if rr[0] == "ok":
        return "ok " + sx_subst(rr[1])
    if rr[0] == "fail":
        return "fail"
    return "exception:" + rr[1]


def build_case(s, t, sg0):
    """abstract -> real objects -> canonical again (what the model sees is what the real objects are)"""
    S, T = build(s), build(t)
    SG0 = [(build(("v", v)), build(u_)) for v, u_ in sg0]
    cs, ct = enc(S), enc(T)
    csg = [(enc(k)[1], enc(v)) for k, v in SG0]
    return (S, T, SG0), (cs, ct, csg)


def _tup(x):
    return tuple(_tup(i) for i in x) if isinstance(x, (list, tuple)) else x


def _corpus():
    out = []
    d = os.path.join(vlib.VERIF, "corpus", "c12")
    if os.path.isdir(d):
        for fn in sorted(os.listdir(d)):
            if fn.endswith(".json"):
                for c in json.load(open(os.path.join(d, fn))):
                    if "s" not in c:
                        continue
                    out.append((fn, _tup(c["s"]), _tup(c["t"]), [(_v, _tup(_u)) for _v, _u in c["sigma0"]], c.get("literal")))
    return out


def judge_unify(cs, ct, csg, rr, verdict, th):
    """real outcome against the oracle: error text or None"""
    if rr[0] == "exception":
        return f"unify raised {rr[1]}"
    if verdict == "fail" and rr[0] == "ok":
        return "unify returned a substitution although no unifier exists"
    if verdict == "ok" and rr[0] == "fail":
        return "unify returned None although a unifier exists"
    if rr[0] == "ok":
        return check_result(cs, ct, csg, rr[1], th, flags_decisive=(verdict == "ok"))
    return None


def search(ctx, why):
    """Something no longer checks and the tie found no failing input: look harder on the REAL code with the
    oracle only (no model), with fresh generator parameters."""
    from guppylang_internals.error import InternalGuppyError
    rng = ctx.rng
    tried = 0
    for _round in range(ctx.n(6, 20)):
        gen = Gen(rng)
        for _ in range(5000):
            s, t, sg0 = gen.case()
            if not acyclic(sg0):
                continue
            try:
                real_objs, (cs, ct, csg) = build_case(s, t, sg0)
            except InternalGuppyError:
                continue
            tried += 1
            rr = real_unify(*real_objs)
            verdict, th = oracle(cs, ct, csg)
            bad = judge_unify(cs, ct, csg, rr, verdict, th)
            if bad:
                line = f"(unify {env_of([cs, ct] + [u_ for _, u_ in csg] + [('v', v) for v, _ in csg])} {sx(cs)} {sx(ct)} {sx_subst(csg)})"
                ctx.violation("input:" + line, f"{bad}: unify({sx(cs)}, {sx(ct)}, {sx_subst(csg)}) = {show_real(rr)}",
                              {"case": {"s": cs, "t": ct, "sigma0": csg}, "line": line, "real": show_real(rr),
                               "oracle": verdict, "origin": "search", "why": why[:3]})
                ctx.extra["search_cases"] = tried
                return
    ctx.extra["search_cases"] = tried


def _corpus_other(kind):
    out = []
    d = os.path.join(vlib.VERIF, "corpus", "c12")
    if os.path.isdir(d):
        for fn in sorted(os.listdir(d)):
            if fn.endswith(".json"):
                for c in json.load(open(os.path.join(d, fn))):
                    if kind in c:
                        out.append((fn, c))
    return out


def nonsemantic_tie(ctx):
    """Types that differ only in fields excluded from equality (TupleType/NoneType.preserve, FuncInput.name) are the same
    type: ==, hash, unify, substitute and the canonical encoding must not tell them apart."""
    from guppylang_internals.error import InternalGuppyError
    from guppylang_internals.tys.ty import unify
    rng = ctx.rng
    gen = Gen(rng, explicit_comptime=False)

    def h(x):
        try:
            return ("hash", hash(x))
        except TypeError:
            return ("unhashable",)

    for _ in range(ctx.n(400, 20000)):
        t = gen.ty(rng.choice([1, 2, 3]))
        try:
            A, B = build(t), build(t, pres=True)
        except InternalGuppyError:
            continue
        line = "eqnf " + sx(t)
        ctx.count(line, nontrivial=False, kind="eqnf")
        bad = None
        try:
            if not (A == B and B == A):
                bad = "the two types compare unequal"
            elif h(A) != h(B):
                bad = "the two types hash differently"
            elif unify(A, B, {}) != {} or unify(B, A, {}) != {}:
                bad = "unify does not identify the two types"
            elif enc(A) != enc(B):
                bad = "canonical encodings differ"
            elif A.substitute({}) != B or B.substitute({}) != A:
                bad = "substitution tells the two types apart"
        except Exception as ex:  # noqa: BLE001
            bad = f"comparison raised {type(ex).__name__}"
        if bad:
            ctx.violation("input:" + line, f"types differing only in non-semantic fields (preserve flags, input names): {bad}: {sx(t)}",
                          {"type": t, "line": line})


def tie(ctx):
    from guppylang_internals.error import InternalGuppyError
    rng = ctx.rng
    gen = Gen(rng)
    cases = []  # (origin, s, t, sg0)
    literal = {}
    for fn, s, t, sg0, lit in _corpus():
        cases.append(("corpus:" + fn, s, t, sg0))
        if lit is not None:
            literal[(s, t, tuple(sg0))] = lit
    if ctx.replay_in and "case" in ctx.replay_in.get("replay", {}):
        c = ctx.replay_in["replay"]["case"]
        cases.append(("replay", _tup(c["s"]), _tup(c["t"]), [(v, _tup(u_)) for v, u_ in c["sigma0"]]))
    n = ctx.n(5000, 400000)
    prev_results = []
    built = []
    skipped = 0
    n_gen = 0
    while cases or n_gen < n:
        if cases:
            origin, s, t, sg0 = cases.pop(0)
        else:
            origin = "gen"
            if rng.random() < 0.02:
                gen = Gen(rng)
            s, t, sg0 = gen.case()
            if prev_results and rng.random() < 0.15:
                sg0 = rng.choice(prev_results)  # a prior produced by the real unify earlier
            if not acyclic(sg0):
                skipped += 1
                continue
        try:
            real_objs, canon = build_case(s, t, sg0)
        except InternalGuppyError:
            skipped += 1
            continue
        if origin == "gen":
            n_gen += 1
        rr = real_unify(*real_objs)
        built.append((origin, real_objs, canon, rr))
        if rr[0] == "ok" and 0 < len(rr[1]) <= 6 and len(prev_results) < 200 and origin == "gen":
            prev_results.append(rr[1])
    ctx.bump("skipped-unbuildable-or-cyclic-prior", skipped)

    # ---- unify requests
    lines = []
    for origin, real_objs, (cs, ct, csg), rr in built:
        lines.append(f"(unify {env_of([cs, ct] + [u_ for _, u_ in csg] + [('v', v) for v, _ in csg])} {sx(cs)} {sx(ct)} {sx_subst(csg)})")
    # ---- substitution / linearity requests
    aux = []  # (kind, line, real, oracle)
    gen2 = Gen(rng, explicit_comptime=False)
    m = ctx.n(1500, 60000)
    for i in range(m):
        sg = gen2.prior([])
        if not acyclic(sg) or any(has_generic_fn(u_) for _, u_ in sg):
            continue  # rank-1 discipline: variables are never solved to generic function types
        t = gen2.ty(rng.choice([1, 2, 3]))
        for v, _ in sg:
            if rng.random() < 0.5:
                pos = [p for p in gen2.positions(t) if gen2.sort_of(gen2.at(t, p)) == ("t" if v % 2 == 0 else "c")]
                if pos:
                    t = gen2.put(t, rng.choice(pos), ("v", v))
        if explicit_comptime(t) or any(explicit_comptime(u_) for _, u_ in sg):
            continue  # FunctionType.transform drops explicit comptime args (see UNMODELLED)
        try:
            T = build(t)
            SG = {build(("v", v)): build(u_) for v, u_ in sg}
        except InternalGuppyError:
            continue
        ct = enc(T)
        csg = [(enc(k)[1], enc(v)) for k, v in SG.items()]
        d = dict(csg)
        try:
            one = enc(T.substitute(SG))
            x = T
            for _ in range(len(SG)):
                x = x.substitute(SG)
            star = enc(x)
            lin = "true" if T.linear else "false"
            r_one, r_star = sx(one), sx(star)
        except Exception as e:  # noqa: BLE001
            r_one = r_star = lin = "exception:" + type(e).__name__
        o_one = sx(o_once({v: u_ for v, u_ in csg}, ct))
        o_star = sx(o_full(d, ct))
        o_lin = "true" if o_linear(ct) else "false"
        aux.append(("apply", f"(apply {sx_subst(csg)} {sx(ct)})", r_one, o_one))
        aux.append(("star", f"(star {sx_subst(csg)} {sx(ct)})", r_star, o_star))
        aux.append(("lin", f"(lin {env_of([ct])} {sx(ct)})", lin, o_lin))

    # ---- check_type_against requests (generic function value against an expected function type)
    cta = []
    gen3 = Gen(rng, explicit_comptime=False)
    pending = [(_tup(c["cta"]["exp"]), _tup(c["cta"]["act"]), c["cta"]["kinds"]) for _fn, c in _corpus_other("cta")]
    if ctx.replay_in and "cta" in ctx.replay_in.get("replay", {}):
        c = ctx.replay_in["replay"]["cta"]
        pending.append((_tup(c["exp"]), _tup(c["act"]), c["kinds"]))
    n_cta = ctx.n(1500, 40000)
    while pending or n_cta > 0:
        if pending:
            exp, act, kinds = pending.pop(0)
        else:
            n_cta -= 1
            exp, act, kinds = gen_cta(gen3)
        try:
            EXP, ACT = build(exp), build(act)
        except InternalGuppyError:
            continue
        cexp, cact = enc(EXP), enc(ACT)
        real_cta.inst = None
        real = real_cta(ACT, EXP, kinds)
        rinst = (real_cta.inst, getattr(real_cta, "subst", None))
        fresh = [2 * (FRESH_BASE + j) + (1 if k == "c" else 0) for j, k in enumerate(kinds)]
        tfresh = [f for f in fresh if f % 2 == 0]
        line = f"(cta {env_of([cexp, cact], tfresh, tfresh)} 0 {sx(cexp)} ({' '.join(map(str, fresh))}) {sx(cact)})"
        cta.append((line, cexp, cact, kinds, real, rinst))

    replies = ctx.driver(DRIVER, lines + [a[1] for a in aux] + [c[0] for c in cta])
    model_u, model_a = replies[: len(lines)], replies[len(lines): len(lines) + len(aux)]
    model_c = replies[len(lines) + len(aux):]

    for (origin, real_objs, (cs, ct, csg), rr), line, m_ in zip(built, lines, model_u):
        real = show_real(rr)
        verdict, th = oracle(cs, ct, csg)
        nontriv = bool(csg) or (bool(o_vars(cs)) and bool(o_vars(ct)))
        ctx.count(line, nontrivial=nontriv, kind=f"unify:{rr[0]}:oracle-{verdict}" + (":" + oracle.why if verdict != "ok" else ""))
        case = {"s": cs, "t": ct, "sigma0": csg}
        key = "input:" + line
        bad = judge_unify(cs, ct, csg, rr, verdict, th)
        if bad:
            ctx.violation(key, f"{bad}: unify({sx(cs)}, {sx(ct)}, {sx_subst(csg)}) = {real}",
                          {"case": case, "line": line, "real": real, "oracle": verdict, "model": m_, "origin": origin})
        if real != m_:
            ctx.broke(f"correspondence Model/Unify.lean vs ty.py unify on `{line}` (real={real} model={m_})")
        lit = literal.get((cs, ct, tuple(csg))) if origin.startswith("corpus:") else None
        if lit is not None:
            # the property's literal reading of the flag clause (Spec `linEq`): identical after instantiation,
            # flags compared only where the instantiated input type is linear
            if "theta" in lit and rr[0] == "fail":
                thd = {v: _tup(u_) for v, u_ in lit["theta"]}
                S, T = o_full(thd, cs), o_full(thd, ct)
                solves = all(o_erase(o_full(thd, ("v", v))) == o_erase(o_full(thd, u_)) for v, u_ in csg)
                if solves and o_erase(S) == o_erase(T) and flags_agree(S, T, strict=False):
                    ctx.violation("literal-complete:" + line,
                                  f"flag rule, literal reading: unify returned None although the assignment {sx_subst(sorted(thd.items()))} "
                                  f"makes both sides identical up to flags of non-linear inputs: unify({sx(cs)}, {sx(ct)}, {sx_subst(csg)})",
                                  {"case": case, "line": line, "real": real, "theta": lit["theta"]})
            if lit.get("sound") and rr[0] == "ok":
                d = dict(rr[1])
                S, T = o_full(d, cs), o_full(d, ct)
                if o_erase(S) == o_erase(T) and not flags_agree(S, T, strict=False):
                    ctx.violation("literal-sound:" + line,
                                  f"flag rule, literal reading: the returned substitution leaves a linear input with different flags: "
                                  f"unify({sx(cs)}, {sx(ct)}, {sx_subst(csg)}) = {real}",
                                  {"case": case, "line": line, "real": real})

    for (line, cexp, cact, kinds, real, rinst), m_ in zip(cta, model_c):
        verdict, th, unq, fresh = oracle_cta(cexp, cact, kinds)
        ctx.count(line, nontrivial=bool(o_vars(cexp)), kind=f"cta:{real.split(' ')[0]}:oracle-{verdict}")
        bad = None
        if real == "check-inst:const-type":
            # check_inst (unmodelled) rejected a constant whose type is not the parameter's type (nat): legitimate only if
            # the principal instantiation really contains such a constant
            ok_skip = verdict == "accept" and any(th[f][0] == "cv" and th[f][1] != 0 for f in fresh if f % 2 == 1)
            if not ok_skip:
                ctx.violation("input:" + line, f"check_inst rejected a well-typed instantiation: check_type_against(act={sx(cact)}, exp={sx(cexp)})",
                              {"line": line, "real": real, "oracle": verdict, "model": m_, "cta": {"exp": cexp, "act": cact, "kinds": kinds}})
            continue
        if real.startswith("exception") or real.startswith("error:"):
            bad = f"check_type_against raised {real}"
        elif verdict == "accept" and not real.startswith("ok "):
            bad = "generic function rejected although its most general instantiation is variable-free and fits"
        elif verdict == "reject" and real.startswith("ok "):
            bad = "generic function accepted although no variable-free principal instantiation fits"
        elif verdict == "accept":
            # the returned instantiation is the principal one and the returned substitution makes exp fit it
            want = [o_erase(th[f]) for f in fresh]
            r_inst, r_subst = rinst
            one = {f: a for f, a in zip(fresh, r_inst)}
            if [o_erase(a) for a in r_inst] != want:
                bad = "instantiation differs from the principal one (" + " ".join(map(sx, want)) + ")"
            elif o_erase(o_once(dict(r_subst), cexp)) != o_erase(o_once(one, unq)):
                bad = "the returned substitution (applied once, as callers do) does not make the expected type fit the instantiated function type"
            elif any(v in fresh for _, u_ in r_subst for v in o_vars(u_)):
                bad = "the returned substitution mentions the callee's internal inference variables"
        if bad:
            ctx.violation("input:" + line, f"{bad}: check_type_against(act={sx(cact)}, exp={sx(cexp)}) = {real}",
                          {"line": line, "real": real, "oracle": verdict, "model": m_,
                           "cta": {"exp": cexp, "act": cact, "kinds": kinds}})
        if real != m_:
            ctx.broke(f"correspondence Model/Unify.lean checkAgainst vs check_type_against on `{line}` (real={real} model={m_})")

    # ---- generated generic-call programs through the real check()
    gc_tie(ctx)
    nonsemantic_tie(ctx)

    # ---- whole programs from the corpus (generic calls end to end)
    import feed
    for fn, c in _corpus_other("program"):
        m = feed.load(c["program"])
        try:
            out = feed.check_outcome(getattr(m, c.get("entry", "main")))
        finally:
            feed.unload(m)
        got = out[0] if out[0] != "user" else "user:" + feed.err_class(out[1])
        ctx.count("program:" + c["id"], nontrivial=True, kind="program:" + got)
        if got != c["expect"]:
            ctx.violation("program:" + c["id"], f"generic call program `{c['id']}`: checker outcome {got}, expected {c['expect']}"
                          + (f" ({type(out[1]).__name__})" if out[1] is not None else ""),
                          {"program": c["program"], "got": got, "expect": c["expect"]})

    for (kind, line, real, orc), m_ in zip(aux, model_a):
        ctx.count(line, nontrivial=False, kind=kind)
        if real != orc:
            ctx.violation("input:" + line, f"{kind}: real={real} expected={orc} on `{line}`",
                          {"line": line, "real": real, "oracle": orc, "model": m_})
        if real != m_:
            ctx.broke(f"correspondence Model/Unify.lean {kind} vs real on `{line}` (real={real} model={m_})")


if __name__ == "__main__":
    vlib.main(sys.modules[__name__])
