"""C11: the pool of definitions, the history operations on the REAL engine, and the fresh-process baseline.

Run as a script:  c11_pool.py fresh <target> [<target> ...]   -> one JSON line {target: observation}
(each target observed in this fresh interpreter; callers pass ONE target for a truly fresh baseline)."""
from __future__ import annotations

import json
import os
import sys

HERE = os.path.dirname(os.path.abspath(__file__))
sys.path.insert(0, os.path.dirname(HERE))
sys.path.insert(0, HERE)
import feed  # noqa: E402,F401  (installs the bootstrap shim before anything imports guppylang)

POOL_SRC = '''
import guppylang
from guppylang.std.quantum import qubit, h, cx, measure, discard
guppylang.enable_experimental_features()

@guppy.struct
class S:
    a: int
    q: qubit

    @guppy
    def geta(self: "S") -> int:
        return self.a

@guppy.struct
class P:
    x: int
    y: float

@guppy
def f(x: int) -> int:
    return x + 100

@guppy
def plain(x: int) -> int:
    return f(x) + 1

@guppy
def one_tmp(a: int, b: int, c: bool) -> int:
    return a if c else b

@guppy
def two_tmp(a: int, b: int, c: bool, e: bool) -> int:
    return (a if c else b) + (b if e else a)

@guppy
def three_tmp(a: int, b: int, c: bool, e: bool) -> int:
    return (a if c else b) + (b if e else a) + (1 if c and e else 2)

@guppy
def rec_nc(x: int) -> int:
    def f(n: int) -> int:
        if n > 0:
            return f(n - 1)
        return n
    return f(x)

@guppy
def rec_cap(x: int) -> int:
    def w(n: int) -> int:
        if n > 0:
            return w(n - 1) + x
        return x
    return w(x) + w(1)

@guppy
def rec_cap2(x: int, y: float) -> float:
    def outer(n: int) -> float:
        def inner(k: int) -> float:
            if k > x:
                return inner(k - 1) + y
            return y
        if n > 0:
            return outer(n - 1) + inner(n)
        return y
    return outer(x)

@guppy
def cap(x: int) -> int:
    def k(n: int) -> int:
        return n + x
    return k(2)

@guppy
def gen[T](x: T @owned) -> T:
    return x

@guppy
def gen2[T, U](x: T @owned, y: U @owned) -> tuple[U, T]:
    return y, x

@guppy
def use_gen(x: int, y: float) -> tuple[float, int]:
    a = gen(x)
    b = gen(y)
    q = gen(qubit())
    discard(q)
    return gen2(a, b)

@guppy
def use_struct(x: int) -> int:
    s = S(x, qubit())
    h(s.q)
    r = s.geta()
    t = P(r, 1.5)
    i = 0
    while i < x:
        t = P(t.x + 1, t.y)
        i += 1
    discard(s.q)
    return t.x

@guppy
def qbranch(c: bool) -> bool:
    q = qubit()
    if c:
        h(q)
        r = qubit()
        cx(q, r)
        discard(r)
    return measure(q)

@guppy
def uses_f(x: int) -> int:
    return f(x) * 2

@guppy.comptime
def ct(x: int) -> int:
    y = x
    for _ in [0, 1, 2]:
        y = y + plain(y)
    return y

@guppy.comptime
def ct_q(n: int) -> None:
    qs = [qubit() for _ in [0, 1, 2]]
    for q in qs:
        h(q)
    for q in qs:
        discard(q)

@guppy
def use_ct(x: int) -> int:
    ct_q(x)
    return ct(x) + 1

@guppy.comptime
def boom(x: int) -> int:
    y = x + 1
    q = qubit()
    raise ValueError("boom")

@guppy.comptime
def ct_badret(x: int) -> int:
    return 1.5

@guppy
def use_boom(x: int) -> int:
    return boom(x)

@guppy
def cexpr(x: int) -> int:
    return comptime(plain(1))

@guppy
def bad_type(x: int) -> int:
    return x + 1.5 > 3

@guppy
def bad_undef(x: int) -> int:
    if x > 0:
        y = 1
    return y

@guppy
def bad_lin(x: int) -> int:
    q = qubit()
    return x

@guppy
def bad_callee(x: int) -> int:
    return bad_type(x) + plain(x)

@guppy
def bad_two(x: int) -> int:
    return bad_type(x) + bad_undef(x)

@guppy
def user_bad(x: int) -> int:
    return bad_type(x)

@guppy
def pyarr(i: int) -> int:
    xs = comptime([1, 2, 3])
    ys = comptime([4, 5])
    return xs[i] + ys[0]

@guppy
def compr(n: int) -> int:
    xs = array(i + n for i in range(4))
    s = 0
    for x in xs:
        s += x
    return s

@guppy
def bad_nested(x: int) -> int:
    def g(n: int) -> int:
        if n > 0:
            return g(n - 1) + zz
        return n
    return g(x)

@guppy
def bad_sig(x: "nosuchtype") -> int:
    return 1

@guppy
def uses_bad_sig(x: int) -> int:
    return bad_sig(x) + 1

@guppy
def bad_overwrite(x: int) -> int:
    def plain(n: int) -> int:
        if n > 0:
            return plain(n - 1)
        return n + "a"
    return plain(x)
'''

TARGETS = [
    "f", "plain", "one_tmp", "two_tmp", "three_tmp", "rec_nc", "rec_cap", "rec_cap2", "cap", "gen", "use_gen",
    "use_struct", "qbranch", "uses_f", "ct", "ct_q", "use_ct", "boom", "ct_badret", "use_boom", "cexpr",
    "bad_type", "bad_undef", "bad_lin", "bad_callee", "bad_two", "user_bad", "bad_nested", "bad_overwrite",
    "gen2", "pyarr", "compr", "bad_sig", "uses_bad_sig", "S", "P",
]
#: definitions the Lean session model is run on (functions; struct-related ones are real-engine-only)
MODEL_TARGETS = [t for t in TARGETS if t not in ("S", "P", "use_struct")]
FAILING = {"boom", "ct_badret", "use_boom", "cexpr", "bad_type", "bad_undef", "bad_lin", "bad_callee",
           "bad_two", "user_bad", "bad_nested", "bad_overwrite", "bad_sig", "uses_bad_sig"}

_mod = None


def pool():
    """load the pool module once per interpreter"""
    global _mod
    if _mod is None:
        import feed
        _mod = feed.load(POOL_SRC, name="_verif_c11_pool")
    return _mod


def _err_obs(e: BaseException) -> dict:
    """canonical observation of a failure: exception class, diagnostic class, rendered text"""
    import re
    from guppylang_internals.error import GuppyError
    d = getattr(e, "error", None)
    txt = ""
    if isinstance(e, GuppyError) and d is not None:
        try:
            from guppylang_internals.diagnostic import DiagnosticsRenderer
            from guppylang_internals.engine import DEF_STORE
            r = DiagnosticsRenderer(DEF_STORE.sources)
            r.render_diagnostic(d)
            txt = "\n".join(r.buffer)
        except BaseException as e2:  # noqa: BLE001
            txt = "render-failed:" + type(e2).__name__
    else:
        txt = str(e)
    # memory addresses / def ids are session numbering
    txt = re.sub(r"0x[0-9a-f]+", "0x?", txt)
    txt = re.sub(r"DefId\(id=\d+\)", "DefId(?)", txt)
    return {"kind": "error", "exc": type(e).__name__, "diag": type(d).__name__ if d is not None else "", "text": txt}


def op_check(name: str) -> dict:
    m = pool()
    try:
        getattr(m, name).check()
        return {"kind": "ok"}
    except BaseException as e:  # noqa: BLE001
        return _err_obs(e)


def op_lower(name: str, full: bool = False) -> dict:
    """the `compile d` operation: ENGINE.check (reset + check) then CompilerContext.compile"""
    import c11_canon
    import feed
    m = pool()
    try:
        g = feed.lower(getattr(m, name))
    except BaseException as e:  # noqa: BLE001
        return _err_obs(e)
    c = c11_canon.canon(g.hugr)
    o = {"kind": "hugr", "digest": c11_canon.digest(c), "nodes": len(c["nodes"])}
    if full:
        o["canon"] = c
    return o


def op_relower(name: str) -> dict:
    """lower again from the engine's CURRENT checked cache (no reset, no re-check): exercises the in-place
    mutations (`insert_return_vars` guard, `input_tys.append`).  'absent' if not in the cache."""
    import hugr.build.function as hf
    import c11_canon
    from guppylang_internals.compiler.core import CompilerContext
    from guppylang_internals.engine import ENGINE
    m = pool()
    d = getattr(m, name)
    if d.id not in ENGINE.checked:
        return {"kind": "absent"}
    try:
        g = hf.Module()
        CompilerContext(g).compile(ENGINE.checked[d.id])
    except BaseException as e:  # noqa: BLE001
        return _err_obs(e)
    c = c11_canon.canon(g.hugr)
    return {"kind": "hugr", "digest": c11_canon.digest(c), "nodes": len(c["nodes"])}


def session_probe() -> dict:
    """cheap observations of state that survives `reset()`"""
    import guppylang_internals.cfg.builder as B
    from guppylang_internals.engine import DEF_STORE
    from guppylang_internals.tracing.state import tracing_active
    m = pool()
    return {"tracing_active": tracing_active(),
            "pool_names_rebound": sorted(n for n in TARGETS if getattr(m, n, None) is not _orig().get(n)),
            "raw_defs": len(DEF_STORE.raw_defs)}


_orig_defs = None


def _orig():
    global _orig_defs
    if _orig_defs is None:
        m = pool()
        _orig_defs = {n: getattr(m, n) for n in TARGETS}
    return _orig_defs


def run_op(op: list) -> dict:
    kind, name = op
    _orig()
    return {"check": op_check, "lower": op_lower, "relower": op_relower}[kind](name)


# --------------------------------------------------------------------------- instrumentation (harness side)
class PeekCounter:
    """drop-in for `cfg.builder.tmp_vars` whose position can be read (and reset)"""

    def __init__(self, start: int = 0) -> None:
        self.n = start

    def __iter__(self):
        return self

    def __next__(self) -> str:
        v = f"%tmp{self.n}"
        self.n += 1
        return v

    def reset(self) -> None:
        """what `CompilationEngine.check` calls since the numbering is restarted per session"""
        self.n = 0


COUNTER: PeekCounter | None = None


def install_counter() -> PeekCounter:
    """replace the module-level generator by a readable counter in every module that imported it by name"""
    global COUNTER
    import feed  # noqa: F401
    import guppylang_internals.cfg.builder  # noqa: F401
    import guppylang_internals.checker.expr_checker  # noqa: F401
    import guppylang_internals.checker.stmt_checker  # noqa: F401
    import guppylang_internals.compiler.expr_compiler  # noqa: F401
    import guppylang_internals.tracing.function  # noqa: F401
    if COUNTER is None:
        COUNTER = PeekCounter(0)
        import types
        n = 0
        for name, mod in list(sys.modules.items()):
            if name.startswith("guppylang") and isinstance(mod, types.ModuleType) and "tmp_vars" in mod.__dict__:
                mod.__dict__["tmp_vars"] = COUNTER
                n += 1
        assert n >= 5, n
    return COUNTER


def _nested_defs(cfg):
    """CheckedNestedFunctionDef nodes inside a checked CFG (recursively)"""
    import ast
    from guppylang_internals.nodes import CheckedNestedFunctionDef
    out = []
    for bb in cfg.bbs:
        for st in bb.statements:
            for n in ast.walk(st):
                if isinstance(n, CheckedNestedFunctionDef):
                    out.append(n)
                    out.extend(_nested_defs(n.cfg))
    return out


def _tmp_rows(cfg, base: int):
    """%tmp names (relative to `base`) in every block-input row that compile_bb sorts"""
    rows = []
    for bb in cfg.bbs:
        if bb is cfg.entry_bb or bb.is_exit:
            continue
        r = [int(str(v)[4:]) - base for v in bb.sig.input_row if str(v).startswith("%tmp") and str(v)[4:].isdigit()]
        if r:
            rows.append(r)
    for nd in _nested_defs(cfg):
        pass  # nested CFGs are reached through _nested_defs by the caller
    return rows


def _all_cfgs(cfg):
    return [cfg] + [nd.cfg for nd in _nested_defs(cfg)]


def _static_deps():
    """module-level pool names each pool function's body refers to (ast; locals, nested defs and the
    inside of comptime(...) excluded), whether it has `comptime(<call>)`, number of return values"""
    import ast
    tree = ast.parse(POOL_SRC)
    names = set(MODEL_TARGETS)
    info = {}
    for fd in tree.body:
        if not isinstance(fd, ast.FunctionDef) or fd.name not in names:
            continue
        local = {a.arg for a in fd.args.args}
        for n in ast.walk(fd):
            if isinstance(n, ast.FunctionDef) and n is not fd:
                local.add(n.name)
            if isinstance(n, ast.Name) and isinstance(n.ctx, ast.Store):
                local.add(n.id)
        inside_ct = set()
        ct_call = False
        for n in ast.walk(fd):
            if isinstance(n, ast.Call) and isinstance(n.func, ast.Name) and n.func.id == "comptime":
                for m in ast.walk(n):
                    inside_ct.add(id(m))
                if n.args and isinstance(n.args[0], ast.Call):
                    ct_call = True
        deps = []
        for n in ast.walk(fd):
            if isinstance(n, ast.Name) and isinstance(n.ctx, ast.Load) and id(n) not in inside_ct \
                    and n.id not in local and n.id not in deps and (n.id in names or n.id == "zz"):
                deps.append(n.id)
        r = fd.returns
        nret = 0 if (isinstance(r, ast.Constant) and r.value is None) else \
            (len(r.slice.elts) if isinstance(r, ast.Subscript) and isinstance(r.value, ast.Name) and r.value.id == "tuple"
             and isinstance(r.slice, ast.Tuple) else 1)
        info[fd.name] = {"deps": deps, "ct_call": ct_call, "nret": nret}
    return info


def _defid_position() -> int:
    """next value of the session-global `DefId._ids` counter, read without drawing from it"""
    import re
    from guppylang_internals.definition.common import DefId
    m = re.match(r"count\((\d+)", repr(DefId._ids))
    if not m:  # not an itertools.count any more: fall back to drawing one id
        return DefId.fresh().id
    return int(m.group(1))


def _nested_in_order(fd) -> list:
    """nested function definitions of `fd` in the order `check_nested_func_def` meets them (pre-order)"""
    import ast
    out = []

    def go(node):
        for ch in ast.iter_child_nodes(node):
            if isinstance(ch, ast.FunctionDef):
                out.append(ch)
            go(ch)
    go(fd)
    return out


def calibrate() -> list[dict]:
    """T-obj: the abstract pool (one RawDef per MODEL_TARGETS entry) extracted from the real objects:
    per-definition `get_checked` on an empty cache gives tmps / rows / nested / ill-typedness;
    compile-time tmps come from whole lowerings, attributed bottom-up."""
    from guppylang_internals.definition.traced import RawTracedFunctionDef
    from guppylang_internals.engine import DEF_STORE, ENGINE
    from guppylang_internals.error import GuppyError
    ctr = install_counter()
    m = pool()
    st = _static_deps()
    idx = {n: i for i, n in enumerate(MODEL_TARGETS)}
    extra_names: dict[str, int] = {}

    def name_id(x: str) -> int:
        if x in idx:
            return idx[x]
        return extra_names.setdefault(x, len(MODEL_TARGETS) + len(extra_names))

    out = []
    for t in MODEL_TARGETS:
        d = _orig()[t]
        raw = DEF_STORE.raw_defs[d.id]
        comptime = isinstance(raw, RawTracedFunctionDef)
        ENGINE.reset()
        bad_sig = False
        try:
            ENGINE.get_parsed(d.id)
        except GuppyError:
            bad_sig = True  # the signature does not parse
        ENGINE.reset()
        if bad_sig:
            out.append({"name": t, "deps": [name_id(x) for x in st[t]["deps"]], "ill": 0, "ct_call": 0,
                        "nret": st[t]["nret"], "tmps": 0, "ctmps": 0, "rows": [], "nested": [], "comptime": int(comptime),
                        "raises": 0, "bad_sig": 1})
            continue
        b0 = ctr.n
        ids0 = _defid_position()
        ill = False
        checked = None
        try:
            checked = ENGINE.get_checked(d.id)
        except GuppyError:
            ill = True
        tmps = ctr.n - b0
        reached = _defid_position() - ids0
        rows, nested = [], []
        if checked is not None and hasattr(checked, "cfg"):
            for c in _all_cfgs(checked.cfg):
                rows.extend(_tmp_rows(c, b0))
            for nd in _nested_defs(checked.cfg):
                rec = nd.name in nd.cfg.live_before[nd.cfg.entry_bb]
                nested.append([name_id(nd.name), 1 if rec else 0, len(nd.captured)])
        elif ill and not comptime:
            # nested definitions of an ill-typed body: only those whose check was REACHED before the failure
            # (`check_nested_func_def` draws exactly one DefId each; e.g. an undefined name used by a nested function
            # in the entry block is reported before the nested function is looked at), in program order, read off
            # the source
            import ast
            fd = next(f for f in ast.parse(POOL_SRC).body if isinstance(f, ast.FunctionDef) and f.name == t)
            for n in _nested_in_order(fd)[:max(0, reached)]:
                rec = any(isinstance(x, ast.Name) and x.id == n.name for b in n.body for x in ast.walk(b))
                nested.append([name_id(n.name), 1 if rec else 0, 0])
        ct_call = st[t]["ct_call"]
        out.append({"name": t, "deps": [name_id(x) for x in st[t]["deps"]], "ill": int(ill and not ct_call),
                    "ct_call": int(ct_call), "nret": st[t]["nret"], "tmps": tmps, "ctmps": 0, "rows": rows,
                    "nested": nested, "comptime": int(comptime), "raises": 0, "bad_sig": 0})
    ENGINE.reset()
    by = {o["name"]: o for o in out}

    def closure(t, seen):
        for x in by[t]["deps"]:
            if x < len(MODEL_TARGETS):
                n = MODEL_TARGETS[x]
                if n not in seen:
                    seen.add(n)
                    closure(n, seen)
        return seen

    done: dict[str, int] = {}
    for _ in range(len(out)):
        for o in out:
            t = o["name"]
            if t in done:
                continue
            cl = closure(t, set()) - {t}
            if not cl <= set(done):
                continue
            # names drawn by a whole successful `check` beyond the pool definitions involved belong to library
            # functions written in Guppy (Range.__next__ ...) that are re-checked in every session: attribute
            # them to this definition
            # (measured from 0: `check` restarts the numbering since `fix: restart the numbering of temporary
            # variables…`; on a tree without the restart starting from 0 is just as good)
            ctr.n = b0 = 0
            if op_check(t)["kind"] == "ok":
                o["tmps"] = (ctr.n - b0) - sum(by[x]["tmps"] for x in cl)
            ctr.n = b0 = 0
            r = op_lower(t)
            total = ctr.n - b0
            if r["kind"] == "hugr":
                check_part = o["tmps"] + sum(by[x]["tmps"] for x in cl)
                o["ctmps"] = total - check_part - sum(done[x] for x in cl)
                done[t] = o["ctmps"]
            else:
                if o["comptime"] and r["exc"] not in ("GuppyError", "GuppyTypeError"):
                    o["raises"] = 1
                    # names drawn before the raise are attributed to the definition itself
                    o["ctmps"] = total - o["tmps"] - sum(by[x]["tmps"] for x in cl)
                done[t] = o["ctmps"]
    for o in out:  # a broken engine can make the arithmetic above go negative; the model takes naturals
        o["tmps"], o["ctmps"] = max(0, o["tmps"]), max(0, o["ctmps"])
        o["rows"] = [[max(0, x) for x in r] for r in o["rows"]]
    return out


def state_probe() -> dict:
    """projection of the REAL session state that the model state is compared with"""
    from guppylang_internals.compiler.core import is_return_var
    from guppylang_internals.engine import DEF_STORE, ENGINE
    from guppylang_internals.tracing.state import tracing_active
    m = pool()
    ids = {_orig()[t].id: i for i, t in enumerate(MODEL_TARGETS)}
    chk = []
    for did, cd in ENGINE.checked.items():
        if did in ids:
            ins, ext = 0, 0
            if hasattr(cd, "cfg"):
                ins = 1 if any(is_return_var(str(v)) for v in cd.cfg.exit_bb.sig.input_row) else 0
                for nd in _nested_defs(cd.cfg):
                    rec = nd.name in nd.cfg.live_before[nd.cfg.entry_bb]
                    declared = len(nd.captured) + len(nd.ty.inputs) + (1 if rec and nd.captured else 0)
                    ext += len(nd.cfg.input_tys) - declared
            chk.append(f"{ids[did]}/{ins}/{ext}")
    rebound = [n for n in TARGETS if getattr(m, n, None) is not _orig().get(n)]
    return {"tmp": COUNTER.n if COUNTER else -1, "tracing": int(tracing_active()), "rebound": rebound,
            "store": len(DEF_STORE.raw_defs), "checked": " ".join(chk), "parsing": len(getattr(ENGINE, "parsing", ()))}


def real_sorted_rows(name: str) -> list[list[int]] | None:
    """what the REAL `sort_vars` makes of the %tmp names of every sorted row of `name`'s cached CFG
    (relative to the smallest %tmp of that definition)"""
    from guppylang_internals.compiler.cfg_compiler import sort_vars
    from guppylang_internals.engine import ENGINE
    d = _orig()[name]
    cd = ENGINE.checked.get(d.id)
    if cd is None or not hasattr(cd, "cfg"):
        return None
    names = []
    for c in _all_cfgs(cd.cfg):
        for bb in c.bbs:
            if bb is c.entry_bb or bb.is_exit:
                continue
            srt = [str(v) for v in sort_vars(bb.sig.input_row)]
            r = [int(x[4:]) for x in srt if x.startswith("%tmp") and x[4:].isdigit()]
            if r:
                names.append(r)
    if not names:
        return []
    # base: first %tmp drawn for this CFG = min over everything drawn while it was built; rows only hold
    # the live ones, so use the calibrated offset of the smallest one
    return names


# --------------------------------------------------------------------------- edited source files (round 5)
#: one file name, the same in every interpreter, whose CONTENT changes between operations (a script that is edited and
#: run again, importlib.reload, a notebook front end that reuses file names)
EDIT_FILE = "/verif-c11/edited_project/algo.py"
EDIT_NAMES = ["step", "helper", "tail", "main"]
EDIT_OPS = ["+", "*", "-", "&", "//", "|"]
_edit_counter = 0


def edit_source(v: dict) -> str:
    """text of one version of the edited file.  v = {shift, op, k, arity, bad, extra}"""
    import feed
    lines = [feed.PRELUDE.rstrip("\n")]
    lines += [f"# edit {i}" for i in range(v.get("shift", 0))]
    rhs = "1.5" if v.get("bad") else str(v.get("k", 1))
    lines += ["", "@guppy", "def step(x: int) -> int:", f"    return x {v.get('op', '+')} {rhs}", ""]
    if v.get("arity", 1) == 2:
        lines += ["@guppy", "def helper(x: int, y: int) -> int:", "    return x // y", ""]
    else:
        lines += ["@guppy", "def helper(x: int) -> int:", "    return x - 3", ""]
    if v.get("extra"):
        lines += ["@guppy", "def tail(x: int) -> int:", f"    return x + {v.get('k', 1) + 6}", ""]
    call = "helper(step(x), 7)" if v.get("arity", 1) == 2 else "helper(step(x))"
    if v.get("extra"):
        call += " + tail(x)"
    lines += ["@guppy", "def main(x: int) -> int:", f"    return {call}", ""]
    return "\n".join(lines)


def edit_load(v: dict):
    """(re-)execute the edited file with the content of version v: `inspect`/`linecache` report the new text for
    the file name, the code runs in a fresh module namespace"""
    global _edit_counter
    import linecache
    import types
    import feed  # noqa: F401
    src = edit_source(v)
    linecache.cache[EDIT_FILE] = (len(src), None, src.splitlines(True), EDIT_FILE)
    _edit_counter += 1
    m = types.ModuleType(f"_verif_c11_edit_{_edit_counter}")
    m.__file__ = EDIT_FILE
    sys.modules[m.__name__] = m
    exec(compile(src, EDIT_FILE, "exec"), m.__dict__)
    return m


def lower_obs(defn) -> dict:
    import c11_canon
    import feed
    try:
        g = feed.lower(defn)
    except BaseException as e:  # noqa: BLE001
        return _err_obs(e)
    c = c11_canon.canon(g.hugr)
    return {"kind": "hugr", "digest": c11_canon.digest(c), "nodes": len(c["nodes"])}


def check_obs(defn) -> dict:
    try:
        defn.check()
        return {"kind": "ok"}
    except BaseException as e:  # noqa: BLE001
        return _err_obs(e)


def edit_observe(v: dict) -> dict:
    """load version v and observe `check` and `compile` of every function it defines"""
    m = edit_load(v)
    out = {}
    for n in EDIT_NAMES:
        if hasattr(m, n):
            out["check:" + n] = check_obs(getattr(m, n))
            out["lower:" + n] = lower_obs(getattr(m, n))
    return out


if __name__ == "__main__":
    if sys.argv[1] == "history":
        # run a whole history in THIS fresh interpreter: argv[2] = JSON {"ops": [[kind, name]...], "target": name}
        import feed  # noqa: F401
        req = json.loads(sys.argv[2])
        if req.get("tmp_reset_before_target"):
            install_counter()
        outs = [run_op(o) for o in req["ops"]]
        if req.get("tmp_reset_before_target"):
            COUNTER.n = 0  # diagnosis only: is the %tmp counter the cause of a difference?
        print(json.dumps({"ops": outs, "final": run_op([req.get("observe", "lower"), req["target"]])}))
    elif sys.argv[1] == "edit":
        # argv[2] = JSON {"hist": [v, ...], "final": v}: every version of `hist` is loaded and all its functions are
        # checked and compiled, then `final` is loaded and observed (hist = []: a fresh session)
        req = json.loads(sys.argv[2])
        for v in req["hist"]:
            edit_observe(v)
        print(json.dumps({"final": edit_observe(req["final"])}))
    elif sys.argv[1] == "fresh":
        import feed  # noqa: F401  (bootstrap)
        out = {}
        for t in sys.argv[2:]:
            kind = "lower"
            if ":" in t:
                kind, t = t.split(":", 1)
            out[f"{kind}:{t}"] = run_op([kind, t])
        print(json.dumps(out))
