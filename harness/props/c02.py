"""C02 — Rejected programs fail with a located user error, never a crash (partial)."""
from __future__ import annotations

import json
import os
import sys

sys.path.insert(0, os.path.dirname(os.path.dirname(os.path.abspath(__file__))))
sys.path.insert(0, os.path.dirname(os.path.abspath(__file__)))
import vlib

PID = "C02"
THEOREM_MODULES = ["GuppyVerif.Props.C02"]
DRIVER = "C02"
RULE = (
    "search on the REAL check()+lowering, eight streams (the eighth: generated generic functions / structs with interleaved comptime, const and type parameters - declared, defined, PEP 695, comptime, overloaded, methods - each misused once so that the diagnostic prints their type; the seventh: every tests/error program and 12 % of the rejected mutants re-run in 13 placements/encodings of the source file - error on line 1, last line without newline, blank lines, CRLF, tabs, non-ASCII; imports and the compile call executed outside the file): (1) corpus witnesses of the crashes fixed so far; (2) every program of "
    "/repo/tests/error (run against /repo's sources, which the pinned suite never does) with experimental features on and off; "
    "(3) every test function of /repo/tests/integration turned into a module (accepted seeds); (4) AST mutants of (2)+(3): weird "
    "expressions, wrapped expressions/statements (branches, loops, nested defs, modifier blocks, unreachable code), renamed / "
    "undefined names, arity, operators, deleted/duplicated/swapped statements, inserted statement snippets, early returns, bad "
    "annotations and signatures, decorator swaps (@guppy / comptime / declare / flags), subscript/attribute/starred assignment "
    "targets, linear parameters used oddly, second-order mutants; (5) generated well-typed functions over a typed fragment and "
    "their mutants; (6) every std definition called with 30 odd argument lists in 6 syntactic forms.  Outcome must be ok, a "
    "GuppyError whose diagnostic renders and whose every span lies inside the program text (lines and UTF-8 byte columns), a "
    "GuppyComptimeError, or an exception raised by the user's own Python (module level / traced comptime body); anything "
    "else is a failing input.  A case is non-trivial when guppylang rejects it (or crashes); accepted and Python-rejected "
    "programs are counted as trivial.  Model tie: arity / visit_Name / entry-block name resolution on generated scopes "
    "against the real type_check_args, ExprSynthesizer.visit_Name and check()."
)
ASSUMPTIONS = [
    "the classification of outcomes in harness/props/c02_run.py: exceptions with no guppylang frame on the stack are CPython's own "
    "rejection of the module; exceptions raised while CPython executes a traced comptime body (innermost frame in the program, in "
    "tracing/builtins_mock.py, or a bad argument list of a call made by that body) are the user's Python; non-Guppy exceptions "
    "raised by an explicit `raise` statement of guppylang (TypeError / ValueError / AttributeError for misuse of the decorator API or "
    "of traced objects) are deliberate and only reported in the distribution; two failure signatures are the sandbox's dependency "
    "drift (qsystem extension without `Measure`, missing tket.circuit) and classed `env`",
    "ENGINE.compile is replaced by its own first half (check, then CompilerContext.compile of the checked definition): the rest "
    "of it needs a hugr API that the installed stack no longer has (DESIGN §1)",
    "span columns follow CPython's ast convention (UTF-8 byte offsets); a span is 'inside the program' when its lines exist and "
    "its byte columns do not exceed the byte length of their lines",
    "the inventory translator (c02_translate.py) recognises internal-failure sites syntactically: assert, raise of a class that is not "
    "a Guppy error, assert_never, zip(strict=True), subscripts of locals bound to dict displays/comprehensions; other ways to crash "
    "(attribute of None, list index, `.pop()` of an empty set, missing match case) are invisible to it and covered only by the search",
]
UNMODELLED = [
    "the checker as a whole: C02 itself is not a theorem; 113 of the 120 inventoried internal-failure sites have no theorem and are "
    "exercised only by the search (numbers in coverage.sites)",
    "type checking of arguments inside type_check_args (only its arity skeleton is modelled); types in visit_Name",
    "lowering (compiler/*), tracing (tracing/*), type parsing, std-library call checkers: search only",
    "decorator-time API misuse outside any @guppy function body (deliberate TypeError/ValueError are accepted)",
]
TRUSTED_EXTRA = [
    "harness/props/c02_translate.py (site inventory), c02_run.py (outcome classification, ENGINE.compile stand-in), c02_gen.py / "
    "c02_harvest.py (generators, harvest of /repo's tests)",
]
MANIFEST = {
    "level_text": "PARTIAL. C02 ITSELF IS ESTABLISHED BY SEARCH, NOT BY PROOF: 'no non-Guppy exception escapes check/compile, the diagnostic "
    "renders, its spans lie in the program' is tested on ~1.3*10^4 (quick) / ~2.8*10^5 (thorough) programs per run through the real "
    "check()+lowering: /repo's ~480 tests/error programs and ~560 integration tests harvested and run against /repo's own sources, AST "
    "mutants of them, generated functions and mutants, a std-call sweep, 13 source-file layouts, generated generic entities whose type "
    "the diagnostic must print; crash / unrenderable diagnostic / span outside the program / hang are failing inputs (23 such crashes "
    "were found this way and fixed in 20 commits; their witnesses are re-run first). Lean covers 7 OF THE 120 internal-failure sites: "
    "(a) inventory theorems over a table regenerated from /repo's sources on every run - every assert / raise InternalGuppyError / "
    "non-Guppy raise / assert_never / zip(strict) / local-dict subscript in the 8 anchored checker files is classified in the committed "
    "Spec (`sites_classified`, `id_lists_faithful`, `classification_functional`), so a NEW site breaks the proof; 7 sites are `guarded` by "
    "a theorem whose statement is about exactly that failure (C08 no_internal_error: 2 KeyError sites of check_rows_match; C03 "
    "two_successors_have_pred: 3 branch_pred asserts; C02 typeCheckArgs_never_internal: the strict zip of type_check_args; C02 "
    "block_names_resolved: visit_Name's InternalGuppyError), each under that theorem's own hypotheses and model fragment; 113 are "
    "`unmodelled`; (b) component theorems, for all inputs, on small models of three checker components: `typeCheckArgs_never_internal` "
    "+ `typeCheckArgs_spec` + `zipStrict_internal_iff`, `visitName_internal_iff` + `block_names_resolved` + `succ_names_resolved` + "
    "`program_analysis_user_errors_only`, `rows_same_keys_partial` + `output_rows_match_acceptable`; the models are tied by "
    "correspondence to the real type_check_args / visit_Name / check() on generated inputs.",
    "level_note": "The theorems cover 3 small components and a syntactic inventory; they say nothing about the other 113 internal sites, "
    "about crashes that are not syntactically recognisable sites (AttributeError on None, IndexError, set.pop), about lowering or tracing. "
    "For those the evidence is the search only (sampling). `guarded` means a theorem about a *model* of the guarding mechanism exists, "
    "under that theorem's own hypotheses (e.g. C03's expression fragment).",
    "technique": "Lean 4 decide over a site table regenerated from source (T-src) + induction proofs on small Except-models (T-run tie) + "
    "large differential crash search on the real compiler (harvested tests, mutation, generation)",
    "design_ref": "DESIGN.md §5 C02",
    "ready": True,
}

GEN = os.path.join(vlib.LEAN, "GuppyVerif", "Gen", "C02InternalSites.lean")
CORPUS = os.path.join(vlib.VERIF, "corpus", "c02")
BAD = ("crash", "bad-diagnostic", "hang")


def translate(ctx):
    import bootstrap  # noqa: F401
    import c02_translate

    ss = c02_translate.sites()
    txt = c02_translate.render(ss)
    old = open(GEN).read() if os.path.exists(GEN) else None
    if old != txt:
        with open(GEN, "w") as f:
            f.write(txt)
    ctx._c02_sites = ss


# ------------------------------------------------------------------------------------------------ model correspondence
def _real_tca(n_inputs: int, n_params: int) -> str:
    """real type_check_args on n int literals against a function type with m int inputs"""
    import ast

    from guppylang_internals.ast_util import annotate_location
    from guppylang_internals.checker.core import Context, Globals, Locals
    from guppylang_internals.checker.expr_checker import type_check_args
    from guppylang_internals.error import GuppyError
    from guppylang_internals.tys.builtin import int_type
    from guppylang_internals.tys.ty import FuncInput, FunctionType, InputFlags, NoneType

    src = "f(" + ", ".join(str(i) for i in range(n_inputs)) + ")"
    call = ast.parse(src, mode="eval").body
    annotate_location(call, src, "<c02-tca>", 0)
    fty = FunctionType([FuncInput(int_type(), InputFlags.NoFlags) for _ in range(n_params)], NoneType())
    ctx = Context(Globals(None), Locals({}), {})
    try:
        args, _ = type_check_args(list(call.args), fty, {}, ctx, call)
        return f"ok {len(args)}"
    except GuppyError as e:
        d = e.error
        if type(d).__name__ == "WrongNumberOfArgsError":
            return f"user wrongNumberOfArgs {d.expected} {d.actual}"
        return "user " + type(d).__name__
    except BaseException:  # noqa: BLE001
        return "internal"


def _real_zip(n: int, m: int) -> str:
    try:
        return f"ok {len(list(zip(range(n), range(m), strict=True)))}"
    except ValueError:
        return "internal"


class _NameWorld:
    """real objects behind the model's name kinds"""

    def __init__(self):
        import feed
        self.m = feed.load(
            "@guppy\ndef vfun(a: int) -> int:\n    return a\n"
            "TV = guppy.type_var('TV')\n"
            "@guppy.struct\nclass SS:\n    a: int\n"
        )

    def scope(self, locals_, generic, globals_):
        from guppylang_internals.checker.core import Context, Globals, Locals, Variable
        from guppylang_internals.tys.builtin import int_type, nat_type
        from guppylang_internals.tys.param import ConstParam, TypeParam

        g = Globals(None)
        vals = {"v": self.m.vfun, "d": self.m.TV, "p": 42}
        g.f_globals = {f"n{x}": vals[k] for x, k in globals_}
        gen = {}
        for i, (x, is_const) in enumerate(generic):
            gen[f"n{x}"] = ConstParam(i, f"n{x}", nat_type()) if is_const else TypeParam(i, f"n{x}", True, True)
        loc = Locals({f"n{x}": Variable(f"n{x}", int_type(), None) for x in locals_})
        return Context(g, loc, gen)

    def visit_name(self, locals_, generic, globals_, x) -> str:
        import ast

        from guppylang_internals.ast_util import annotate_location
        from guppylang_internals.checker.expr_checker import ExprSynthesizer
        from guppylang_internals.error import GuppyError
        from guppylang_internals.nodes import GenericParamValue, GlobalName, PlaceNode

        src = f"n{x}"
        node = ast.parse(src, mode="eval").body
        annotate_location(node, src, "<c02-name>", 0)
        try:
            r, _ = ExprSynthesizer(self.scope(locals_, generic, globals_)).visit_Name(node)
        except GuppyError as e:
            d = e.error
            n = type(d).__name__
            if n == "ExpectedError":
                return f"user expectedValueGotType {x}" if str(d.got).startswith("type `") else f"user expectedValueGotDef {x}"
            if n == "VarNotDefinedError":
                return f"user varNotDefined {x}"
            return "user " + n
        except BaseException:  # noqa: BLE001
            return "internal"
        if isinstance(r, PlaceNode):
            return f"place {x}"
        if isinstance(r, GenericParamValue):
            return f"generic {x}"
        if isinstance(r, GlobalName):
            return f"global {x}"
        return "other " + type(r).__name__


def _fmt_scope(locals_, generic, globals_):
    j = lambda xs: ",".join(xs) if xs else "-"  # noqa: E731
    return (j([str(x) for x in locals_]), j([f"{x}:{1 if b else 0}" for x, b in generic]), j([f"{x}:{k}" for x, k in globals_]))


def _real_block(args, globals_, evs) -> str:
    """a straight-line function body made of name reads and assignments, through the real check()"""
    import c02_run

    kinds = {"v": "@guppy\ndef n{x}(a: int) -> int:\n    return a\n", "d": "n{x} = guppy.type_var('n{x}')\n", "p": "n{x} = 42\n"}
    src = "from guppylang import guppy\n" + "".join(kinds[k].format(x=x) for x, k in globals_)
    src += "@guppy\ndef main(" + ", ".join(f"n{a}: int" for a in args) + ") -> None:\n"
    body = [f"    n{x}\n" if t == "u" else f"    n{x} = 0\n" for t, x in evs] or ["    pass\n"]
    src += "".join(body) + "main.check()\n"
    o = c02_run.evaluate(src)
    if o["class"] == "ok":
        return "ok"
    if o["class"] == "user":
        return "user " + o["diag"]
    return o["class"] + ":" + o.get("sig", o.get("exc", ""))


def _tie_models(ctx):
    rng = ctx.rng
    reqs, reals, oracles, cases = [], [], [], []
    # arity: all pairs up to 6 + random larger
    pairs = [(n, m) for n in range(7) for m in range(7)] + [(rng.randrange(40), rng.randrange(40)) for _ in range(ctx.n(30, 300))]
    for n, m in pairs:
        reqs.append(f"tca {n} {m}")
        reals.append(_real_tca(n, m))
        oracles.append(("never-internal", None))
        cases.append(["tca", n, m])
        reqs.append(f"zip {n} {m}")
        reals.append(_real_zip(n, m))
        oracles.append(("any", None))
        cases.append(["zip", n, m])
    # visit_Name on random scopes over names 1..8
    world = _NameWorld()
    try:
        for _ in range(ctx.n(400, 4000)):
            names = list(range(1, 9))
            rng.shuffle(names)
            k1, k2, k3 = rng.randrange(4), rng.randrange(3), rng.randrange(4)
            # the three maps may overlap: the case order of visit_Name matters then
            locals_ = rng.sample(names, k1)
            generic = [(x, rng.random() < 0.5) for x in rng.sample(names, k2)]
            globals_ = [(x, rng.choice("vdp")) for x in rng.sample(names, k3)]
            x = rng.choice(names + [9])
            l, g, gl = _fmt_scope(locals_, generic, globals_)
            reqs.append(f"name {l} {g} {gl} {x}")
            reals.append(world.visit_name(locals_, generic, globals_, x))
            known = x in locals_ or any(x == y for y, _ in generic) or any(x == y for y, _ in globals_)
            oracles.append(("never-internal", None) if known else ("any", None))
            cases.append(["name", locals_, generic, globals_, x])
    finally:
        import feed
        feed.unload(world.m)
    # entry blocks through the real check(): names 1..3 arguments/locals, 4..6 globals, 9 unknown
    for _ in range(ctx.n(150, 1500)):
        args = rng.sample([1, 2, 3], rng.randrange(3))
        globals_ = [(x, rng.choice("vdp")) for x in rng.sample([4, 5, 6], rng.randrange(4))]
        evs = [(rng.choice("uua"), rng.choice([1, 2, 3, 4, 5, 6, 9])) for _ in range(rng.randrange(1, 6))]
        asg = sorted(set(args) | {x for t, x in evs if t == "a"})
        l, g, gl = _fmt_scope(args, [], globals_)
        j = lambda xs: ",".join(str(x) for x in xs) if xs else "-"  # noqa: E731
        reqs.append(f"block {l} {g} {gl} {j(args)} {j(asg)} " + ",".join(f"{t}{x}" for t, x in evs))
        reals.append(_real_block(args, globals_, evs))
        oracles.append(("never-crash", None))
        cases.append(["block", args, globals_, evs])
    replies = ctx.driver("C02", reqs)
    canon_user = {"varNotDefined": "VarNotDefinedError", "expectedValueGotDef": "ExpectedError", "expectedValueGotType": "ExpectedError"}
    for req, real, model, (orc, _), case in zip(reqs, reals, replies, oracles, cases):
        kind = case[0]
        if kind == "block":
            # compare outcome classes: ok / user <diagnostic class>
            m = model.split(" ")
            mcanon = "ok" if m[0] == "ok" else ("user " + canon_user.get(m[1], m[1]) if m[0] == "user" else model)
            real_c = real
        else:
            mcanon, real_c = model, real
        ctx.count(case, nontrivial=not real_c.startswith("ok") and not real_c.startswith(("place", "generic", "global")),
                  kind=f"model:{kind}:{real_c.split(' ')[0]}")
        if orc in ("never-internal", "never-crash") and (real_c == "internal" or real_c.split(":")[0] in BAD):
            ctx.violation(f"model-case:{req}", f"real {kind} component reaches an internal failure on `{req}`: {real}",
                          {"request": req, "real": real, "model": model})
        if real_c != mcanon:
            ctx.broke(f"model/real disagreement on `{req}`: real `{real}` vs model `{model}`")


# ------------------------------------------------------------------------------------------------------------- search
def _search(ctx, scale: float = 1.0):
    import c02_run

    rng = ctx.rng
    c02_run.prepare()
    procs = 8
    quick = ctx.quick
    batches = []
    n_pool = len(c02_run.POOL)
    idx = list(range(n_pool))
    if quick:  # all error programs, a sample of the integration seeds
        idx = [i for i in idx if c02_run.POOL[i][0].startswith("error/")] + rng.sample(
            [i for i in idx if not c02_run.POOL[i][0].startswith("error/")], 150)
    for k in range(procs):
        batches.append(("plain", rng.randrange(1 << 30), 0, idx[k::procs]))
    # layout stream: every tests/error program (quick: a third of them) in 13 placements / encodings of its source file
    err_idx = [i for i in range(n_pool) if c02_run.POOL[i][0].startswith("error/")]
    if quick:
        err_idx = rng.sample(err_idx, len(err_idx) // 3)
    for k in range(procs):
        batches.append(("layout", rng.randrange(1 << 30), 0, err_idx[k::procs]))
    n_h = int(ctx.n(3200, 130000) * scale)
    n_g = int(ctx.n(1600, 50000) * scale)
    per = 400
    for _ in range(max(1, n_h // per)):
        batches.append(("harvest", rng.randrange(1 << 30), per, None))
    for _ in range(max(1, n_g // per)):
        batches.append(("gen", rng.randrange(1 << 30), per, None))
    # typed-entity stream: misuses of generic functions / structs with interleaved comptime, const and type parameters
    n_t = int(ctx.n(2400, 40000) * scale)
    for _ in range(max(1, n_t // per)):
        batches.append(("types", rng.randrange(1 << 30), per, None))
    combos = [(i, a, f) for i in range(len(c02_run.SWEEP)) for a in range(len(c02_run.SWEEP_ARGS))
              for f in range(len(c02_run.SWEEP_FORMS))]
    if quick:
        combos = rng.sample(combos, int(2000 * scale))
    else:
        rng.shuffle(combos)
    chunk = 800
    for k in range(0, len(combos), chunk):
        batches.append(("sweep", rng.randrange(1 << 30), 0, combos[k:k + chunk]))
    results = c02_run.run_batches(batches, procs=procs)
    fails: dict[str, dict] = {}
    for r in results:
        ctx.evaluations += r["evals"]
        ctx.nontrivial.update(r["nontrivial"])
        for k, v in r["counts"].items():
            ctx.bump(k, v)
        for s in r["samples"]:
            if len(ctx.samples) < 5:
                ctx.samples.append(s)
        for sig, f in r["fails"].items():
            old = fails.get(sig)
            if old is None or len(f["program"]) < len(old["program"]):
                f = dict(f)
                f["n"] += old["n"] if old else 0
                fails[sig] = f
            else:
                old["n"] += f["n"]
    for sig, f in sorted(fails.items()):
        o = f["outcome"]
        what = (f"{o['class']} {sig}: {o.get('exc', o.get('why', ''))} {o.get('msg', '')}"[:300]
                + f" ({f['n']} programs with this signature; shortest one is the replay)")
        key = f["program"] if not (f.get("pre") or f.get("post")) else json.dumps([f["pre"], f["program"], f["post"]])
        ctx.violation(key, what, {"program": f["program"], "pre": f.get("pre", ""), "post": f.get("post", ""), "outcome": o,
                                  "mutation": f["kind"], "signature": sig})
    ctx.extra["search_streams"] = {"pool_programs": n_pool, "mutable_seeds": len(c02_run.MUTABLE), "std_definitions": len(c02_run.SWEEP),
                                   "batches": len(batches)}


def _corpus(ctx):
    import c02_run

    c02_run.prepare()
    cases = []
    if os.path.isdir(CORPUS):
        for fn in sorted(os.listdir(CORPUS)):
            for w in json.load(open(os.path.join(CORPUS, fn))):
                cases.append((w["program"], w.get("experimental", True), w.get("name", fn), w.get("pre", ""), w.get("post", "")))
    if ctx.replay_in and "program" in ctx.replay_in.get("replay", {}):
        rp = ctx.replay_in["replay"]
        cases.append((rp["program"], True, "replay", rp.get("pre", ""), rp.get("post", "")))
    for src, exp, name, pre, post in cases:
        o = c02_run.evaluate(src, experimental=exp, pre=pre, post=post)
        ctx.count(["corpus", name], nontrivial=o["class"] != "ok", kind="corpus:" + o["class"])
        if o["class"] in BAD:
            ctx.violation(src, f"{o['class']} {o.get('sig')}: {o.get('exc', o.get('why', ''))} {o.get('msg', '')}"[:300] + f" [corpus {name}]",
                          {"program": src, "outcome": o, "corpus": name})


def _guard_anchors(ctx):
    """the guard theorems of other properties must exist: build Lemmas/C02Guards.lean (imports Props/C03, Props/C08)"""
    with vlib.lake_lock():
        p = vlib._run(["lake", "build", "GuppyVerif.Lemmas.C02Guards"], cwd=vlib.LEAN, timeout=3000)
    out = p.stdout + p.stderr
    if p.returncode == 0:
        ctx.extra["guard_anchors"] = "ok: all guard theorems exist"
    elif "error: GuppyVerif/Lemmas/C02Guards.lean" in out:
        ctx.broke("a guard theorem named in Spec/C02.lean no longer exists: "
                  + " | ".join(l for l in out.splitlines() if "C02Guards.lean" in l and "error" in l)[:400])
    else:
        bad = sorted({l.split(" ")[1] for l in out.splitlines() if l.startswith("- GuppyVerif.")})
        ctx.extra["guard_anchors"] = ("NOT CHECKED in this run: modules of other properties do not build (work in progress elsewhere): "
                                      + ", ".join(bad))


def tie(ctx):
    # inventory coverage (reported, not hidden)
    cov = ctx.driver("C02", ["coverage"])[0].split(" ")
    cv = dict(zip(cov[0::2], (int(x) for x in cov[1::2])))
    ss = getattr(ctx, "_c02_sites", [])
    cls = ctx.driver("C02", [f"class {s['id']}" for s in ss]) if ss else []
    by_kind: dict[str, dict[str, int]] = {}
    new_sites = []
    for s, c in zip(ss, cls):
        c0 = c.split(" ")[0]
        by_kind.setdefault(s["kind"], {}).setdefault(c0, 0)
        by_kind[s["kind"]][c0] += 1
        if c0 == "unclassified":
            new_sites.append(f"{s['file']} {s['func']} [{s['kind']}] {s['text'][:100]}")
    ctx.extra["sites"] = {**cv, "by_kind": by_kind,
                          "guarded_by": {t: sum(1 for c in cls if c == "guarded " + t) for t in sorted({c[8:] for c in cls if c.startswith("guarded ")})}}
    if new_sites:
        ctx.extra["unclassified_sites"] = new_sites
        ctx.broke("internal-failure sites not classified in Spec/C02.lean (new assert/raise/zip-strict/dict-subscript site): " + "; ".join(new_sites[:6]))
    _guard_anchors(ctx)
    _corpus(ctx)
    _tie_models(ctx)
    _search(ctx)


def search(ctx, why):
    """a proof/tie broke and the regular search found no failing input: search four times as much with fresh seeds"""
    _search(ctx, scale=4.0 if ctx.quick else 1.0)


if __name__ == "__main__":
    vlib.main(sys.modules[__name__])
