"""C25 — Modifier blocks lower to the matching modifier operations (partial)."""
from __future__ import annotations

import json
import os
import sys

sys.path.insert(0, os.path.dirname(os.path.dirname(os.path.abspath(__file__))))
import vlib

PID = "C25"
THEOREM_MODULES = ["GuppyVerif.Props.C25"]
DRIVER = "C25"
RULE = (
    "generated `with` statements: 1-7 modifiers drawn (with repetition) from dagger / dagger() / power(p_i) / control over 1, 2 "
    "or 3 distinct qubits / control over a qubit array, around bodies of 0-3 calls that capture qubits and classical values "
    "in varying order; lowered with the real compiler; extracted from the Hugr: the chain of tket.modifier ops between "
    "LoadFunc and CallIndirect (names, control arities, which function parameter feeds each power), for every control array "
    "which parameter sits at each element position going in and to which parameter each element is handed back, the source parameters "
    "of every CallIndirect input, the destination of every CallIndirect output, the calls inside the __WithBlock__ "
    "function and which outer variable reaches each of their arguments; every CallIndirect input list is compared with its "
    "function value's type and every FuncDefn's yielded outputs with its declaration.  A second family captures affine "
    "values (array[int,3], a struct with an array field, Option[array]) as borrowed / owned parameters or locals, used once, "
    "reused after the block (second with block or plain call), captured through nested with blocks, two at once: must be "
    "accepted, lower, and be well-typed; sizes of call inputs/outputs compared with the model.  A third family uses "
    "non-trivial expressions as modifier arguments (conditional expressions, and/or/not, chained comparisons, walrus, "
    "comptime(...), calls, subscripts with conditional indices) for power exponents and control arguments: must compile, "
    "with the source's number of powers, control arities and dagger parity.  thorough: additionally every modifier list of "
    "length <= 4 over {dagger, power(p0), power(p1), control(c0), control(c1,c2), control(ca)} with distinct controls.  "
    "non-trivial = at least 2 modifiers of at least 2 kinds, or a repeated kind."
)
ASSUMPTIONS = [
    "tket.modifier op semantics (Dagger is an involution; Dagger/Power/Control commute across kinds; ControlModifier<n> prepends "
    "an array<n, qubit> to inputs and outputs) — outside the repository, assumed",
    "the entry dataflow block of a straight-line function receives the function parameters in order and returns [tag, in-out "
    "parameters in order] (checked by port counts on every program)",
]
UNMODELLED = [
    "what the emitted modifier operations do at run time (no emulator for /repo output); HUGR validity of the rest of the module",
    "control over generic-size arrays (qubit_num given by a const parameter), comptime exponents, nested with blocks",
    "the body function's own lowering (compile_cfg) beyond: it contains exactly the body's calls, in order, fed by the right variables",
]
MANIFEST = {
    "level_text": "Lean theorems (all modifier lists, unbounded): ops_equiv_source (the emitted operation list is congruent to the source "
    "list under the inductively defined congruence 'dagger is an involution + different kinds commute'), emit_projections (per-kind "
    "order, control arities, power operands, dagger parity preserved), equiv_iff_projections and equiv_iff_emit_eq (the congruence is "
    "exactly 'same projections'; the emission is its normal form), captures_threaded (call arguments match the modified function's "
    "input types position by position, outputs go back to the places they came from, captured variables are stably partitioned "
    "non-copyable first), control_qubits_returned (element level: for an arbitrary length-preserving callee, every control variable names its own wire again iff the callee returns the control arrays in place) and its in-place instance, pop_order_permutes, d17_old_order_mismatch.  Tied to /repo (T-obj) by lowering generated modifier stacks with the real "
    "compiler and extracting op chain and wiring from the Hugr.",
    "level_note": "partial: the statement's 'one operation per modifier in source order' is read modulo the congruence (the code cancels "
    "dagger pairs and groups by kind); run-time behaviour of tket.modifier ops is assumed. Model is of the repaired "
    "modifier_compiler.py (fix 4889969 for D17: control arrays were wired in the wrong order, ill-typed for unequal arities).",
    "technique": "Lean 4 proof over a hand-written model + extraction from real lowering (T-obj)",
    "design_ref": "DESIGN.md §5 C25",
    "ready": True,
}

NQ, NC, ARR, NP = 2, 5, 3, 3  # body qubits q0..; control qubits c0..; control array size; power params

# abstract case:
#  mods: list of ("d", style) | ("p", k) | ("c", [control qubit indices]) | ("ca",)
#  body: list of (callee kind, [vars])   vars: "q0","q1","x","y"
BODY_SIGS = {"bq": ["q"], "bqq": ["q", "q"], "bqx": ["q", "x"], "bxq": ["x", "q"], "bqy": ["q", "y"], "bx": ["x"], "byqx": ["y", "q", "x"]}


def params():
    ps = [(f"q{i}", "qubit", False) for i in range(NQ)]
    ps += [(f"c{i}", "qubit", False) for i in range(NC)]
    ps += [("ca", f"array[qubit, {ARR}]", False)]
    ps += [(f"p{i}", "nat", True) for i in range(NP)]
    ps += [("x", "int", True), ("y", "float", True)]
    return ps


PNAMES = [p[0] for p in params()]
LINEAR = [p[0] for p in params() if not p[2]]


def source(case):
    out = []
    tys = {"q": "qubit", "x": "int", "y": "float"}
    for name, sig in BODY_SIGS.items():
        ps = ", ".join(f"a{i}: {tys[k]}" for i, k in enumerate(sig))
        out.append(f"@guppy.declare(unitary=True)\ndef {name}({ps}) -> None: ...")
    items = []
    for m in case["mods"]:
        if m[0] == "d":
            items.append("dagger" if m[1] == 0 else "dagger()")
        elif m[0] == "p":
            items.append(f"power(p{m[1]})")
        elif m[0] == "c":
            items.append("control(" + ", ".join(f"c{i}" for i in m[1]) + ")")
        else:
            items.append("control(ca)")
    body = [f"        {name}({', '.join(vs)})" for name, vs in case["body"]] or ["        pass"]
    out.append(
        "@guppy\ndef test(" + ", ".join(f"{n}: {t}" for n, t, _ in params()) + ") -> None:\n"
        f"    with {', '.join(items)}:\n" + "\n".join(body) + "\n"
    )
    return "\n".join(out)


# ------------------------------------------------------------------ model input
def mod_sx(case):
    """modifier list for the model: power operand = param index of p_k; control id = index of the control in the
    source list of controls, arity = number of qubits"""
    out, cid = [], 0
    for m in case["mods"]:
        if m[0] == "d":
            out.append("d")
        elif m[0] == "p":
            out.append(f"(p {m[1]})")
        elif m[0] == "c":
            out.append(f"(c {cid} {len(m[1])})")
            cid += 1
        else:
            out.append(f"(c {cid} {ARR})")
            cid += 1
    return out


def control_sets(case):
    return [frozenset(f"c{i}" for i in m[1]) if m[0] == "c" else frozenset(["ca"]) for m in case["mods"] if m[0] in ("c", "ca")]


# ------------------------------------------------------------------ extraction from the real lowering
_enabled = False


def lower_real(case):
    global _enabled
    import feed
    import guppylang

    if not _enabled:
        guppylang.enable_experimental_features()
        _enabled = True
    src = source(case)
    prelude = feed.PRELUDE + "from guppylang.std.quantum import qubit\n"
    m = feed.load(src, prelude=prelude)
    try:
        g = feed.lower(m.test)
        from guppylang_internals.engine import ENGINE
        from guppylang_internals.nodes import CheckedModifiedBlock

        captured = None
        for bb in ENGINE.checked[m.test.id].cfg.bbs:
            for st in bb.statements:
                if isinstance(st, CheckedModifiedBlock):
                    captured = [(name, bool(v.ty.copyable)) for name, (v, _) in st.captured.items()]
        return g.hugr, src, captured
    finally:
        feed.unload(m)


def extract(h):
    """-> dict(chain, args, outs, body_calls) from the lowered Hugr"""
    import hugr.ops as ops

    import feed

    def name(n):
        return feed.op_name(h[n].op)

    def parent(n):
        return h[n].parent

    defs = {h[n].op.f_name: n for n in h if isinstance(h[n].op, ops.FuncDefn)}
    decls = {n: h[n].op.f_name for n in h if isinstance(h[n].op, ops.FuncDecl)}
    test = defs["test"]
    wbs = [n for f, n in defs.items() if f.startswith("__WithBlock__")]
    assert len(wbs) == 1, f"{len(wbs)} with-block functions"
    wb = wbs[0]
    calls = [n for n in h if isinstance(h[n].op, ops.CallIndirect)]
    assert len(calls) == 1, f"{len(calls)} CallIndirect nodes"
    call = calls[0]
    block = parent(call)
    inp = next(c for c in h.children(block) if isinstance(h[c].op, ops.Input))
    outp = next(c for c in h.children(block) if isinstance(h[c].op, ops.Output))
    assert len(h[inp].op.types) == len(PNAMES), "entry block inputs != function parameters"
    assert h.num_in_ports(outp) == 1 + len(LINEAR), "entry block outputs != tag + in-out parameters"

    def src_of(n, i):
        ps = list(h.linked_ports(n.inp(i)))
        assert len(ps) == 1
        return ps[0]

    def back(port):
        """set of entry-block input offsets a value depends on"""
        seen, todo, res = set(), [port], set()
        while todo:
            p = todo.pop()
            if p.node == inp:
                res.add(p.offset)
                continue
            if p.node in seen:
                continue
            seen.add(p.node)
            assert parent(p.node) == block
            for i in range(h.num_in_ports(p.node)):
                for q in h.linked_ports(p.node.inp(i)):
                    if parent(q.node) == block:
                        todo.append(q)
        return frozenset(PNAMES[o] for o in res)

    def fwd(port):
        """set of entry-block output offsets a value flows to"""
        seen, todo, res = set(), list(h.linked_ports(port)), set()
        while todo:
            p = todo.pop()
            if p.node == outp:
                res.add(p.offset)
                continue
            if p.node in seen:
                continue
            seen.add(p.node)
            for i in range(h.num_out_ports(p.node)):
                todo.extend(h.linked_ports(p.node.out(i)))
        return frozenset(LINEAR[o - 1] for o in res)

    # chain of modifier ops from the function value back to LoadFunc
    chain = []
    p = src_of(call, 0)
    while True:
        n = p.node
        nm = name(n)
        if isinstance(h[n].op, ops.LoadFunc):
            tgt = next(iter(h.linked_ports(n.inp(0)))).node
            assert tgt == wb, "LoadFunc does not load the with-block function"
            break
        if nm.endswith("DaggerModifier"):
            chain.append(("d",))
        elif nm.endswith("PowerModifier"):
            (k,) = back(src_of(n, 1))
            chain.append(("p", int(k[1:])))
        elif nm.endswith("ControlModifier"):
            chain.append(("c", int(h[n].op.args[0].n)))
        else:
            raise AssertionError("unexpected op in modifier chain: " + nm)
        p = src_of(n, 0)
    chain.reverse()  # application order, innermost first

    def elems_in(s):
        """the control array passed at a call input, element by element: which function parameter sits at position i
        (`new_array` packs its inputs in order); a whole array parameter is one element"""
        assert name(s.node).endswith("to_array"), name(s.node)
        a = src_of(s.node, 0)
        if name(a.node).endswith("new_array"):
            out = []
            for i in range(h.num_in_ports(a.node)):
                (v,) = back(src_of(a.node, i))
                out.append(v)
            return out
        (v,) = back(a)
        return [v]

    def elems_out(port):
        """the control array returned at a call output, element by element: to which in-out parameter of the enclosing
        function position i is handed back (`unpack` yields the elements in order)"""
        (t,) = list(h.linked_ports(port))
        assert name(t.node).endswith("from_array"), name(t.node)
        nxt = list(h.linked_ports(t.node.out(0)))
        if len(nxt) == 1 and name(nxt[0].node).endswith("unpack"):
            u = nxt[0].node
            out = []
            for i in range(h.num_out_ports(u)):
                if list(h.linked_ports(u.out(i))):
                    (v,) = fwd(u.out(i))
                    out.append(v)
            return out
        (v,) = fwd(t.node.out(0))
        return [v]

    nargs = h.num_in_ports(call) - 1
    nctrl = sum(1 for c in chain if c[0] == "c")
    ctrl_elems_in = [elems_in(src_of(call, i)) for i in range(1, 1 + nctrl)]
    ctrl_elems_out = [elems_out(call.out(i)) for i in range(nctrl)]
    args = []
    for i in range(1, 1 + nargs):
        s = src_of(call, i)
        deps = back(s)
        if i <= nctrl:
            # arity of the array actually passed: type argument of the to_array op
            assert name(s.node).endswith("to_array"), name(s.node)
            args.append(("ctrl", deps, int(h[s.node].op.args[0].n)))
        else:
            (v,) = deps
            args.append(("cap", v))
    outs = []
    for i in range(h.num_out_ports(call)):
        if list(h.linked_ports(call.out(i))):
            outs.append(fwd(call.out(i)))
    # body: calls inside the with-block function, in node order, with the outer variable reaching each argument
    wblock = next(c for c in h.children(next(c for c in h.children(wb) if isinstance(h[c].op, ops.CFG)))
                  if isinstance(h[c].op, ops.DataflowBlock))
    winp = next(c for c in h.children(wblock) if isinstance(h[c].op, ops.Input))
    body_calls = []

    def callee_of(c):
        for i in range(h.num_in_ports(c)):
            for q in h.linked_ports(c.inp(i)):
                if q.node in decls:
                    return decls[q.node]
        return None

    for c in h.children(wblock):
        if isinstance(h[c].op, ops.Call):
            tgt = callee_of(c)
            vs = []
            for i, _k in enumerate(BODY_SIGS.get(tgt, [])):
                cur = src_of(c, i)
                # follow linear values through earlier calls of the body back to the body's inputs:
                # a call returns its in-out (qubit) arguments in order
                while cur.node != winp:
                    assert isinstance(h[cur.node].op, ops.Call), name(cur.node)
                    sig = BODY_SIGS[callee_of(cur.node)]
                    lin = [j for j, kk in enumerate(sig) if kk == "q"]
                    cur = src_of(cur.node, lin[cur.offset])
                outer = args[nctrl + cur.offset]
                vs.append(outer[1] if outer[0] == "cap" else "?ctrl")
            body_calls.append((tgt, vs))
    wfn_outs_of_test = None
    return {"chain": chain, "args": args, "outs": outs, "body": body_calls, "typing": typing_problems(h)[0],
            "ctrl_elems_in": ctrl_elems_in, "ctrl_elems_out": ctrl_elems_out,
            "outer_body_calls": [c for c in h.children(block) if isinstance(h[c].op, ops.Call)]}


# ------------------------------------------------------------------ affine captures (non-copyable but droppable values)
AFF_TY = {
    "arr": ("array[int, 3]", "array(1, 2, 3)"),
    "st": ("S", "S(array(1, 2, 3), 7)"),
    "opt": ("Option[array[int, 3]]", "some(array(1, 2, 3))"),
}
AFF_SRC = ["borrowed", "owned", "local"]
AFF_ROLE = ["once", "reuse_with", "reuse_call", "nested", "nested_reuse", "two_affine"]
AFF_MODS = [["control(c)"], ["dagger"], ["power(n)"], ["control(c)", "dagger"], ["dagger", "power(n)", "control(c)"],
            ["control(c, d)"], ["dagger", "dagger"]]


def affine_source(case):
    ty, src, role, m1, m2 = case["affine"]
    T, ctor = AFF_TY[ty]
    decl = (
        "@guppy.struct\nclass S:\n    xs: array[int, 3]\n    k: int\n"
        f"@guppy.declare(unitary=True)\ndef t_rot(xs: {T}, q: qubit) -> None: ...\n"
        f"@guppy.declare(unitary=True)\ndef t_rot2(q: qubit, xs: {T}, k: int, ys: {T}) -> None: ...\n"
        "@guppy.declare(unitary=True)\ndef rot(q: qubit, k: int) -> None: ...\n"
    )
    params = ["c: qubit", "d: qubit", "e: qubit", "f: qubit", "q: qubit", "n: nat", "k: int"]
    body = []
    if src == "borrowed":
        params += [f"xs: {T}", f"ys: {T}"]
    elif src == "owned":
        params += [f"xs: {T} @owned", f"ys: {T} @owned"]
    else:
        body += [f"    xs = {ctor}", f"    ys = {ctor}"]
    w1 = "    with " + ", ".join(AFF_MODS[m1]) + ":"
    w2 = "    with " + ", ".join(x.replace("(c, d)", "(e, f)").replace("(c)", "(e)") for x in AFF_MODS[m2]) + ":"
    if role == "once":
        body += [w1, "        t_rot(xs, q)", "        rot(q, k)"]
    elif role == "reuse_with":
        body += [w1, "        t_rot(xs, q)", w2, "        rot(q, k)", "        t_rot(xs, q)"]
    elif role == "reuse_call":
        body += [w1, "        t_rot(xs, q)", "    t_rot(xs, q)"]
    elif role == "nested":
        body += [w1, "    " + w2, "            t_rot(xs, q)"]
    elif role == "nested_reuse":
        body += [w1, "    " + w2, "            t_rot(xs, q)", "        t_rot(xs, q)", "    t_rot(xs, q)"]
    else:
        body += [w1, "        t_rot2(q, xs, k, ys)", "    t_rot(ys, q)"]
    return decl + f"@guppy\ndef test({', '.join(params)}) -> None:\n" + "\n".join(body) + "\n"


def affine_blocks(case):
    """number of `with` blocks of an affine-family program"""
    return {"once": 1, "reuse_with": 2, "reuse_call": 1, "nested": 2, "nested_reuse": 2, "two_affine": 1}[case["affine"][2]]


def typing_problems(h):
    """generic well-typedness of what compile_modified_block builds: every CallIndirect is fed what its function value
    expects, and every FuncDefn yields what it declares"""
    import hugr.ops as ops
    import hugr.tys as ht

    bad, shapes = [], []
    for node in h:
        op = h[node].op
        if isinstance(op, ops.CallIndirect):
            ins = {}
            for i in range(h.num_in_ports(node)):
                for q in h.linked_ports(node.inp(i)):
                    ins[i] = h.port_type(q)
            fn_ty = ins.get(0)
            if not isinstance(fn_ty, ht.FunctionType):
                bad.append(f"CallIndirect {node}: function input has type {fn_ty}")
                continue
            actual = [ins[i] for i in range(1, len(ins))]
            if actual != list(fn_ty.input):
                bad.append(f"CallIndirect {node} is fed [{', '.join(map(str, actual))}] but its function value expects "
                           f"[{', '.join(map(str, fn_ty.input))}]")
            shapes.append((len(fn_ty.input), len(fn_ty.output)))
        elif isinstance(op, ops.Output) and isinstance(h[h[node].parent].op, ops.FuncDefn):
            pop = h[h[node].parent].op
            declared = list(pop.signature.body.output)
            actual = {}
            for i in range(h.num_in_ports(node)):
                for q in h.linked_ports(node.inp(i)):
                    actual[i] = h.port_type(q)
            actual = [actual[i] for i in sorted(actual)]
            if actual != declared:
                bad.append(f"function `{pop.f_name}` declares outputs [{', '.join(map(str, declared))}] but its body yields "
                           f"[{', '.join(map(str, actual))}]")
    return bad, sorted(shapes)


def run_affine(case):
    """-> (verdict string, problems, shapes, captured-per-block, src)"""
    global _enabled
    import feed
    import guppylang

    if not _enabled:
        guppylang.enable_experimental_features()
        _enabled = True
    src = affine_source(case)
    prelude = feed.PRELUDE + "from guppylang.std.quantum import qubit\nfrom guppylang.std.option import Option, some\n"
    m = feed.load(src, prelude=prelude)
    try:
        kind, exc = feed.check_outcome(m.test)
        if kind != "ok":
            return f"{kind}:{feed.err_class(exc)}", [], [], [], src
        try:
            g = feed.lower(m.test)
        except BaseException as e:  # noqa: BLE001
            return f"lower-failed:{type(e).__name__}: {str(e)[:200]}", [], [], [], src
        from guppylang_internals.engine import ENGINE
        from guppylang_internals.nodes import CheckedModifiedBlock

        blocks = []

        def walk(cfg):
            for bb in cfg.bbs:
                for st in bb.statements:
                    if isinstance(st, CheckedModifiedBlock):
                        ncontrol = len(st.control)
                        blocks.append((ncontrol, [(name, bool(v.ty.copyable)) for name, (v, _) in st.captured.items()]))
                        walk(st.cfg)

        walk(ENGINE.checked[m.test.id].cfg)
        bad, shapes = typing_problems(g.hugr)
        return "ok", bad, shapes, blocks, src
    finally:
        feed.unload(m)


def affine_cases(ctx):
    import itertools

    allc = [{"affine": [ty, src, role, m1, m2]} for ty, src, role in itertools.product(AFF_TY, AFF_SRC, AFF_ROLE)
            for m1 in range(len(AFF_MODS)) for m2 in range(len(AFF_MODS))]
    if ctx.quick:
        base = [{"affine": [ty, src, role, 0, 1]} for ty, src, role in itertools.product(AFF_TY, AFF_SRC, AFF_ROLE)]
        return base + ctx.rng.sample(allc, 30)
    return [c for c in allc if c["affine"][3] in (0, 3, 4) or c["affine"][4] in (1, 2)]


def tie_affine(ctx, cs):
    # model: number of values passed to / handed back by each block's indirect call
    results = [run_affine(c) for c in cs]
    lines, owner = [], []
    for i, (verdict, bad, shapes, blocks, src) in enumerate(results):
        for ncontrol, caps in blocks:
            mods = " ".join(f"(c {j} 1)" for j in range(ncontrol))
            vs = " ".join(f"({j} {int(cp)})" for j, (_, cp) in enumerate(caps))
            lines.append(f"(call ({mods}) ({vs}))")
            owner.append(i)
    replies = ctx.driver(DRIVER, lines) if lines else []
    model_shapes = {}
    for i, rep in zip(owner, replies):
        a, o = (rep.split("|") + [""])[:2]
        model_shapes.setdefault(i, []).append((len(a.split()), len(o.split())))
    for i, (c, (verdict, bad, shapes, blocks, src)) in enumerate(zip(cs, results)):
        key = "affine:" + json.dumps(c["affine"])
        ctx.count(key, nontrivial=True, kind="affine:" + c["affine"][1] + ":" + c["affine"][2])
        replay = {"case": c, "source": src, "verdict": verdict, "problems": bad}
        # oracle: these programs are well-formed (affine values may be captured, used again and dropped), so they must be
        # accepted, lower, and lower to well-typed calls
        if verdict != "ok":
            ctx.violation(key, f"a with block capturing a non-copyable droppable value is not compiled: {verdict}\n{src}", replay)
            continue
        if bad:
            ctx.violation(key, "lowered with block is ill-typed: " + "; ".join(bad) + "\n" + src, replay)
        if len(blocks) != affine_blocks(c) or len(shapes) != affine_blocks(c):
            ctx.violation(key, f"expected {affine_blocks(c)} modified blocks, found {len(blocks)} checked / {len(shapes)} CallIndirect\n{src}", replay)
        if sorted(model_shapes.get(i, [])) != shapes:
            ctx.broke(f"correspondence callArgs/handBack sizes: model={sorted(model_shapes.get(i, []))} real={shapes}\n{src}")


# ------------------------------------------------------------------ modifier arguments that are non-trivial expressions
POW_EXPRS = [
    "n if b else m", "comptime(N)", "comptime(N + 1)", "getn()", "getn() + m", "(k := n)", "n if (b and c) else m",
    "n if (b or c) else m", "n if not b else m", "pick(b, n, m)", "pick(x < y, n, 3)", "pick(x < y < z, n, m)", "nat(x)",
    "n * m", "(n if b else m) if c else getn()", "xs[0]", "xs[0 if b else 1]", "pick(b and (x < y or c), getn(), m)", "n",
]
CTRL_EXPRS = [("c0", 1), ("qs[0]", 1), ("qs[0 if b else 1]", 1), ("c0, qs[1]", 2), ("qs", 3), ("c1, c0", 2), ("qs[2 if (b and c) else 0]", 1)]


def modexpr_source(case):
    items = []
    for m in case["modexpr"]:
        if m[0] == "d":
            items.append("dagger")
        elif m[0] == "p":
            items.append(f"power({POW_EXPRS[m[1]]})")
        else:
            items.append(f"control({CTRL_EXPRS[m[1]][0]})")
    return (
        "N = 3\n@guppy.declare(unitary=True)\ndef u(q: qubit) -> None: ...\n@guppy.declare\ndef getn() -> nat: ...\n"
        "@guppy.declare\ndef pick(b: bool, n: nat, m: nat) -> nat: ...\n"
        "@guppy\ndef test(q: qubit, c0: qubit, c1: qubit, qs: array[qubit, 3], n: nat, m: nat, b: bool, c: bool, x: int, y: int, "
        "z: int, xs: array[nat, 2]) -> None:\n"
        f"    with {', '.join(items)}:\n        u(q)\n"
    )


def modexpr_cases(ctx):
    out = [{"modexpr": [["p", i]]} for i in range(len(POW_EXPRS))] + [{"modexpr": [["c", i]]} for i in range(len(CTRL_EXPRS))]
    rng = ctx.rng
    for _ in range(ctx.n(40, 600)):
        ms, used_ctrl = [], False
        for _ in range(rng.choice([2, 2, 3, 4])):
            r = rng.random()
            if r < 0.5:
                ms.append(["p", rng.randrange(len(POW_EXPRS))])
            elif r < 0.75 and not used_ctrl:
                used_ctrl = True          # one control item: the control expressions share qubits
                ms.append(["c", rng.randrange(len(CTRL_EXPRS))])
            else:
                ms.append(["d"])
        if sum(1 for m in ms if m[0] == "p" and "k :=" in POW_EXPRS[m[1]]) > 1:
            continue
        out.append({"modexpr": ms})
    return out


def tie_modexpr(ctx, cs):
    """exponents / control arguments that the CFG builder has to lift or rewrite: the block must compile, and the emitted
    chain must have the source's powers (count, order is not observable without operand identity), control arities and
    dagger parity; compared with the model's emission by kind and arity"""
    global _enabled
    import re

    import feed
    import guppylang

    if not _enabled:
        guppylang.enable_experimental_features()
        _enabled = True
    lines = []
    for c in cs:
        sx, cid = [], 0
        for m in c["modexpr"]:
            if m[0] == "d":
                sx.append("d")
            elif m[0] == "p":
                sx.append("(p 0)")
            else:
                sx.append(f"(c {cid} {CTRL_EXPRS[m[1]][1]})")
                cid += 1
        lines.append("(emit " + " ".join(sx) + ")")
    model = ctx.driver(DRIVER, lines)
    prelude = feed.PRELUDE + "from guppylang.std.quantum import qubit\n"
    for c, mv in zip(cs, model):
        src = modexpr_source(c)
        key = "modexpr:" + json.dumps(c["modexpr"])
        ctx.count(key, nontrivial=True, kind="modexpr:" + "".join(sorted({m[0] for m in c["modexpr"]})))
        replay = {"case": c, "source": src, "model_emit": mv}
        m_ = feed.load(src, prelude=prelude)
        try:
            kind, exc = feed.check_outcome(m_.test)
            if kind != "ok":
                ctx.violation(key, f"a with block whose modifier arguments are expressions is not compiled: {kind}:{feed.err_class(exc)}\n{src}", replay)
                continue
            try:
                h = feed.lower(m_.test).hugr
            except BaseException as e:  # noqa: BLE001
                ctx.violation(key, f"lowering failed: {type(e).__name__}: {str(e)[:200]}\n{src}", replay)
                continue
        finally:
            feed.unload(m_)
        bad, _shapes = typing_problems(h)
        names = [feed.op_name(h[n].op) for n in h]
        import hugr.ops as ops
        ctrl = sorted(int(h[n].op.args[0].n) for n in h if feed.op_name(h[n].op).endswith("ControlModifier"))
        got = (sum(1 for x in names if x.endswith("DaggerModifier")), sum(1 for x in names if x.endswith("PowerModifier")), ctrl)
        want = (sum(1 for m in c["modexpr"] if m[0] == "d") % 2, sum(1 for m in c["modexpr"] if m[0] == "p"),
                sorted(CTRL_EXPRS[m[1]][1] for m in c["modexpr"] if m[0] == "c"))
        if got != want:
            bad.append(f"(daggers, powers, control arities) = {got}, source has {want}")
        if bad:
            ctx.violation(key, "lowered with block does not match its source: " + "; ".join(bad) + "\n" + src, dict(replay, problems=bad))
        mgot = (mv.split().count("d"), len(re.findall(r"\(p ", mv)), sorted(int(x) for x in re.findall(r"\(c \d+ (\d+)\)", mv)))
        if mgot != got:
            ctx.broke(f"correspondence emit (kinds/arities): model={mgot} real={got}\n{src}")


# ------------------------------------------------------------------ generator
def rand_case(rng):
    n = rng.choice([1, 1, 2, 2, 3, 3, 4, 5, 6, 7])
    free = list(range(NC))
    rng.shuffle(free)
    ca_used = False
    mods = []
    for _ in range(n):
        r = rng.random()
        if r < 0.3:
            mods.append(("d", rng.choice([0, 0, 1])))
        elif r < 0.55:
            mods.append(("p", rng.randrange(NP)))
        elif r < 0.9 and free:
            k = min(len(free), rng.choice([1, 1, 2, 3]))
            mods.append(("c", [free.pop() for _ in range(k)]))
        elif not ca_used:
            ca_used = True
            mods.append(("ca",))
        else:
            mods.append(("d", 0))
    body = []
    for _ in range(rng.choice([0, 1, 1, 2, 2, 3])):
        name = rng.choice(sorted(BODY_SIGS))
        qs = [f"q{i}" for i in range(NQ)]
        rng.shuffle(qs)
        vs = [qs.pop() if k == "q" else k for k in BODY_SIGS[name]]
        body.append((name, vs))
    return {"mods": mods, "body": body}


def small_scope():
    """every modifier list of length <= 4 over a fixed alphabet (controls distinct)"""
    import itertools

    alpha = [("d", 0), ("p", 0), ("p", 1), ("c", [0]), ("c", [1, 2]), ("ca",)]
    for n in range(1, 5):
        for combo in itertools.product(range(len(alpha)), repeat=n):
            ctr = [i for i in combo if i >= 3]
            if len(ctr) != len(set(ctr)):
                continue
            yield {"mods": [alpha[i] for i in combo], "body": [("bqx", ["q1", "x"]), ("bq", ["q0"])]}


def _norm(c):
    mods = []
    for m in c["mods"]:
        if m[0] == "c":
            mods.append(("c", list(m[1])))
        else:
            mods.append(tuple(m))
    return {"mods": mods, "body": [(b[0], list(b[1])) for b in c["body"]]}


def cases(ctx):
    out = []
    corpus = os.path.join(vlib.VERIF, "corpus", "c25")
    if os.path.isdir(corpus):
        for fn in sorted(os.listdir(corpus)):
            for r in json.load(open(os.path.join(corpus, fn))):
                out.append(_norm(r))
    if ctx.replay_in and "mods" in ctx.replay_in["replay"].get("case", {}):
        out.append(_norm(ctx.replay_in["replay"]["case"]))
    if not ctx.quick:
        ss = [_norm(c) for c in small_scope()]
        out += ss
        ctx.extra["exhaustive"] = True
        ctx.extra["exhaustive_note"] = f"all {len(ss)} modifier lists of length <= 4 over 6 modifiers (distinct controls)"
    for _ in range(ctx.n(110, 2000)):
        out.append(_norm(rand_case(ctx.rng)))
    return out


def show_chain(ch):
    return " ".join("d" if c[0] == "d" else f"({c[0]} {c[1]})" for c in ch)


def tie(ctx):
    acs = affine_cases(ctx)
    if ctx.replay_in and "affine" in ctx.replay_in["replay"].get("case", {}):
        acs.append(ctx.replay_in["replay"]["case"])
    tie_affine(ctx, acs)
    mcs = modexpr_cases(ctx)
    if ctx.replay_in and "modexpr" in ctx.replay_in["replay"].get("case", {}):
        mcs.append(ctx.replay_in["replay"]["case"])
    tie_modexpr(ctx, mcs)
    cs = cases(ctx)
    # the model needs the captured-variable order the checker produced (an input of the compiler); the real lowering
    # is therefore run first
    reals = []
    for c in cs:
        try:
            h, src, captured = lower_real(c)
            ex = extract(h)
            reals.append((ex, src, captured, None))
        except Exception as e:  # noqa: BLE001
            reals.append((None, source(c), None, f"{type(e).__name__}: {e}"))
    lines = []
    for c, (ex, src, captured, err) in zip(cs, reals):
        lines.append("(emit " + " ".join(mod_sx(c)) + ")")
        vs = " ".join(f"({PNAMES.index(n)} {int(cp)})" for n, cp in (captured or []))
        lines.append(f"(call ({' '.join(mod_sx(c))}) ({vs}))")
        ctrls = [[PNAMES.index(f"c{i}") for i in m[1]] if m[0] == "c" else [PNAMES.index("ca")]
                 for m in c["mods"] if m[0] in ("c", "ca")]
        lines.append("(unpack " + " ".join("(" + " ".join(map(str, q)) + ")" for q in ctrls) + ")")
    replies = ctx.driver(DRIVER, lines)
    for k, (c, (ex, src, captured, err)) in enumerate(zip(cs, reals)):
        m_emit, m_call, m_unpack = replies[3 * k], replies[3 * k + 1], replies[3 * k + 2]
        key = "case:" + json.dumps(c, sort_keys=True)
        kinds = [m[0] if m[0] != "ca" else "c" for m in c["mods"]]
        nontrivial = (len(kinds) >= 2 and len(set(kinds)) >= 2) or len(kinds) != len(set(kinds))
        ctx.count(key, nontrivial=nontrivial, kind=f"len{len(kinds)}:" + "".join(sorted(set(kinds))))
        replay = {"case": c, "source": src, "model_emit": m_emit, "model_call": m_call}
        if err is not None:
            ctx.violation(key, f"lowering / extraction failed on a well-formed modifier block: {err}\n{src}", dict(replay, error=err))
            continue
        chain = ex["chain"]
        if ex.get("typing"):
            ctx.violation(key, "lowered with block is ill-typed: " + "; ".join(ex["typing"]) + "\n" + src, dict(replay, problems=ex["typing"]))
        replay["real_chain"] = show_chain(chain)
        replay["real_args"] = [list(map(str, a)) for a in ex["args"]]
        # ---------------- oracle (independent of the model): projections of the source
        src_powers = [m[1] for m in c["mods"] if m[0] == "p"]
        src_ctrl = [(len(m[1]) if m[0] == "c" else ARR) for m in c["mods"] if m[0] in ("c", "ca")]
        src_dag = sum(1 for m in c["mods"] if m[0] == "d") % 2
        real_powers = [x[1] for x in chain if x[0] == "p"]
        real_ctrl = [x[1] for x in chain if x[0] == "c"]
        real_dag = sum(1 for x in chain if x[0] == "d") % 2
        bad = []
        if real_powers != src_powers:
            bad.append(f"power operands {real_powers} != source {src_powers}")
        if real_ctrl != src_ctrl:
            bad.append(f"control arities {real_ctrl} != source {src_ctrl}")
        if real_dag != src_dag:
            bad.append(f"dagger parity {real_dag} != source {src_dag}")
        # ---------------- oracle: wiring
        sets = control_sets(c)
        K = len(sets)
        ctrl_args = ex["args"][:K]
        # the j-th control array is consumed by the (K-1-j)-th ControlModifier (each prepends its array)
        for j, a in enumerate(ctrl_args):
            want_arity = real_ctrl[K - 1 - j] if K - 1 - j < len(real_ctrl) else None
            if a[0] != "ctrl" or a[2] != want_arity:
                bad.append(f"call input {j + 1} is {a}, the function type expects an array of {want_arity} qubits")
        if sorted(map(sorted, (a[1] for a in ctrl_args if a[0] == "ctrl"))) != sorted(map(sorted, sets)):
            bad.append(f"control arrays {[sorted(a[1]) for a in ctrl_args]} are not the source control lists {[sorted(s) for s in sets]}")
        # element level: the i-th listed qubit of a control is element i of its array, and element i of the returned
        # array goes back to the same variable (a wire must return to the variable it was taken from)
        src_lists = [[f"c{i}" for i in m[1]] if m[0] == "c" else ["ca"] for m in c["mods"] if m[0] in ("c", "ca")]
        want_elems = list(reversed(src_lists))        # the last control's array comes first
        if ex["ctrl_elems_in"] != want_elems:
            bad.append(f"control arrays are packed as {ex['ctrl_elems_in']}, the source lists {want_elems} (last control first)")
        if ex["ctrl_elems_out"] != ex["ctrl_elems_in"]:
            bad.append(f"control qubits are handed back to {ex['ctrl_elems_out']} but were taken from {ex['ctrl_elems_in']}: "
                       "after the block the variables name each other's wires")
        caps = [a[1] for a in ex["args"][K:]]
        used = []
        for _, vs in c["body"]:
            for v in vs:
                if v not in used:
                    used.append(v)
        if sorted(caps) != sorted(used):
            bad.append(f"captured call arguments {caps} != variables used by the body {used}")
        lin_flags = [v in LINEAR for v in caps]
        if lin_flags != sorted(lin_flags, reverse=True):
            bad.append(f"captured arguments {caps} are not ordered non-copyable first")
        # outputs handed back to where the inputs came from
        lin_inputs = [a[1] if a[0] == "ctrl" else frozenset([a[1]]) for a in ex["args"] if a[0] == "ctrl" or a[1] in LINEAR]
        if ex["outs"] != lin_inputs:
            bad.append(f"call outputs go to {[sorted(o) for o in ex['outs']]}, inputs came from {[sorted(i) for i in lin_inputs]}")
        # body function contains exactly the body, fed by the right variables
        want_body = [(n, vs) for n, vs in c["body"]]
        if [(n, vs) for n, vs in ex["body"]] != want_body:
            bad.append(f"with-block function body is {ex['body']}, source body is {want_body}")
        if ex["outer_body_calls"]:
            bad.append("body calls appear outside the with-block function")
        if bad:
            ctx.violation(key, "lowered modifier block does not match its source: " + "; ".join(bad) + "\n" + src,
                          dict(replay, problems=bad))
        # ---------------- model vs real
        import re
        m_emit = re.sub(r"\(c \d+ (\d+)\)", r"(c \1)", m_emit)  # control identity is checked through the wiring below
        if show_chain(chain) != m_emit:
            ctx.broke(f"correspondence Model/Modifier.lean emit vs compile_modified_block: model=`{m_emit}` real=`{show_chain(chain)}`\n{src}")
        # model slots: c<id>:<n> / v<param index>
        ids = {i: s for i, s in enumerate(sets)}
        def slot(s):
            if s.startswith("c"):
                i, n = s[1:].split(":")
                return ("ctrl", ids[int(i)], int(n))
            return ("cap", PNAMES[int(s[1:])])
        m_args, m_outs = [[slot(s) for s in part.split()] for part in (m_call.split("|") + [""])[:2]]
        if m_args != [tuple(a) for a in ex["args"]]:
            ctx.broke(f"correspondence callArgs: model={m_args} real={ex['args']}\n{src}")
        real_unpack = " | ".join(" ".join(f"{PNAMES.index(v)}<-{PNAMES.index(w)}" for v, w in zip(o, i_))
                                 for o, i_ in zip(ex["ctrl_elems_out"], ex["ctrl_elems_in"]))
        if real_unpack != m_unpack:
            ctx.broke(f"correspondence handBackElems: model=`{m_unpack}` real=`{real_unpack}`\n{src}")
        m_out_sets = [s[1] if s[0] == "ctrl" else frozenset([s[1]]) for s in m_outs]
        if m_out_sets != ex["outs"]:
            ctx.broke(f"correspondence handBack: model={m_out_sets} real={ex['outs']}\n{src}")


if __name__ == "__main__":
    vlib.main(sys.modules[__name__])
