"""C06 — Linearity: qubits are used exactly once on every path."""
from __future__ import annotations

import json
import os
import sys

sys.path.insert(0, os.path.dirname(os.path.dirname(os.path.abspath(__file__))))
import vlib

PID = "C06"
THEOREM_MODULES = ["GuppyVerif.Props.C06"]
DRIVER = "C06"
RULE = (
    "programs of the core fragment (qubit / int / bool / struct / nested struct / tuple variables; allocation, move, owned and "
    "borrowed calls, measure/discard/h/cx, tuple build/unpack, tuple element and field read, field assign, return; if / while / "
    "while True / break / continue, `measure(q)` as branch / loop condition, variables re-bound at a type of the other kind, "
    "nested call expressions as arguments: idq(q), bq(q), cons(q, q), mk() lent to a borrowing callee; generic helpers "
    "(type variable without bounds / droppable-only / copyable, owned and borrowed parameters) called at several "
    "instantiations within one function: int variable, qubit or struct place, fresh qubit or struct -- each call is judged at "
    "its own instantiation by the oracle and, through the per-occurrence kinds of the extracted CFG, by the model; systematic "
    "scope (1c): 432 programs with two generic calls at different instantiations, straight-line / across a branch / a loop; "
    "linear arrays `array[qubit, 2]` whose elements are lent (`h(a[0])`, `cx(a[0], a[1])`, `bor(a[n])`, the array lent whole "
    "and through an element in one call) or wrongly moved out (MoveOutOfSubscriptError), systematic scope (1d) of 864 programs; "
    "arrays of structs `array[T, 2]` (T = {q: qubit, n: int}): reading the copyable field, moving / lending the linear field or "
    "the whole element -- anything taken out of an element of non-copyable type is a move-out unless lent, scope (1e) of 108). "
    "Streams: (1) the hand-written corpus (facts of DESIGN.md, gap and fix witnesses, near-miss shapes); (1b) a systematic "
    "scope of 192 programs that re-bind a variable qubit<->int in a block it flows into; (2) a small "
    "scope enumerated systematically: 5 control skeletons x {owned, borrowed, local} x 4 slots x 5 actions, on a qubit and on a "
    "struct field (thorough: all 18750, quick: a sample); (3) random programs generated valid-by-construction over an abstract "
    "ownership state (branches and loop bodies are repaired to agree), then hit with 0-2 near-miss mutations (drop / duplicate a "
    "statement, duplicate it elsewhere, owned<->borrowed callee, guard by `if c` / `while c`, retarget a source or a target place, "
    "drop a call's target, drop a break/continue, early return, flip a parameter's ownership, swap branches). Each program is "
    "printed as Guppy source and checked by the real check(); the CheckedCFG the real compiler hands to check_cfg_linearity is "
    "captured, translated and sent to the Lean model (verdict and error class compared); an independent oracle explores every "
    "reachable (program point, owned-leaf set) state of the abstract program (exact, no unrolling bound) and gives the expected "
    "verdict. Programs the type checker rejects before linearity checking are skipped and counted. non-trivial = rejected, or "
    "accepted with a branch or loop; distinct by source text"
)
ASSUMPTIONS = [
    "the Lean model Model/Linearity.lean is hand-written; its agreement with linearity_checker.py is established by the "
    "same-input correspondence run here (verdict, error class and place-level live rows on the CFG extracted from the real compiler)",
    "the harness' translation of the checked AST into the model's statements is trusted: own traversal in the visitor's "
    "order (PlaceNode / GlobalCall incl. nested calls / Tuple / TupleUnpack / Return / branch predicate -> use / give / "
    "dropAfter actions, then targets), leaves and their kinds from the occurrence's type (not from leaf_places); programs "
    "it cannot translate are skipped and counted",
    "the place-level liveness worklist is the C09 model (Model/Dataflow.lean), characterised by the C09 theorem liveRun_correct "
    "for any scheduler; that it finishes within the model's fuel is proved here (live_terminates), so the real worklist's pop "
    "order need not be controlled",
    "reading of 'leak on an infinite path': a linear value is leaked when it is held at a point from which no continuation "
    "reads it (so `while True: pass` leaks an owned qubit, `while c: pass; use(q)` does not); a borrowed value may idle on a "
    "path that never returns",
    "every CFG handed to the model is checked to have the shape Prog.WF and to be well-kinded (Prog.KindsOK: each occurrence "
    "typed at the kind of the binding it refers to, rows agree with the bindings flowing in) by executable checks that are "
    "proved to imply the hypotheses (wf_of_wfb, kindsOK_of_b); the pass-2 'used but live' check takes the kind of a live place "
    "from the successor's row where the code takes it from the row of the using block (equal on well-kinded CFGs); leaf types "
    "of the fragment are linear (qubit) or copyable+droppable (int, bool)",
]
UNMODELLED = [
    "comprehensions and `for` loops over arrays, subscript assignment, subscripts of projections / nested subscripts, arrays "
    "of copyable elements (affine), nested functions and captures, partial application, modifiers (`with control`), "
    "affine types (non-copyable but droppable; so generic helpers are instantiated at copyable and linear types only), "
    "generic helpers returning their type parameter, field access on unnamed values (`mkS().a`)",
    "the surface->CFG builder and the type checker's block signatures (the model takes the checked CFG; C03/C08 cover them)",
    "diagnostic payload beyond the error class (spans, notes); when a place is both used later for real and implicitly returned "
    "the model allows AlreadyUsedError or BorrowSubPlaceUsedError (the real choice depends on dict order)",
]
MANIFEST = {
    "level_text": "Lean theorems over an executable model of linearity_checker.py (both passes; place-level liveness = the C09 "
    "worklist), for all CFGs of the core fragment: statements are the visitor's sequences of place-level actions (nested call "
    "expressions with their order of consumption included), places decompose arbitrarily into leaves (variables, struct fields, "
    "tuple elements, nested), and the kind (linear / copyable) belongs to the binding, not to the name (variables re-bound at a "
    "type of the other kind, the shape of fix 0c7baf7); no size bound. lin_sound: the model accepts a well-kinded CFG => on every "
    "path from the entry (finite or infinite) a linear binding is used only while its value is held, nothing is assigned while a "
    "linear value is held under the leaf, exactly the borrowed leaves are held at the exit, a held value always has a continuation "
    "that reads it (a borrowed one may idle on a path that never returns), and the path-independent ownership rules hold in "
    "reachable code. lin_complete_partial: outside two known gaps (borrowed arguments + non-terminating regions: NoGap) these "
    "conditions imply that the model accepts (no user error, no internal error, no fuel exhaustion: live_terminates). "
    "lin_complete_false_G1/G2: the unrestricted converse is false of the code (concrete witnesses, replayed on the real checker, "
    "known findings). Tie on every run: generated programs are checked by the real check(), the CFG given to check_cfg_linearity is "
    "extracted and replayed in the model (verdict + error class + place-level live rows), and an independent exact state-space "
    "oracle on the abstract program gives the expected verdict (quick ~550 programs; thorough: all 18750 programs of a small scope "
    "+ 192 re-binding programs + 50000 random near-misses).",
    "level_note": "Trusted: Lean kernel + propext/Classical.choice/Quot.sound; the statement of path goodness in Spec/C06.lean "
    "(my reading of 'leak' on infinite paths: held but dead); the extraction of the real CFG into the model's input, with the shape "
    "and well-kindedness hypotheses checked per case by verified executable checks; the generator's reach (sampling; exhaustive only "
    "in the small scopes). The theorems are about the model; arrays/subscripts, comprehensions, closures, affine types are outside "
    "the fragment.",
    "technique": "Lean 4 proof over a hand-written model (using the C09 liveness theorems) + differential correspondence on the real "
    "compiler's CFG + independent exact path-semantics oracle",
    "design_ref": "DESIGN.md §5 C06",
    "ready": True,
}

# --------------------------------------------------------------------------------------
# the fragment's abstract syntax
#
# type names: Q qubit, I int, B bool; structs S{a:Q,b:Q} T{q:Q,n:I} U{s:S,q:Q}; tuples P=(Q,Q) R=(Q,I)
# variables carry their type in the first letter: q0 n0 c0 s0 t0 u0 p0 r0
# place = (var, path) with path a tuple of field names / tuple indices
# statements:
#   ("call", [tgt place…], fname, [arg place…])      tgts = f(args)  /  f(args)
#   ("move", [tgt place…], [src place…])             t = s / t = (a, b) / x, y = p / n = 1 (no src)
#   ("ret", [place…])
#   ("if", cvar, then, else) ("while", cvar, body) ("wtrue", body) ("break",) ("continue",) ("pass",)
# --------------------------------------------------------------------------------------

STRUCTS = {"S": [("a", "Q"), ("b", "Q")], "T": [("q", "Q"), ("n", "I")], "U": [("s", "S"), ("q", "Q")]}
TUPLES = {"P": ["Q", "Q"], "R": ["Q", "I"]}
LEAFT = {"Q": True, "I": False, "B": False, "A": True, "AT": True}  # leaf type -> linear?  (A: array[qubit, 2], one leaf)
VTYPE = {"q": "Q", "n": "I", "c": "B", "s": "S", "t": "T", "u": "U", "p": "P", "r": "R", "a": "A", "b": "AT"}
ELEM = {"A": "Q", "AT": "T"}  # element types of the (linear, one-leaf) array types
GUPPY_TY = {"*": "TL", "*d": "TD", "*c": "TC", "Q": "qubit", "I": "int", "B": "bool", "S": "S", "T": "T", "U": "U",
            "P": "tuple[qubit, qubit]", "R": "tuple[qubit, int]", "A": "array[qubit, 2]", "AT": "array[T, 2]"}

# name -> ([(mode, type)…], return type | None);  mode "o" owned, "b" borrowed, "c" copyable (no flag)
FUNS = {
    "qubit": ([], "Q"), "mk": ([], "Q"), "mkS": ([], "S"), "mkT": ([], "T"), "mkU": ([], "U"), "mkP": ([], "P"), "mkR": ([], "R"),
    "use": ([("o", "Q")], None), "useS": ([("o", "S")], None), "useT": ([("o", "T")], None), "useU": ([("o", "U")], None),
    "useP": ([("o", "P")], None), "useR": ([("o", "R")], None),
    "bor": ([("b", "Q")], None), "borS": ([("b", "S")], None), "borT": ([("b", "T")], None), "borU": ([("b", "U")], None),
    "borP": ([("b", "P")], None), "borR": ([("b", "R")], None),
    "idq": ([("o", "Q")], "Q"), "idS": ([("o", "S")], "S"), "bq": ([("b", "Q")], "Q"),
    "use2": ([("o", "Q"), ("o", "Q")], None), "bor2": ([("b", "Q"), ("b", "Q")], None), "mix": ([("b", "Q"), ("o", "Q")], None),
    "cons": ([("o", "Q"), ("b", "Q")], "Q"), "pair": ([("o", "Q"), ("o", "Q")], "P"),
    "measure": ([("o", "Q")], "B"), "discard": ([("o", "Q")], None), "h": ([("b", "Q")], None), "cx": ([("b", "Q"), ("b", "Q")], None),
    "geti": ([("c", "I")], "I"),
    "mkA": ([], "A"), "useA": ([("o", "A")], None), "borA": ([("b", "A")], None),
    "mkAT": ([], "AT"), "useAT": ([("o", "AT")], None), "borAT": ([("b", "AT")], None),
    "borAQ": ([("b", "A"), ("b", "Q")], None), "borQA": ([("b", "Q"), ("b", "A")], None),
    # generic helpers: parameter type `*` = a type variable without bounds (any instantiation), `*d` droppable only,
    # `*c` copyable and droppable; each call is judged at its own instantiation
    "gpeek": ([("b", "*")], "I"), "gtake": ([("o", "*")], None), "gpeek2": ([("b", "*"), ("b", "*")], "I"),
    "gpeekd": ([("b", "*d")], "I"), "gpeekc": ([("c", "*c")], "I"),
}
GENERIC = ("gpeek", "gtake", "gpeek2", "gpeekd", "gpeekc")

DECLS = """
from guppylang.std.quantum import qubit, measure, h, discard, cx

TL = guppy.type_var("TL", copyable=False, droppable=False)
TL2 = guppy.type_var("TL2", copyable=False, droppable=False)
TD = guppy.type_var("TD", copyable=False, droppable=True)
TC = guppy.type_var("TC", copyable=True, droppable=True)

@guppy.struct
class S:
    a: qubit
    b: qubit

@guppy.struct
class T:
    q: qubit
    n: int

@guppy.struct
class U:
    s: S
    q: qubit

"""


def _decl_src():
    out = [DECLS]
    for name, (params, ret) in FUNS.items():
        if name in ("qubit", "measure", "discard", "h", "cx"):
            continue
        tys = [GUPPY_TY[t] for _m, t in params]
        if name == "gpeek2":
            tys = ["TL", "TL2"]
        ps = ", ".join(f"x{i}: {ty}" + (" @owned" if m == "o" else "") for i, ((m, _t), ty) in enumerate(zip(params, tys)))
        out.append(f"@guppy.declare\ndef {name}({ps}) -> {GUPPY_TY[ret] if ret else 'None'}: ...\n")
    return "\n".join(out)


def vtype(v):
    """variables carry their type in the first letter; `xQ3` / `xI3` are two typings of the same source
    variable `x3` (a variable re-bound at another type): distinct leaves for the ownership semantics, because
    after a re-binding the old instance can no longer be named"""
    if v[0] == "x":
        return v[1]
    return VTYPE[v[0]]


def show_var(v):
    return "x" + v[2:] if v[0] == "x" else v


def sub_types(ty):
    """[(path element, type)] of the immediate components, [] for a leaf type"""
    if ty in STRUCTS:
        return list(STRUCTS[ty])
    if ty in TUPLES:
        return list(enumerate(TUPLES[ty]))
    return []


def sub_at(pl):
    """position of the subscript element "#0" / "#n1" in the path of `a0[0]`, `b0[n1].q`, …; None if there is none"""
    for i, el in enumerate(pl[1]):
        if isinstance(el, str) and el.startswith("#"):
            return i
    return None


def is_sub(pl):
    """the place is an array element or a projection of one: for linearity only the array counts"""
    return sub_at(pl) is not None


def place_type(pl):
    ty = vtype(pl[0])
    for el in pl[1]:
        if isinstance(el, str) and el.startswith("#"):
            ty = ELEM[ty]
            continue
        ty = dict(sub_types(ty))[el]
    return ty


def leaves_of(pl):
    """leaf places of a place, each as (var, path); an element of an array stands for the array (one leaf)"""
    if is_sub(pl):
        return leaves_of((pl[0], pl[1][:sub_at(pl)]))
    ty = place_type(pl)
    subs = sub_types(ty)
    if not subs:
        return [pl]
    out = []
    for el, _t in subs:
        out += leaves_of((pl[0], pl[1] + (el,)))
    return out


def lin_leaves(pl):
    return [l for l in leaves_of(pl) if LEAFT[place_type(l)]]


def show_place(pl):
    s = show_var(pl[0])
    for el in pl[1]:
        if isinstance(el, str) and el.startswith("#"):
            s += f"[{show_var(el[1:]) if not el[1:].isdigit() else el[1:]}]"
        else:
            s += f".{el}" if isinstance(el, str) else f"[{el}]"
    return s


def is_call_arg(a):
    """an argument is a place (var, path) or a nested call ("c", fname, [args])"""
    return a[0] == "c" and len(a) == 3 and isinstance(a[1], str) and isinstance(a[2], list)


def show_arg(a):
    if is_call_arg(a):
        return f"{a[1]}({', '.join(show_arg(x) for x in a[2])})"
    return show_place(a)


def show_cond(c):
    """a condition is a bool variable name or ("measure", place)"""
    return c if isinstance(c, str) else f"measure({show_place(c[1])})"


def cond_stmt(c):
    """the statement a condition evaluates (None for a plain variable)"""
    return None if isinstance(c, str) else ("call", [], "measure", [c[1]])


def show_prog(prog):
    params, ret, body = prog["params"], prog["ret"], prog["body"]
    ps = ", ".join(f"{show_var(v)}: {GUPPY_TY[vtype(v)]}" + (" @owned" if (not b and vtype(v) not in ("I", "B")) else "") for v, b in params)
    lines = [f"@guppy\ndef f({ps}) -> {GUPPY_TY[ret] if ret else 'None'}:"]

    def stmts(ss, ind):
        pad = "    " * ind
        if not ss:
            lines.append(pad + "pass")
        for s in ss:
            k = s[0]
            if k == "call":
                rhs = f"{s[2]}({', '.join(show_arg(a) for a in s[3])})"
                lines.append(pad + (", ".join(show_place(t) for t in s[1]) + " = " if s[1] else "") + rhs)
            elif k == "move":
                rhs = "1" if not s[2] else (show_place(s[2][0]) if len(s[2]) == 1 else "(" + ", ".join(show_place(a) for a in s[2]) + ")")
                lines.append(pad + ", ".join(show_place(t) for t in s[1]) + " = " + rhs)
            elif k == "ret":
                lines.append(pad + "return" + (" " + ", ".join(show_place(a) for a in s[1]) if s[1] else ""))
            elif k == "if":
                lines.append(pad + f"if {show_cond(s[1])}:")
                stmts(s[2], ind + 1)
                if s[3]:
                    lines.append(pad + "else:")
                    stmts(s[3], ind + 1)
            elif k == "while":
                lines.append(pad + f"while {show_cond(s[1])}:")
                stmts(s[2], ind + 1)
            elif k == "wtrue":
                lines.append(pad + "while True:")
                stmts(s[1], ind + 1)
            else:
                lines.append(pad + k)

    stmts(body, 1)
    return "\n".join(lines) + "\n"


# --------------------------------------------------------------------------------------
# oracle: ownership semantics of the abstract program, all (point, owned set) states
# --------------------------------------------------------------------------------------

def _ret_has_lin(ret):
    def go(ty):
        subs = sub_types(ty)
        return LEAFT[ty] if not subs else any(go(t) for _e, t in subs)
    return go(ret)


def oracle(prog):
    """-> ("ok", None, gap) | ("reject", reason, None).  Exact: explores every reachable (point, owned set).
    gap = ("G1"|"G2", text) when every path is good but the program has the shape of a known completeness gap."""
    borrowed_vars = {v for v, b in prog["params"] if b and vtype(v) not in ("I", "B")}
    nodes = []  # (ops, static, succ list)

    def new(ops, static, succ):
        nodes.append([ops, static, succ])
        return len(nodes) - 1

    bl = []
    for v in sorted(borrowed_vars):
        bl += lin_leaves((v, ()))
    EXIT = new([("use", l) for l in bl], [], [])

    def call_ops(fname, args):
        """uses of the arguments in order (a nested call is evaluated in place, with its own hand-backs),
        then the hand-backs of this call's borrowed place arguments"""
        params, _ret = FUNS[fname]
        ops, static, gives = [], [], []
        for (m, _t), a in zip(params, args):
            if is_call_arg(a):
                o2, s2 = call_ops(a[1], a[2])
                ops += o2
                static += s2
                r2 = FUNS[a[1]][1]
                if m == "b" and r2 and _ret_has_lin(r2):
                    static.append("DropAfterCall")
                continue
            if is_sub(a):
                # an array element: only lendable.  __getitem__ borrows the array and hands it back at once; after
                # the call __setitem__ borrows it again and the array is handed back
                if m != "b":
                    static.append("MoveOutOfSubscript")
                    continue
                for l in lin_leaves(a):
                    ops += [("use", l), ("give", l)]
                    gives += [("use", l), ("give", l), ("give", l)]
                continue
            if m != "b" and a[1] == () and a[0] in borrowed_vars:
                static.append("NotOwned")
            ops += [("use", l) for l in lin_leaves(a)]
            if m == "b":
                gives += [("give", l) for l in lin_leaves(a)]
        return ops + gives, static

    def ops_of(s):
        if s[0] == "call":
            _params, ret = FUNS[s[2]]
            ops, static = call_ops(s[2], s[3])
            if not s[1] and ret and _ret_has_lin(ret):
                static.append("Dropped")
            tg = s[1]
        else:
            ops, static = [], []
            srcs = s[2] if s[0] == "move" else s[1]
            for a in srcs:
                if is_sub(a):
                    static.append("MoveOutOfSubscript")
                    continue
                if a[1] == () and a[0] in borrowed_vars:
                    static.append("NotOwned")
                ops += [("use", l) for l in lin_leaves(a)]
            tg = s[1] if s[0] == "move" else []
        for t in tg:
            if t[1] == () and t[0] in borrowed_vars:
                static.append("Shadowed")
            ops += [("asg", l) for l in lin_leaves(t)]
        return ops, static

    def build(ss, nxt, brk, cont):
        cur = nxt
        for s in reversed(ss):
            k = s[0]
            if k in ("call", "move"):
                o, st = ops_of(s)
                cur = new(o, st, [cur])
            elif k == "ret":
                o, st = ops_of(s)
                cur = new(o, st, [EXIT])
            elif k == "if":
                t = build(s[2], cur, brk, cont)
                e = build(s[3], cur, brk, cont)
                o, st = ops_of(cond_stmt(s[1])) if cond_stmt(s[1]) else ([], [])
                cur = new(o, st, [t, e])
            elif k == "while":
                o, st = ops_of(cond_stmt(s[1])) if cond_stmt(s[1]) else ([], [])
                head = new(o, st, [])
                body = build(s[2], head, cur, head)
                nodes[head][2] = [body, cur]
                cur = head
            elif k == "wtrue":
                head = new([], [], [])
                body = build(s[1], head, cur, head)
                nodes[head][2] = [body]
                cur = head
            elif k == "break":
                cur = brk
            elif k == "continue":
                cur = cont
            elif k == "pass":
                pass
            else:
                raise AssertionError(s)
        return cur

    entry = build(prog["body"], EXIT, None, None)
    init = frozenset(l for v, _b in prog["params"] for l in lin_leaves((v, ())))
    borrowed_leaves = set(bl)
    all_leaves = set(init)
    for o, _s, _c in nodes:
        all_leaves |= {l for _k, l in o}

    # CFG-level facts per leaf: first event, will-use, may-idle
    def first_ev(n, l):
        for k, x in nodes[n][0]:
            if x == l:
                return k
        return None

    will, idle = {}, {}
    for l in all_leaves:
        w = {n for n in range(len(nodes)) if first_ev(n, l) == "use"}
        quiet = {n for n in range(len(nodes)) if first_ev(n, l) is None}
        ch = True
        while ch:
            ch = False
            for n in quiet:
                if n not in w and any(c in w for c in nodes[n][2]):
                    w.add(n)
                    ch = True
        inf = set(quiet)
        ch = True
        while ch:
            ch = False
            for n in list(inf):
                if not any(c in inf for c in nodes[n][2]):
                    inf.discard(n)
                    ch = True
        will[l], idle[l] = w, inf

    # can the exit be reached from a node (CFG level)
    reach_exit = {EXIT}
    ch = True
    while ch:
        ch = False
        for n in range(len(nodes)):
            if n not in reach_exit and any(c in reach_exit for c in nodes[n][2]):
                reach_exit.add(n)
                ch = True
    exit_reachable = entry in reach_exit

    seen = set()
    todo = [(entry, init)]
    gap = None
    while todo:
        n, O = todo.pop()
        if (n, O) in seen:
            continue
        seen.add((n, O))
        for l in sorted(all_leaves, key=str):
            if l in O:
                if n in will[l]:
                    continue
                if l in borrowed_leaves and n in idle[l]:
                    # a borrowed leaf may stay owned on a path that never returns.  The code only
                    # allows it when the exit is unreachable altogether (known gap G1)
                    if exit_reachable and gap is None:
                        gap = ("G1", f"borrowed {show_place(l)} is owned on a non-terminating path while the exit is reachable elsewhere")
                    continue
                return ("reject", f"leak: {show_place(l)} owned but never used again", None)
            elif l in borrowed_leaves and n in idle[l] and not exit_reachable and gap is None:
                # a borrowed leaf that is moved out for good in a function that never returns: no
                # path is bad, but the code wants to thread it through the loop (known gap G2)
                gap = ("G2", f"borrowed {show_place(l)} moved out for good in a function that never returns")
        ops, static, succ = nodes[n]
        if static:
            return ("reject", static[0], None)
        O2 = set(O)
        for k, l in ops:
            if k == "use":
                if l not in O2:
                    return ("reject", f"use of {show_place(l)} while not owned", None)
                O2.discard(l)
            elif k == "give":
                O2.add(l)
            else:
                if l in O2:
                    return ("reject", f"overwrite of owned {show_place(l)}", None)
                O2.add(l)
        if n == EXIT and O2:
            return ("reject", f"leak at exit: {sorted(show_place(l) for l in O2)}", None)
        for c in succ:
            todo.append((c, frozenset(O2)))
    return ("ok", None, gap)


# --------------------------------------------------------------------------------------
# extraction of the real CheckedCFG handed to check_cfg_linearity, as the model's input
# --------------------------------------------------------------------------------------

LIN_ERRS = {"AlreadyUsedError", "PlaceNotUsedError", "NotOwnedError", "BorrowShadowedError", "BorrowSubPlaceUsedError",
            "UnnamedExprNotUsedError", "DropAfterCallError", "MoveOutOfSubscriptError", "UnnamedFieldNotUsedError",
            "UnnamedTupleNotUsedError", "UnnamedSubscriptNotUsedError", "ComprAlreadyUsedError",
            "NonCopyableCaptureError", "NonCopyablePartialApplyError"}

GAP_CLASS = {"G1": "PlaceNotUsedError", "G2": "BorrowSubPlaceUsedError"}

_CAP = {}
_hooked = False
_DECLS = None


def _hook():
    global _hooked
    if _hooked:
        return
    import guppylang_internals.checker.linearity_checker as lc
    orig = lc.check_cfg_linearity

    def wrap(cfg, func_name, globals):
        _CAP[func_name] = cfg
        res = orig(cfg, func_name, globals)
        _CAP[func_name + "#res"] = res
        return res

    lc.check_cfg_linearity = wrap
    _hooked = True


class Unsupported(Exception):
    pass


class _Enc:
    """numbers leaves, translates the checked AST into the model's statements: for every statement the
    place-level actions of the visitor in its order (own traversal, mirroring visit_GlobalCall /
    _visit_call_args / _reassign_inout_args / visit_Return / generic_visit), each leaf with the kind of
    the occurrence's type"""

    def __init__(self):
        self.ids = {}
        self.vars = {}

    def var(self, name):
        return self.vars.setdefault(name, len(self.vars))

    def _leaf(self, key, ty):
        lin = not ty.copyable
        if (not ty.droppable) != lin:
            raise Unsupported(f"affine type {ty}")
        return self.ids.setdefault(key, len(self.ids)), lin

    def ty_leaves(self, key, ty):
        from guppylang_internals.tys.ty import StructType, TupleType
        if isinstance(ty, StructType):
            out = []
            for f in ty.fields:
                out += self.ty_leaves(key + (f.name,), f.ty)
            return out
        if isinstance(ty, TupleType):
            out = []
            for i, t in enumerate(ty.element_types):
                out += self.ty_leaves(key + (i,), t)
            return out
        return [self._leaf(key, ty)]

    def place_key(self, place):
        from guppylang_internals.checker.core import FieldAccess, TupleAccess, Variable
        if isinstance(place, Variable):
            return (place.name,)
        if isinstance(place, FieldAccess):
            return self.place_key(place.parent) + (place.field.name,)
        if isinstance(place, TupleAccess):
            return self.place_key(place.parent) + (place.index,)
        raise Unsupported(type(place).__name__)

    def place(self, place):
        from guppylang_internals.checker.core import Variable
        from guppylang_internals.tys.ty import StructType, TupleType
        key = self.place_key(place)
        ls = self.ty_leaves(key, place.ty)
        v = str(self.var(place.name)) if isinstance(place, Variable) else "-"
        is_leaf = "0" if isinstance(place.ty, (StructType, TupleType)) else "1"
        return "(p " + " ".join([v, is_leaf] + [f"({i} {1 if k else 0})" for i, k in ls]) + ")"

    def subscript(self, place):
        """the SubscriptAccess if `place` is a subscript of a plain place, None if it involves no subscript"""
        from guppylang_internals.checker.core import SubscriptAccess, contains_subscript
        sub = contains_subscript(place)
        if sub is None:
            return None
        if contains_subscript(sub.parent) is not None:
            raise Unsupported("nested subscript")
        return sub

    def pattern(self, node):
        from guppylang_internals.nodes import PlaceNode, TupleUnpack
        if isinstance(node, PlaceNode):
            return [self.place(node.place)]
        if isinstance(node, TupleUnpack):
            pat = node.pattern
            if pat.starred is not None or pat.right:
                raise Unsupported("starred pattern")
            out = []
            for e in pat.left:
                out += self.pattern(e)
            return out
        raise Unsupported("target " + type(node).__name__)

    def expr(self, node, kind="0"):
        """the visitor's actions on an expression; `kind` is the use kind of a place at this position"""
        import ast
        from guppylang_internals.ast_util import get_type
        from guppylang_internals.definition.custom import CustomFunctionDef
        from guppylang_internals.engine import ENGINE
        from guppylang_internals.nodes import GlobalCall, PlaceNode
        from guppylang_internals.tys.ty import InputFlags
        if isinstance(node, PlaceNode):
            sub = self.subscript(node.place)
            if sub is not None:
                # visit_PlaceNode on a subscript place: MoveOutOfSubscriptError unless lent or copyable; else
                # visit(item_expr); scope.assign(item); visit(__getitem__(parent, item))
                if kind != "1" and not sub.ty.copyable:
                    return ["(m)"]
                return self.expr(sub.item_expr) + [f"(g {self.place(sub.item)})"] + self.expr(sub.getitem_call)
            return [f"(u {self.place(node.place)} {kind})"]
        if isinstance(node, ast.Constant):
            return []
        if isinstance(node, ast.Tuple):
            out = []
            for e in node.elts:
                out += self.expr(e)
            return out
        if isinstance(node, GlobalCall):
            func = ENGINE.get_parsed(node.def_id)
            if isinstance(func, CustomFunctionDef) and not func.has_signature:
                flags = [False] * len(node.args)
            else:
                fty = func.ty.instantiate(node.type_args)
                flags = [InputFlags.Inout in inp.flags for inp in fty.inputs]
            out = []
            for fl, a in zip(flags, node.args, strict=True):
                out += self.expr(a, "1" if fl else "0") if isinstance(a, PlaceNode) else self.expr(a)
            for fl, a in zip(flags, node.args, strict=True):
                if fl:
                    if isinstance(a, PlaceNode) and self.subscript(a.place) is not None:
                        # _reassign_single_inout_arg on a subscript place: assign the leaves of value_var,
                        # visit(__setitem__(parent, item, value_var)), then reassign the parent
                        sub = self.subscript(a.place)
                        if sub.setitem_call is None:
                            raise Unsupported("subscript without __setitem__")
                        out.append(f"(g {self.place(sub.setitem_call.value_var)})")
                        out += self.expr(sub.setitem_call.call)
                        out.append(f"(g {self.place(sub.parent)})")
                    elif isinstance(a, PlaceNode):
                        out.append(f"(g {self.place(a.place)})")
                    elif not get_type(a).droppable:
                        out.append("(d)")
            return out
        raise Unsupported("expression " + type(node).__name__)

    def stmt(self, st):
        import ast
        from guppylang_internals.ast_util import get_type
        if isinstance(st, ast.Assign):
            [tgt] = st.targets
            return f"(st ({' '.join(self.expr(st.value))}) ({' '.join(self.pattern(tgt))}) 0)"
        if isinstance(st, ast.Expr):
            return f"(st ({' '.join(self.expr(st.value))}) () {0 if get_type(st.value).droppable else 1})"
        if isinstance(st, ast.Return):
            acts = [] if st.value is None else self.expr(st.value)
            return f"(st ({' '.join(acts)}) () 0)"
        raise Unsupported("statement " + type(st).__name__)

    def prog(self, cfg):
        from guppylang_internals.tys.ty import InputFlags
        rows, rowlin, succ, stmts = [], [], [], []

        def f(tag, xs):
            return "(" + " ".join([tag] + [str(x) for x in xs]) + ")"

        for bb in cfg.bbs:
            ls = []
            for v in bb.sig.input_row:
                ls += self.ty_leaves((v.name,), v.ty)
            rows.append(f(str(bb.idx), [i for i, _k in ls]))
            rowlin.append(f(str(bb.idx), [i for i, k in ls if k]))
            succ.append(f(str(bb.idx), [x.idx for x in bb.successors]))
            ss = [self.stmt(x) for x in bb.statements]
            if bb.branch_pred is not None:
                ss.append(f"(st ({' '.join(self.expr(bb.branch_pred))}) () 0)")
            stmts.append(f(str(bb.idx), ss))
        bvars, bleaves = [], []
        for v in cfg.entry_bb.sig.input_row:
            if InputFlags.Inout in v.flags:
                bvars.append(self.var(v.name))
                bleaves += [i for i, _k in self.ty_leaves((v.name,), v.ty)]
        return " ".join([
            "(prog", f("bvars", bvars), f("bleaves", bleaves), f("blocks", [bb.idx for bb in cfg.bbs]),
            f("entry", [cfg.entry_bb.idx]), f("exit", [cfg.exit_bb.idx, 1 if cfg.exit_bb.reachable else 0]),
            f("rows", rows), f("rowlin", rowlin), f("succ", succ), f("stmts", stmts),
        ]) + ")"


def _forget(m):
    """drop the generated program's definition from the session-wide DEF_STORE (it keeps the defining frame,
    i.e. the whole module namespace, alive: ~0.1 MB per program)"""
    try:
        from guppylang_internals.engine import DEF_STORE
        did = m.f.id
        DEF_STORE.raw_defs.pop(did, None)
        DEF_STORE.frames.pop(did, None)
        srcs = getattr(DEF_STORE.sources, "sources", None)
        if isinstance(srcs, dict):
            srcs.pop(m.__file__, None)
    except Exception:  # noqa: BLE001
        pass


def run_real(src):
    """-> (outcome, class | None, model request | None, note).  outcome: ok | reject | other | crash"""
    import feed
    _hook()
    _CAP.clear()
    global _DECLS
    if _DECLS is None:
        # structs and helper declarations are loaded once and imported by every generated program
        _DECLS = feed.load(_decl_src(), name="_verif_c06_decls")
    try:
        m = feed.load(src, prelude=feed.PRELUDE + "from _verif_c06_decls import *\n")
    except BaseException as e:  # noqa: BLE001
        return ("other", "load:" + type(e).__name__, None, str(e)[:200])
    try:
        out, exc = feed.check_outcome(m.f)
        cls = feed.err_class(exc) if exc is not None else None
        cfg = _CAP.get("f")
        req, note = None, ""
        if cfg is not None:
            try:
                enc = _Enc()
                req = enc.prog(cfg)
                res = _CAP.get("f#res")
                if out == "ok" and res is not None:
                    # the refined input rows of the result CFG = place-level live_before of the real run
                    rows = []
                    for bb in res.bbs:
                        if bb is res.entry_bb or bb is res.exit_bb:
                            continue
                        ls = sorted({enc._leaf(enc.place_key(pl), pl.ty)[0] for pl in bb.sig.input_row})
                        rows.append("(" + " ".join(map(str, [bb.idx] + ls)) + ")")
                    note = "live:" + " ".join(rows)
            except Unsupported as u:
                note = "unsupported: " + str(u)
        if out == "ok":
            return ("ok", None, req, note)
        if out == "user":
            if cfg is not None and cls in LIN_ERRS:
                return ("reject", cls, req, note)
            return ("other", cls, None, "rejected outside the linearity checker")
        return ("crash", type(exc).__name__, req, repr(exc)[:300])
    finally:
        _forget(m)
        feed.unload(m)


# --------------------------------------------------------------------------------------
# generator: valid by construction, then near-miss mutations
# --------------------------------------------------------------------------------------

MAKERS = {"Q": ["qubit", "mk"], "S": ["mkS"], "T": ["mkT"], "U": ["mkU"], "P": ["mkP"], "R": ["mkR"], "A": ["mkA"],
          "AT": ["mkAT"]}
USERS = {"Q": ["use", "discard", "measure"], "S": ["useS"], "T": ["useT"], "U": ["useU"], "P": ["useP"], "R": ["useR"],
         "A": ["useA"], "AT": ["useAT"]}
BORROWERS = {"Q": ["bor", "h"], "S": ["borS"], "T": ["borT"], "U": ["borU"], "P": ["borP"], "R": ["borR"], "A": ["borA"], "AT": ["borAT"]}


class Gen:
    def __init__(self, rng, size):
        self.rng = rng
        self.size = size
        self.counter = {}
        self.borrowed = set()
        self.conds = []
        self.ret = None

    def fresh(self, ty):
        letter = {v: k for k, v in VTYPE.items() if v}[ty]
        n = self.counter.get(letter, 0)
        self.counter[letter] = n + 1
        return f"{letter}{n}"

    # state: owned = set of linear leaves; defd = set of defined variables
    def whole_places(self, owned, defd, ty=None):
        """places (any depth) all of whose linear leaves are owned, that have a linear leaf"""
        out = []

        def go(pl):
            ll = lin_leaves(pl)
            if ll and all(l in owned for l in ll) and (ty is None or place_type(pl) == ty):
                out.append(pl)
            if place_type(pl) in STRUCTS or (place_type(pl) in TUPLES):
                for el, _t in sub_types(place_type(pl)):
                    go((pl[0], pl[1] + (el,)))

        for v in sorted(defd):
            if vtype(v) not in ("I", "B"):
                go((v, ()))
        return out

    def usable(self, pl, mode):
        """may `pl` be passed in `mode` without breaking an ownership rule"""
        if mode != "b" and pl[1] == () and pl[0] in self.borrowed:
            return False
        return True

    def assignable(self, pl):
        if pl[1] == () and pl[0] in self.borrowed:
            return False
        return not any(isinstance(e, int) for e in pl[1])  # tuple elements cannot be assigned

    def consume(self, pl):
        """a statement that consumes place `pl` (all leaves owned)"""
        ty = place_type(pl)
        r = self.rng
        if ty == "Q" and r.random() < 0.3:
            return ("call", [], r.choice(["use", "discard"]), [pl])
        return ("call", [], r.choice([u for u in USERS[ty] if u != "measure"]), [pl])

    def produce(self, pl):
        return ("call", [pl], self.rng.choice(MAKERS[place_type(pl)]), [])

    def step(self, owned, defd):
        """one random valid simple statement; returns (stmt, owned', defd') or None"""
        r = self.rng
        k = r.random()
        if r.random() < 0.12:
            st = self.rebind_step(owned, defd)
            if st is not None:
                return st
        if r.random() < 0.10:
            st = self.generic_step(owned, defd)
            if st is not None:
                return st
        places = self.whole_places(owned, defd)
        arrs_t = [p for p in places if place_type(p) == "AT"]
        if arrs_t and r.random() < 0.5:
            # sub-places of elements of an array of structs {q: qubit, n: int}: lent (fine) or taken out (move-out)
            a = r.choice(arrs_t)
            el = (a[0], a[1] + ("#" + str(r.randint(0, 1)),))
            x = r.random()
            if x < 0.3:
                return ("call", [], r.choice(["bor", "h"]), [(el[0], el[1] + ("q",))]), owned, defd
            if x < 0.5:
                return ("call", [], "borT", [el]), owned, defd
            if x < 0.7:
                n = self.fresh("I")
                return ("move", [(n, ())], [(el[0], el[1] + ("n",))]), owned, defd | {n}
            if x < 0.8:
                n = self.fresh("I")
                return ("call", [(n, ())], "geti", [(el[0], el[1] + ("n",))]), owned, defd | {n}
            if x < 0.9:
                return ("call", [], "use", [(el[0], el[1] + ("q",))]), owned, defd
            t = self.fresh("T")
            return ("move", [(t, ())], [el]), owned | set(lin_leaves((t, ()))), defd | {t}
        arrs = [p for p in places if place_type(p) == "A"]
        if arrs and r.random() < 0.5:
            # lend elements of a linear array
            a = r.choice(arrs)
            ints = sorted(v for v in defd if v[0] == "n")
            idx = lambda: "#" + (r.choice(ints) if ints and r.random() < 0.4 else str(r.randint(0, 1)))
            e1, e2 = (a[0], a[1] + (idx(),)), (a[0], a[1] + (idx(),))
            x = r.random()
            if x < 0.5:
                return ("call", [], r.choice(["bor", "h"]), [e1]), owned, defd
            if x < 0.8:
                return ("call", [], r.choice(["cx", "bor2"]), [e1, e2]), owned, defd
            if x < 0.9:
                return (("call", [], "borAQ", [a, e1]) if r.random() < 0.5 else ("call", [], "borQA", [e1, a])), owned, defd
            qs = [p for p in places if place_type(p) == "Q" and self.usable(p, "o")]
            if qs:
                return ("call", [], "mix", [e1, r.choice(qs)]), owned - set(lin_leaves(qs[-1])) if False else owned, defd
            return ("call", [], "bor", [e1]), owned, defd
        if k < 0.22 or not places:
            ty = r.choice(["Q", "Q", "Q", "S", "T", "U", "P", "R", "A", "AT"])
            # new variable, or re-fill a fully consumed old place
            empties = [pl for pl in self.empty_places(owned, defd) if self.assignable(pl) and place_type(pl) == ty]
            if empties and r.random() < 0.6:
                pl = r.choice(empties)
            else:
                pl = (self.fresh(ty), ())
            return self.produce(pl), owned | set(lin_leaves(pl)), defd | {pl[0]}
        pl = r.choice(places)
        ty = place_type(pl)
        if k < 0.42:  # borrow
            if ty == "Q" and r.random() < 0.3:
                others = [p for p in places if place_type(p) == "Q" and not set(lin_leaves(p)) & set(lin_leaves(pl))]
                if others:
                    return ("call", [], r.choice(["bor2", "cx"]), [pl, r.choice(others)]), owned, defd
            return ("call", [], r.choice(BORROWERS[ty]), [pl]), owned, defd
        if not self.usable(pl, "o"):
            return ("call", [], r.choice(BORROWERS[ty]), [pl]), owned, defd
        if k < 0.60:  # consume
            if ty == "Q" and r.random() < 0.25:
                n = self.fresh("B")
                return ("call", [(n, ())], "measure", [pl]), owned - set(lin_leaves(pl)), defd | {n}
            return self.consume(pl), owned - set(lin_leaves(pl)), defd
        if k < 0.80:  # move into a new / emptied place of the same type
            empties = [e for e in self.empty_places(owned - set(lin_leaves(pl)), defd) if self.assignable(e) and place_type(e) == ty]
            tgt = r.choice(empties) if empties and r.random() < 0.5 else (self.fresh(ty), ())
            if r.random() < 0.25 and ty in ("Q", "S"):
                st = ("call", [tgt], "idq" if ty == "Q" else "idS", [pl])
            else:
                st = ("move", [tgt], [pl])
            return st, (owned - set(lin_leaves(pl))) | set(lin_leaves(tgt)), defd | {tgt[0]}
        if k < 0.90 and ty in TUPLES:  # unpack
            tg = [(self.fresh(t), ()) for t in TUPLES[ty]]
            o2 = owned - set(lin_leaves(pl))
            for t in tg:
                o2 |= set(lin_leaves(t))
            return ("move", tg, [pl]), o2, defd | {t[0] for t in tg}
        if ty == "Q":  # build a pair
            others = [p for p in places if place_type(p) == "Q" and self.usable(p, "o") and not set(lin_leaves(p)) & set(lin_leaves(pl))]
            if others:
                o = r.choice(others)
                tgt = (self.fresh("P"), ())
                st = ("move", [tgt], [pl, o]) if r.random() < 0.6 else ("call", [tgt], "pair", [pl, o])
                return st, (owned - set(lin_leaves(pl)) - set(lin_leaves(o))) | set(lin_leaves(tgt)), defd | {tgt[0]}
        return ("call", [], r.choice(BORROWERS[ty]), [pl]), owned, defd

    def generic_step(self, owned, defd):
        """a call of a generic helper at one of several instantiations: int variable, qubit / struct place,
        fresh qubit / struct (a fresh linear value lent to a borrower is a DropAfterCall near-miss)"""
        r = self.rng
        ints = sorted(v for v in defd if v[0] == "n")
        if not ints:
            n = self.fresh("I")
            return ("move", [(n, ())], []), owned, defd | {n}
        f = r.choice(["gpeek", "gpeek", "gtake", "gpeek2", "gpeekd", "gpeekc"])

        def pick(mode, only_int):
            places = [] if only_int else [p for p in self.whole_places(owned, defd) if self.usable(p, mode)]
            x = r.random()
            if only_int or x < 0.35 or (not places and x < 0.8):
                return (r.choice(ints), ()), set()
            if places and x < 0.8:
                p = r.choice(places)
                return p, (set(lin_leaves(p)) if mode == "o" else set())
            return ("c", r.choice(["mk", "mkS", "qubit"]), []), set()

        args, gone = [], set()
        for m, t in FUNS[f][0]:
            a, g = pick(m, t in ("*d", "*c"))
            if g & gone or (not is_call_arg(a) and any(set(lin_leaves(a)) & set(lin_leaves(b)) for b in args if not is_call_arg(b))):
                a, g = (r.choice(ints), ()), set()
            args.append(a)
            gone |= g
        tg = []
        if FUNS[f][1] and r.random() < 0.7:
            n = self.fresh("I")
            tg = [(n, ())]
            defd = defd | {n}
        return ("call", tg, f, args), owned - gone, defd

    def rebind_step(self, owned, defd):
        """a variable `x<n>` that is re-bound at a type of the other kind (int <-> qubit)"""
        r = self.rng
        xs = sorted(v for v in defd if v[0] == "x")
        if not xs or r.random() < 0.3:
            n = self.counter.get("x", 0)
            self.counter["x"] = n + 1
            if r.random() < 0.5:
                v = f"xQ{n}"
                return ("call", [(v, ())], "qubit", []), owned | {(v, ())}, defd | {v}
            v = f"xI{n}"
            return ("move", [(v, ())], []), owned, defd | {v}
        v = r.choice(xs)
        other = ("xI" if v[1] == "Q" else "xQ") + v[2:]
        if v[1] == "Q":
            if (v, ()) in owned:
                # the qubit must be gone before the name is re-bound: consume it now (the re-binding follows later)
                return ("call", [], r.choice(["use", "discard"]), [(v, ())]), owned - {(v, ())}, defd
            return ("move", [(other, ())], []), owned, (defd - {v}) | {other}
        if r.random() < 0.5:
            n = self.fresh("I")
            return ("call", [(n, ())], "geti", [(v, ())]), owned, defd | {n}
        return ("call", [(other, ())], "qubit", []), owned | {(other, ())}, (defd - {v}) | {other}

    def empty_places(self, owned, defd):
        """defined places none of whose linear leaves is owned"""
        out = []

        def go(pl):
            ll = lin_leaves(pl)
            if ll and not any(l in owned for l in ll):
                out.append(pl)
            for el, _t in sub_types(place_type(pl)):
                go((pl[0], pl[1] + (el,)))

        for v in sorted(defd):
            if vtype(v) not in ("I", "B"):
                go((v, ()))
        return out

    def repair(self, owned, target, defd):
        """statements taking `owned` to `target` (both sets of linear leaves)"""
        out = []
        for l in sorted(owned - target, key=str):
            out.append(("call", [], self.rng.choice(["use", "discard"]), [l]))
        for l in sorted(target - owned, key=str):
            if any(isinstance(e, int) for e in l[1]):
                return None  # a tuple element cannot be re-assigned
            out.append(("call", [l], self.rng.choice(["qubit", "mk"]), []))
        return out

    def block(self, owned, defd, depth, in_loop, budget):
        """-> (stmts, owned', defd', falls_through)"""
        r = self.rng
        out = []
        n = r.randint(1, max(1, budget))
        for _ in range(n):
            k = r.random()
            if depth < 3 and k < 0.16 and self.conds:
                c = r.choice(self.conds)
                if r.random() < 0.25:
                    qs = [p for p in self.whole_places(owned, defd, "Q") if self.usable(p, "o")]
                    if qs:
                        c = ("measure", r.choice(qs))
                        owned = owned - set(lin_leaves(c[1]))
                t, ot, dt, ft = self.block(owned, defd, depth + 1, in_loop, max(1, budget // 2))
                e, oe, de, fe = (self.block(owned, defd, depth + 1, in_loop, max(1, budget // 2)) if r.random() < 0.7 else ([], owned, defd, True))
                if ft and fe:
                    # make both ends agree (on the else side's state, or the then side's)
                    if r.random() < 0.5:
                        rep = self.repair(ot, oe, dt)
                        if rep is None:
                            rep2 = self.repair(oe, ot, de)
                            if rep2 is None:
                                continue
                            e, oe = e + rep2, ot
                        else:
                            t, ot = t + rep, oe
                    else:
                        rep = self.repair(oe, ot, de)
                        if rep is None:
                            rep2 = self.repair(ot, oe, dt)
                            if rep2 is None:
                                continue
                            t, ot = t + rep2, oe
                        else:
                            e, oe = e + rep, ot
                    out.append(("if", c, t, e))
                    owned, defd = ot, dt & de
                elif ft:
                    out.append(("if", c, t, e))
                    owned, defd = ot, dt
                elif fe:
                    out.append(("if", c, t, e))
                    owned, defd = oe, de
                else:
                    out.append(("if", c, t, e))
                    return out, owned, defd, False
            elif depth < 3 and k < 0.26 and self.conds:
                c = r.choice(self.conds)
                mq = None
                if r.random() < 0.2:
                    qs = [p for p in self.whole_places(owned, defd, "Q") if self.usable(p, "o") and self.assignable(p)]
                    if qs:
                        # `while measure(q): …`: q is consumed by every evaluation of the condition, so the body
                        # (and every continue) must refill it; after the loop it is gone
                        mq = r.choice(qs)
                        c = ("measure", mq)
                inside = owned - set(lin_leaves(mq)) if mq else owned
                start = owned
                b, ob, db, fb = self.block(inside, defd, depth + 1, (start if not mq else start, defd), max(1, budget // 2))
                if fb:
                    rep = self.repair(ob, start, db)
                    if rep is None:
                        continue
                    b = b + rep
                out.append(("while", c, b))
                owned = inside
            elif depth < 2 and k < 0.29:
                # while True: the loop only exits through break (state at break = state after the loop)
                b, ob, db, fb = self.block(owned, defd, depth + 1, (owned, defd), max(1, budget // 2))
                has_break = _has_break(b)
                if fb:
                    rep = self.repair(ob, owned, db)
                    if rep is None:
                        continue
                    b = b + rep
                out.append(("wtrue", b))
                if not has_break:
                    return out, owned, defd, False
            elif in_loop and k < 0.34:
                rep = self.repair(owned, in_loop[0], defd)
                if rep is None:
                    continue
                out += rep
                out.append((r.choice(["break", "continue"]),))
                return out, owned, defd, False
            elif k < 0.38 and depth > 0:
                rs = self.final_return(owned, defd)
                if rs is None:
                    continue
                out += rs
                return out, owned, defd, False
            else:
                st = self.step(owned, defd)
                if st is None:
                    continue
                s, owned, defd = st
                out.append(s)
        return out, owned, defd, True

    def final_return(self, owned, defd):
        """consume everything but the borrowed leaves and the returned value, then return"""
        r = self.rng
        keep = set()
        for v in self.borrowed:
            keep |= set(lin_leaves((v, ())))
        out = []
        ret_places = []
        if self.ret:
            cands = [p for p in self.whole_places(owned, defd, self.ret) if self.usable(p, "o") and not set(lin_leaves(p)) & keep]
            if cands:
                rp = r.choice(cands)
            else:
                rp = (self.fresh(self.ret), ())
                out.append(self.produce(rp))
                owned = owned | set(lin_leaves(rp))
                defd = defd | {rp[0]}
            ret_places = [rp]
            keep2 = keep | set(lin_leaves(rp))
        else:
            keep2 = keep
        rep = self.repair(owned, (owned & keep2) | keep, defd)
        if rep is None:
            return None
        out += rep
        if self.ret == "P" and len(ret_places) == 1 and ret_places[0][1] == () and r.random() < 0.4:
            # `return a, b` instead of `return p`
            a, b = (self.fresh("Q"), ()), (self.fresh("Q"), ())
            out.append(("move", [a, b], [ret_places[0]]))
            ret_places = [a, b]
        out.append(("ret", ret_places))
        return out

    def program(self):
        r = self.rng
        params = []
        defd = set()
        owned = set()
        for _ in range(r.randint(0, 3)):
            ty = r.choice(["Q", "Q", "S", "T", "U", "P", "R", "A", "AT"])
            v = self.fresh(ty)
            b = r.random() < 0.5
            params.append((v, b))
            defd.add(v)
            owned |= set(lin_leaves((v, ())))
            if b:
                self.borrowed.add(v)
        for _ in range(r.randint(1, 2)):
            c = self.fresh("B")
            params.append((c, False))
            self.conds.append(c)
            defd.add(c)
        self.ret = r.choice([None, None, "Q", "Q", "S", "P"])
        body, owned, defd, ft = self.block(owned, defd, 0, None, self.size)
        if ft:
            rs = self.final_return(owned, defd)
            if rs is None:
                return None
            if self.ret is None and r.random() < 0.5 and rs[-1] == ("ret", []):
                rs = rs[:-1]
            body = body + rs
        return {"params": params, "ret": self.ret, "body": body}


def _has_break(ss):
    for s in ss:
        if s[0] == "break":
            return True
        if s[0] == "if" and (_has_break(s[2]) or _has_break(s[3])):
            return True
    return False


def _paths(ss, pre=()):
    """addresses of all statements: tuples of indices / branch selectors"""
    out = []
    for i, s in enumerate(ss):
        out.append(pre + (i,))
        if s[0] == "if":
            out += _paths(s[2], pre + (i, 2)) + _paths(s[3], pre + (i, 3))
        elif s[0] == "while":
            out += _paths(s[2], pre + (i, 2))
        elif s[0] == "wtrue":
            out += _paths(s[1], pre + (i, 1))
    return out


def _get_list(body, addr):
    """the statement list containing address addr, and the index"""
    ss = body
    a = list(addr)
    while len(a) > 1:
        ss = ss[a[0]][a[1]]
        a = a[2:]
    return ss, a[0]


def _copy(x):
    if isinstance(x, list):
        return [_copy(i) for i in x]
    if isinstance(x, tuple):
        return tuple(_copy(i) for i in x)
    if isinstance(x, dict):
        return {k: _copy(v) for k, v in x.items()}
    return x


def _listify(ss):
    """statements as nested lists so they can be edited in place"""
    out = []
    for s in ss:
        if s[0] == "if":
            out.append(["if", s[1], _listify(s[2]), _listify(s[3])])
        elif s[0] == "while":
            out.append(["while", s[1], _listify(s[2])])
        elif s[0] == "wtrue":
            out.append(["wtrue", _listify(s[1])])
        else:
            out.append(list(s))
    return out


def _tuplify(ss):
    out = []
    for s in ss:
        if s[0] == "if":
            out.append(("if", s[1], _tuplify(s[2]), _tuplify(s[3])))
        elif s[0] == "while":
            out.append(("while", s[1], _tuplify(s[2])))
        elif s[0] == "wtrue":
            out.append(("wtrue", _tuplify(s[1])))
        elif s[0] in ("call",):
            out.append(("call", [tuple(map(_t2, [t]))[0] for t in s[1]], s[2], [_t2(a) for a in s[3]]))
        elif s[0] == "move":
            out.append(("move", [_t2(t) for t in s[1]], [_t2(a) for a in s[2]]))
        elif s[0] == "ret":
            out.append(("ret", [_t2(a) for a in s[1]]))
        else:
            out.append(tuple(s))
    return out


def _t2(pl):
    if pl[0] == "c" and len(pl) == 3 and isinstance(pl[2], list):
        return ("c", pl[1], [_t2(a) for a in pl[2]])
    return (pl[0], tuple(pl[1]))


SWAP = {"use": "bor", "bor": "use", "discard": "h", "h": "discard", "useS": "borS", "borS": "useS", "useT": "borT", "borT": "useT",
        "useU": "borU", "borU": "useU", "useP": "borP", "borP": "useP", "useR": "borR", "borR": "useR", "use2": "bor2", "bor2": "use2",
        "cx": "use2", "mix": "use2", "idq": "bq", "bq": "idq"}


def mutate(prog, rng):
    """one near-miss mutation; returns (prog', tag) or None"""
    p = _copy(prog)
    body = _listify(p["body"])
    addrs = _paths(body)
    if not addrs:
        return None
    conds = [v for v, _b in p["params"] if v[0] == "c"]
    kind = rng.choice(["drop", "dup", "swap", "guard_if", "guard_while", "retarget", "early_ret", "flip_param", "swap_branches",
                       "dup_later", "retarget_tgt", "drop_tgt", "drop_break"])
    addr = rng.choice(addrs)
    ss, i = _get_list(body, addr)
    s = ss[i]
    if kind == "drop":
        if s[0] in ("if", "while", "wtrue") and rng.random() < 0.7:
            return None
        if s[0] == "ret" and s[1]:
            return None
        del ss[i]
    elif kind == "dup":
        if s[0] not in ("call", "move"):
            return None
        ss.insert(i, _copy(s))
    elif kind == "dup_later":
        if s[0] not in ("call", "move"):
            return None
        a2 = rng.choice(addrs)
        ss2, j = _get_list(body, a2)
        ss2.insert(min(j + 1, len(ss2)), _copy(s))
    elif kind == "swap":
        if s[0] != "call" or s[2] not in SWAP:
            return None
        s[2] = SWAP[s[2]]
        if len(FUNS[s[2]][0]) != len(s[3]):
            return None
        if FUNS[s[2]][1] is None:
            s[1] = []
        elif not s[1]:
            return None
    elif kind == "guard_if":
        if not conds or s[0] not in ("call", "move"):
            return None
        ss[i] = ["if", rng.choice(conds), [s], []]
    elif kind == "guard_while":
        if not conds or s[0] not in ("call", "move"):
            return None
        ss[i] = ["while", rng.choice(conds), [s]]
    elif kind == "retarget":
        # replace an argument by another place of the same type occurring in the program
        if s[0] not in ("call", "move", "ret"):
            return None
        srcs = s[3] if s[0] == "call" else (s[2] if s[0] == "move" else s[1])
        if not srcs:
            return None
        k = rng.randrange(len(srcs))
        if is_call_arg(srcs[k]):
            return None
        ty = place_type(_t2(srcs[k]))
        pool = sorted({_t2(a) for a in _all_places(body) + [(v, ()) for v, _b in p["params"]] if place_type(_t2(a)) == ty} - {_t2(srcs[k])}, key=str)
        if not pool:
            return None
        srcs[k] = rng.choice(pool)
    elif kind == "retarget_tgt":
        # assign to another place of the same type (overwrite of a live value, shadowing of a borrowed variable)
        if s[0] not in ("call", "move") or not s[1]:
            return None
        k = rng.randrange(len(s[1]))
        ty = place_type(_t2(s[1][k]))
        pool = sorted({_t2(a) for a in _all_places(body) + [(v, ()) for v, _b in p["params"]]
                       if place_type(_t2(a)) == ty and not any(isinstance(e, int) for e in a[1])} - {_t2(s[1][k])}, key=str)
        if not pool:
            return None
        s[1][k] = rng.choice(pool)
    elif kind == "drop_tgt":
        if s[0] != "call" or not s[1]:
            return None
        s[1] = []
    elif kind == "drop_break":
        if s[0] not in ("break", "continue"):
            return None
        del ss[i]
    elif kind == "early_ret":
        if p["ret"] is not None or not conds:
            return None
        ss.insert(i, ["if", rng.choice(conds), [["ret", []]], []])
    elif kind == "flip_param":
        cands = [k for k, (v, _b) in enumerate(p["params"]) if v[0] not in "cn"]
        if not cands:
            return None
        k = rng.choice(cands)
        p["params"][k] = (p["params"][k][0], not p["params"][k][1])
    elif kind == "swap_branches":
        if s[0] != "if":
            return None
        s[2], s[3] = s[3], s[2]
    p["body"] = _tuplify(body)
    return p, kind


def _all_places(ss):
    out = []
    for s in ss:
        if s[0] == "call":
            out += list(s[1]) + [a for a in s[3] if not is_call_arg(a)]
        elif s[0] == "move":
            out += list(s[1]) + list(s[2])
        elif s[0] == "ret":
            out += list(s[1])
        elif s[0] == "if":
            out += _all_places(s[2]) + _all_places(s[3])
        elif s[0] == "while":
            out += _all_places(s[2])
        elif s[0] == "wtrue":
            out += _all_places(s[1])
    return out


def nestify(prog, rng):
    """wrap some call arguments into nested calls (order of consumption inside one statement)"""
    changed = [False]

    def arg(a, mode, ty):
        if is_call_arg(a) or ty != "Q":
            return a
        x = rng.random()
        if mode == "o":
            if x < 0.18:
                changed[0] = True
                return ("c", "idq", [arg(a, "o", "Q")])
            if x < 0.21:
                changed[0] = True
                return ("c", "bq", [a])          # borrows the place, yields a fresh qubit
            if x < 0.23:
                changed[0] = True
                return ("c", "cons", [a, a])     # consumes and borrows the same place
        elif mode == "b":
            if x < 0.04:
                changed[0] = True
                return ("c", "mk", [])           # an unnamed qubit lent to the callee
            if x < 0.08:
                changed[0] = True
                return ("c", "idq", [a])         # a moved qubit lent to the callee
        return a

    def go(ss):
        out = []
        for s in ss:
            if s[0] == "call":
                params = FUNS[s[2]][0]
                out.append(("call", s[1], s[2], [arg(a, m, t) for (m, t), a in zip(params, s[3])]))
            elif s[0] == "if":
                out.append(("if", s[1], go(s[2]), go(s[3])))
            elif s[0] == "while":
                out.append(("while", s[1], go(s[2])))
            elif s[0] == "wtrue":
                out.append(("wtrue", go(s[1])))
            else:
                out.append(s)
        return out

    body = go(prog["body"])
    return ({**prog, "body": body}, changed[0])


def gen_case(rng, size):
    """-> (prog, tags)"""
    for _ in range(50):
        g = Gen(rng, size)
        try:
            prog = g.program()
        except (KeyError, IndexError):
            prog = None
        if prog is None:
            continue
        tags = []
        nm = rng.choice([0, 1, 1, 1, 2])
        for _ in range(nm):
            for _try in range(6):
                m = mutate(prog, rng)
                if m is not None:
                    prog, t = m
                    tags.append(t)
                    break
        if rng.random() < 0.5:
            prog, ch = nestify(prog, rng)
            if ch:
                tags.append("nested")
        return prog, tags
    raise RuntimeError("generator failed")


# --------------------------------------------------------------------------------------
# hand-written cases (facts listed in DESIGN.md and the defect witnesses); also in corpus/c06
# --------------------------------------------------------------------------------------

def _corpus():
    d = os.path.join(vlib.VERIF, "corpus", "c06")
    out = []
    if os.path.isdir(d):
        for fn in sorted(os.listdir(d)):
            if fn.endswith(".json"):
                for c in json.load(open(os.path.join(d, fn))):
                    out.append(c)
    return out


def _norm_cls(c):
    return c


def _class_ok(real_cls, model_reply):
    if not model_reply.startswith("err "):
        return False
    return real_cls in model_reply[4:].split("|")


def _has_ctrl(ss):
    return any(s[0] in ("if", "while", "wtrue") for s in ss)


def _from_json(x):
    """JSON round trip turns tuples into lists; restore the canonical shape"""
    def pl(p):
        if p[0] == "c" and len(p) == 3 and isinstance(p[2], list):
            return ("c", p[1], [pl(a) for a in p[2]])
        return (p[0], tuple(p[1]))

    def cd(c):
        return c if isinstance(c, str) else ("measure", pl(c[1]))

    def st(s):
        k = s[0]
        if k == "call":
            return ("call", [pl(t) for t in s[1]], s[2], [pl(a) for a in s[3]])
        if k == "move":
            return ("move", [pl(t) for t in s[1]], [pl(a) for a in s[2]])
        if k == "ret":
            return ("ret", [pl(a) for a in s[1]])
        if k == "if":
            return ("if", cd(s[1]), [st(i) for i in s[2]], [st(i) for i in s[3]])
        if k == "while":
            return ("while", cd(s[1]), [st(i) for i in s[2]])
        if k == "wtrue":
            return ("wtrue", [st(i) for i in s[1]])
        return tuple(s)

    return {"params": [(v, bool(b)) for v, b in x["params"]], "ret": x["ret"], "body": [st(s) for s in x["body"]]}


def evaluate(ctx, cases):
    """cases: list of (prog, tags, origin).  Runs real + oracle, batches the model."""
    rows = []
    for prog, tags, origin in cases:
        src = show_prog(prog)
        try:
            orc = oracle(prog)
        except Exception as e:  # noqa: BLE001
            ctx.bump("oracle-error:" + type(e).__name__)
            continue
        real = run_real(src)
        rows.append((prog, tags, origin, src, orc, real))
    reqs = [r[5][2] for r in rows if r[5][2] is not None]
    replies = iter(ctx.driver(DRIVER, reqs)) if reqs else iter(())
    for prog, tags, origin, src, orc, real in rows:
        outcome, cls, req, note = real
        model = next(replies) if req is not None else None
        if outcome == "other":
            ctx.bump("skipped:" + str(cls))
            continue
        kind = outcome + (":" + cls if cls else "")
        nontrivial = outcome == "reject" or _has_ctrl(prog["body"])
        ctx.count(src, nontrivial=nontrivial, kind=kind)
        for t in tags or ["valid"]:
            ctx.bump("gen:" + t.split(":")[0])
        replay = {"program": prog, "source": src, "real": [outcome, cls], "oracle": list(orc), "model": model,
                  "tags": tags, "origin": origin, "note": note}
        if outcome == "crash":
            ctx.violation("crash:" + src, f"the real checker crashed ({cls}) on a core-fragment program", replay)
            continue
        if outcome != orc[0]:
            gap = orc[2]
            if outcome == "reject" and gap and cls == GAP_CLASS[gap[0]]:
                ctx.violation("known-gap:" + gap[0], f"real checker rejects ({cls}) a program all of whose paths are good: {gap[1]}", replay)
            else:
                what = (f"real checker accepts a program with a bad path ({orc[1]})" if outcome == "ok"
                        else f"real checker rejects ({cls}) a program all of whose paths are good")
                ctx.violation("prog:" + src, what, replay)
        if req is None:
            ctx.bump("model-skipped:" + note[:40])
            continue
        if model == "bad-kinds":
            ctx.broke("the CFG the real compiler handed to check_cfg_linearity is not well-kinded (Prog.KindsOK, hypothesis of "
                      f"the theorems):\n{src}")
            continue
        if model is not None and model.startswith("ok"):
            if outcome == "ok" and note.startswith("live:"):
                if " ".join(model.split()[1:]) != note[5:]:
                    ctx.broke(f"correspondence (place liveness): real rows `{note[5:]}`, model `{model[3:]}`:\n{src}")
                else:
                    ctx.bump("live-rows-compared")
            model = "ok"
        if model == "ok":
            if outcome != "ok":
                ctx.broke(f"correspondence Model/Linearity.lean vs linearity_checker.py: real rejects ({cls}), model accepts:\n{src}")
        elif model == "bad-wf":
            ctx.broke(f"the CFG the real compiler handed to check_cfg_linearity does not have the shape Prog.WF assumed by the theorems:\n{src}")
        elif model.startswith("err "):
            if outcome != "reject":
                ctx.broke(f"correspondence Model/Linearity.lean vs linearity_checker.py: real accepts, model says {model}:\n{src}")
            elif not _class_ok(cls, model):
                ctx.broke(f"correspondence (error class): real {cls}, model {model}:\n{src}")
        else:
            ctx.broke(f"model driver reply `{model}` on:\n{src}")


def small_scope():
    """every program of 5 control skeletons x 3 ownership modes x 4 slots x 5 actions, on one qubit `q0`
    and on one struct `s0` (field a): exhaustive within that scope"""
    q, sa, s = ("q0", ()), ("s0", ("a",)), ("s0", ())
    menus = {
        "q": [None, ("call", [], "use", [q]), ("call", [], "h", [q]), ("call", [q], "qubit", []), ("ret", [])],
        "s": [None, ("call", [], "use", [sa]), ("call", [], "borS", [s]), ("call", [sa], "mk", []), ("call", [], "useS", [s])],
    }

    def skel(k, pre, a, b, post):
        c = "c0"
        body = {
            0: [("if", c, a, b)],
            1: [("while", c, a + b)],
            2: [("wtrue", a + [("if", c, [("break",)], [])] + b)],
            3: [("while", c, a + [("if", c, [("continue",)], [])] + b)],
            4: [("while", c, [("if", c, a, b)])],
        }[k]
        return pre + body + post

    out = []
    for kind, menu in menus.items():
        v = "q0" if kind == "q" else "s0"
        for mode in ("owned", "borrowed", "local"):
            for k in range(5):
                for pre in menu:
                    for a in menu:
                        for b in menu:
                            for post in menu:
                                sl = [[x] if x else [] for x in (pre, a, b, post)]
                                body = skel(k, *sl)
                                if mode == "local":
                                    body = [("call", [(v, ())], "qubit" if kind == "q" else "mkS", [])] + body
                                    params = [("c0", False)]
                                else:
                                    params = [(v, mode == "borrowed"), ("c0", False)]
                                out.append(({"params": params, "ret": None, "body": body}, ["scope:" + kind + ":" + mode + ":" + str(k)]))
    return out


def rebind_scope():
    """a variable re-bound at a type of the other kind (qubit <-> int) in a block it flows into:
    all combinations of start kind x use before the control statement x control statement x
    {use old, re-bind, use new} in the block after it (192 programs)"""
    out = []
    for start in ("Qparam", "Qlocal", "Ilocal"):
        k0 = start[0]
        old, new = (f"x{k0}0", ()), (f"x{'I' if k0 == 'Q' else 'Q'}0", ())

        def touch(pl, consume, n):
            if pl[0][1] == "Q":
                return ("call", [], "use" if consume else "h", [pl])
            return ("call", [(f"n{n}", ())], "geti", [pl])

        def define(pl):
            return ("call", [pl], "qubit", []) if pl[0][1] == "Q" else ("move", [pl], [])

        for s1 in (False, True):
            for ctl in range(4):
                for a in (False, True):
                    for rb in (False, True):
                        for b in (False, True):
                            body = [] if start == "Qparam" else [define(old)]
                            if s1:
                                body.append(touch(old, False, 0))
                            if ctl == 1:
                                body.append(("if", "c0", [("pass",)], []))
                            elif ctl == 2:
                                body.append(("while", "c0", [("pass",)]))
                            elif ctl == 3:
                                body.append(("while", "c0", [touch(old, False, 1)]))
                            if a:
                                body.append(touch(old, True, 2))
                            if rb:
                                body.append(define(new))
                            if b:
                                body.append(touch(new if rb else old, True, 3))
                            params = ([(old[0], False)] if start == "Qparam" else []) + [("c0", False)]
                            out.append(({"params": params, "ret": None, "body": body}, ["rebind:" + start]))
    return out


def subscript_scope():
    """element borrows of a linear array: two actions from a menu, straight-line / across a branch, array owned /
    borrowed / local (moving an element out is rejected, lending it is not a use of the array)"""
    a, q, n = ("a0", ()), ("q0", ()), ("n0", ())
    e0, e1, en = ("a0", ("#0",)), ("a0", ("#1",)), ("a0", ("#n0",))
    menu = [
        ("call", [], "h", [e0]), ("call", [], "cx", [e0, e1]), ("call", [], "bor", [en]), ("call", [], "use", [e0]),
        ("move", [("q1", ())], [e1]), ("call", [], "borA", [a]), ("call", [], "useA", [a]), ("call", [], "mix", [e0, q]),
        ("call", [("q2", ())], "cons", [q, e1]), ("ret", [e0]),
        # the array lent as a whole and through one of its elements in the same call
        ("call", [], "borAQ", [a, e0]), ("call", [], "borQA", [e1, a]),
    ]
    out = []
    for mode in ("owned", "borrowed", "local"):
        for x in menu:
            for y in menu:
                for k in range(2):
                    if x[0] == "ret":
                        continue
                    body = [("move", [n], [])]
                    if mode == "local":
                        body.append(("call", [a], "mkA", []))
                    body += [x, y] if k == 0 else [x, ("if", "c0", [y], [])]
                    ret = "Q" if y[0] == "ret" else None
                    params = ([] if mode == "local" else [("a0", mode == "borrowed")]) + [("q0", False), ("c0", False)]
                    out.append(({"params": params, "ret": ret, "body": body}, ["subscript:" + mode]))
    return out


def struct_array_scope():
    """arrays whose elements are structs {q: qubit, n: int}: reading a copyable field, moving / lending the linear
    field, moving / lending the whole element -- taking anything out of an element of non-copyable type is a
    move-out unless it is a borrow that is handed back"""
    b, n = ("b0", ()), ("n0", ())
    e, en = ("b0", ("#0",)), ("b0", ("#n0",))
    menu = [
        ("move", [("n1", ())], [e[:1] + (e[1] + ("n",),)]), ("call", [("n2", ())], "geti", [(en[0], en[1] + ("n",))]),
        ("call", [], "h", [(e[0], e[1] + ("q",))]), ("call", [], "use", [(e[0], e[1] + ("q",))]),
        ("move", [("q1", ())], [(en[0], en[1] + ("q",))]), ("call", [], "borT", [e]), ("call", [], "useT", [en]),
        ("move", [("t1", ())], [e]), ("call", [], "borAT", [b]), ("call", [], "cx", [(e[0], e[1] + ("q",)), (en[0], en[1] + ("q",))]),
        ("call", [], "gpeek", [(e[0], e[1] + ("n",))]), ("call", [], "gpeek", [(e[0], e[1] + ("q",))]),
    ]
    out = []
    for mode in ("owned", "borrowed", "local"):
        for x in menu:
            for k in range(3):
                body = [("move", [n], [])]
                if mode == "local":
                    body.append(("call", [b], "mkAT", []))
                body += [x] if k == 0 else ([("if", "c0", [x], [])] if k == 1 else [("while", "c0", [x])])
                if mode != "borrowed":
                    body.append(("call", [], "useAT", [b]))
                params = ([] if mode == "local" else [("b0", mode == "borrowed")]) + [("c0", False)]
                out.append(({"params": params, "ret": None, "body": body}, ["structarray:" + mode]))
    return out


def generic_scope():
    """two calls of generic helpers at different instantiations within one function, straight-line / across a
    branch / across a loop, in both orders (a memoised or shared signature would judge one at the other's type)"""
    q, s_, n = ("q0", ()), ("s0", ()), ("n0", ())
    calls = [
        ("call", [], "gpeek", [n]), ("call", [], "gpeek", [q]), ("call", [], "gpeek", [s_]),
        ("call", [], "gpeek", [("c", "mk", [])]), ("call", [], "gpeek", [("c", "mkS", [])]),
        ("call", [], "gtake", [n]), ("call", [], "gtake", [("c", "mk", [])]), ("call", [], "gtake", [q]),
        ("call", [], "gpeek2", [n, ("c", "qubit", [])]), ("call", [], "gpeek2", [q, n]),
        ("call", [], "gpeekd", [n]), ("call", [], "gpeekc", [n]),
    ]
    out = []
    for a in calls:
        for b in calls:
            for k in range(3):
                body = [("move", [n], [])]
                if k == 0:
                    body += [a, b]
                elif k == 1:
                    body += [a, ("if", "c0", [b], [])]
                else:
                    body += [a, ("while", "c0", [b])]
                body += [("call", [], "useS", [s_])]
                out.append(({"params": [("q0", True), ("s0", False), ("c0", False)], "ret": None, "body": body},
                            ["generic:" + str(k)]))
    return out


def tie(ctx):
    cases = []
    for c in _corpus():
        cases.append((_from_json(c["program"]), c.get("tags", []), "corpus:" + c.get("name", "")))
    if ctx.replay_in:
        rp = ctx.replay_in["replay"]
        if "program" in rp:
            cases.append((_from_json(rp["program"]), rp.get("tags", []), "replay"))
    scope = small_scope()
    if ctx.quick:
        scope = ctx.rng.sample(scope, 100)
    else:
        ctx.extra["exhaustive"] = True
        ctx.extra["exhaustive_note"] = (f"all {len(scope)} programs of the small scope: 5 control skeletons (if/else, while, while True + break, "
                                        "while + continue, if inside while) x {owned parameter, borrowed parameter, local} x 4 statement slots x 5 actions, "
                                        "once on a qubit variable and once on a struct with field access")
    for prog, tags in scope:
        cases.append((prog, tags, "scope"))
    for prog, tags in rebind_scope():
        cases.append((prog, tags, "rebind-scope"))
    for prog, tags in generic_scope():
        cases.append((prog, tags, "generic-scope"))
    for prog, tags in subscript_scope():
        cases.append((prog, tags, "subscript-scope"))
    for prog, tags in struct_array_scope():
        cases.append((prog, tags, "struct-array-scope"))
    n = ctx.n(300, 50000)
    for i in range(n):
        size = ctx.rng.choice([2, 3, 4, 6, 8])
        prog, tags = gen_case(ctx.rng, size)
        cases.append((prog, tags, "gen"))
    # evaluate in batches (one driver call each)
    B = 3000
    for k in range(0, len(cases), B):
        evaluate(ctx, cases[k:k + B])


def search(ctx, why):
    """deeper failing-input search when a theorem or the correspondence broke: more programs, oracle vs real"""
    cases = []
    for i in range(ctx.n(1500, 6000)):
        prog, tags = gen_case(ctx.rng, ctx.rng.choice([2, 3, 4, 6]))
        cases.append((prog, tags, "search"))
    evaluate(ctx, cases)


if __name__ == "__main__":
    vlib.main(sys.modules[__name__])
