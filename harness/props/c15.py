"""C15 — Overloaded calls pick the first applicable variant."""
from __future__ import annotations

import json
import os
import sys

sys.path.insert(0, os.path.dirname(os.path.dirname(os.path.abspath(__file__))))
import vlib

PID = "C15"
THEOREM_MODULES = ["GuppyVerif.Props.C15"]
DRIVER = "C15"
RULE = (
    "overload sets of 2-4 variants: declared functions (arity 0-3; parameter types nat/int/float/bool/qubit, tuples, quantified "
    "T0/T1; `nat @comptime` parameters; `qubit @owned` vs borrowed parameters; result numeric/bool/tuple/quantified), nested "
    "@guppy.overload functions used as variants, a custom-checker variadic function (any number of ints), and variants with an "
    "ill-formed signature (`int @owned`, non-type annotation, undefined name, wrong number of type arguments, bad result type, "
    "illegal comptime flag) at any position x argument lists "
    "(typed variables incl. tuple-typed and qubit ones, int/negative int/float/bool literals, tuple literals, nested tuple "
    "literals) in synthesis position (`y = ov(..)`) and three checking positions (`y: T = ov(..)`, `return ov(..)`, "
    "`consume(ov(..))`), called from a regular function and (subset) from a `@guppy.comptime` function; for about 30% of the sets "
    "2-4 calls with different argument lists of the same arity are additionally written into ONE function in a generated order "
    "(history dimension), each call judged against its own direct-call oracle; every nested overloaded variant is also called "
    "directly before and after outer overloaded functions (the set itself, and one listing it first) are defined over it "
    "(aliasing dimension).  Variants are derived from "
    "the argument list by near-miss edits (widen a numeric, break a late parameter so that earlier arguments are coerced first, "
    "change arity, generalise to a type variable, change the result type, demand a compile-time value).  non-trivial = at least 2 "
    "variants and the first variant does not accept (per the direct-call oracle)."
)
ASSUMPTIONS = [
    "a direct call `v_k(args)` in a fresh program is the reference for 'variant k accepts' (the property's own wording); a direct "
    "call that fails only in the linearity checker counts as accepted by signature, and the overloaded call must then fail the same way",
    "result-type variables of generated variants occur in their parameters (otherwise the real check_call makes a second, "
    "expected-type-driven pass that the model does not have)",
]
UNMODELLED = [
    "lists, function-typed arguments, comptime parameters other than `nat @comptime` (declarations cannot be monomorphized for them), "
    "custom checkers other than the all-ints one used in the tie",
    "the diagnostic text of OverloadNoMatchError (argument types printed, available-overloads hint)",
    "compile_call of the chosen variant (the call is replaced by a plain GlobalCall of the variant; lowering is C01/C13)",
    "comptime callers: only the chosen variant is compared (read from the lowered Call target), not the checked argument types",
]
MANIFEST = {
    "level_text": "Lean theorems over the modelled resolution loop, for all variant lists / argument lists / both positions: "
    "first_match (resolves to index i with outcome o iff i is the first listed variant that accepts and o is that variant's own "
    "outcome), reject_iff_none, same_as_direct, nested_accepts_iff, shared_eq_fresh_of_no_mutation, and d8_shared_violates_first_match "
    "(the pre-fix argument-sharing loop provably violates the property on the D8 witness).  Tied to /repo by generated overload sets "
    "run through the real check(): chosen variant (GlobalCall.def_id), result type and checked argument types read from the checked "
    "AST and compared with the model and with a direct-call oracle (each variant called directly in a fresh program, first success wins).",
    "level_note": "Model is of the repaired overloaded.py (fix 72c6a2d for D8, reworked by 68a571d: each attempt gets a fresh copy of the "
    "argument ASTs). The acceptance model (arity, nat<int<float widening, tuple literals element-wise, first-order matching of quantified "
    "parameters, `@comptime` needs a literal, exact result-type match, nested overloads, one custom checker) is hand-written and tied by "
    "sampling. Trusted: Lean kernel, Spec/C15.lean, the program printer.",
    "technique": "Lean 4 proof over a hand-written model + differential correspondence through real check() + direct-call oracle",
    "design_ref": "DESIGN.md §5 C15",
    "ready": True,
}

# ------------------------------------------------------------------ types / args (abstract)
# ty: "n" | "i" | "f" | "b" | "q" | ("t", [ty…]) | ("v", k)
# variant: [params, ret] | [params, ret, comptime flags, owned flags] | ["o", [sig…]] nested overload | "ai" custom checker
# case: {variants, args, exp, pos: syn|ann|ret|arg, comptime_caller: bool}
# arg: ("y", ty) | "li" | "ln" | "lf" | "lb" | ("t", [arg…])
NUM = ["n", "i", "f"]
BASE = ["n", "i", "f", "b"]


def ty_src(t):
    if isinstance(t, str):
        return {"n": "nat", "i": "int", "f": "float", "b": "bool", "q": "qubit"}[t]
    if t[0] == "v":
        return f"T{t[1]}"
    return "tuple[" + ", ".join(ty_src(x) for x in t[1]) + "]"


def ty_sx(t):
    if isinstance(t, str):
        return t
    if t[0] == "v":
        return f"(v {t[1]})"
    return "(t " + " ".join(ty_sx(x) for x in t[1]) + ")"


def ty_name(t):
    if isinstance(t, str):
        return t
    return "t" + "".join(ty_name(x) for x in t[1]) + "e"


def arg_sx(a):
    if isinstance(a, str):
        return a
    if a[0] == "y":
        return f"(y {ty_sx(a[1])})"
    return "(t " + " ".join(arg_sx(x) for x in a[1]) + ")"


def arg_src(a, used):
    if a == "li":
        return "2"
    if a == "ln":
        return "-3"
    if a == "lf":
        return "1.5"
    if a == "lb":
        return "True"
    if a[0] == "y" and a[1] == "q":
        n = sum(1 for u in used if isinstance(u, tuple) and u[0] == "qv")
        used.add(("qv", n))
        return f"xq{n}"
    if a[0] == "y":
        used.add(_freeze(a[1]))
        return "x_" + ty_name(a[1])
    return "(" + ", ".join(arg_src(x, used) for x in a[1]) + ")"


def _freeze(x):
    return tuple(_freeze(i) for i in x) if isinstance(x, (list, tuple)) else x


def _thaw(x):
    if isinstance(x, tuple):
        return (x[0], [_thaw(i) for i in x[1]]) if x[0] == "t" else ("v", x[1])
    return x


def tyvars(t, acc):
    if isinstance(t, str):
        return acc
    if t[0] == "v":
        acc.add(t[1])
    else:
        for x in t[1]:
            tyvars(x, acc)
    return acc


def synth_ty(a):
    """type an argument synthesizes to (literals default to int/float/bool)"""
    if a in ("li", "ln"):
        return "i"
    if a == "lf":
        return "f"
    if a == "lb":
        return "b"
    if a[0] == "y":
        return a[1]
    return ("t", [synth_ty(x) for x in a[1]])


# ------------------------------------------------------------------ program printing
CUSTOM = '''
class _AllInts(CustomCallChecker):
    def synthesize(self, args):
        for arg in args:
            arg, ty = ExprSynthesizer(self.ctx).synthesize(arg)
            if ty != int_type():
                raise GuppyTypeError(TypeMismatchError(arg, int_type(), ty))
        return GlobalCall(def_id=%(sink)s.id, args=[], type_args=[]), int_type()

    def check(self, args, ty):
        node, syn = self.synthesize(args)
        node, subst, _ = check_type_against(syn, ty, node, self.ctx)
        return node, subst


@custom_function(checker=_AllInts(), higher_order_value=False)
def %(name)s(*args): ...
'''
PRELUDE_EXTRA = (
    "from guppylang.std.quantum import qubit\n"
    "from guppylang_internals.decorator import custom_function\n"
    "from guppylang_internals.definition.custom import CustomCallChecker\n"
    "from guppylang_internals.checker.expr_checker import ExprSynthesizer, check_type_against\n"
    "from guppylang_internals.nodes import GlobalCall\n"
    "from guppylang_internals.tys.builtin import int_type\n"
    "from guppylang_internals.error import GuppyTypeError\n"
    "from guppylang_internals.checker.errors.type_errors import TypeMismatchError\n"
)


BAD_FORMS = {
    "owned": ("int @owned", "int"),            # @owned on a copyable type
    "nontype": ("not_a_type", "int"),          # annotation that is not a type (module-level `not_a_type = 42`)
    "undef": ("UndefinedT", "int"),            # undefined name
    "arity": ("array[int]", "int"),            # type constructor with too few arguments
    "arity3": ("array[int, 2, 3]", "int"),     # ... too many
    "retbad": ("int", "UndefinedR"),           # ill-formed result type
    "ctfloat": ("float @comptime", "int"),     # comptime flag that a declaration cannot have
}


def vkind(v):
    if v == "ai":
        return "ai"
    if v[0] == "x":
        return "x"
    return "o" if v[0] == "o" else "p"


def bad_decl(name, v, nargs):
    """declaration with an ill-formed signature: v = ["x", form, position of the bad parameter]"""
    ptxt, rtxt = BAD_FORMS[v[1]]
    n = max(nargs, 1)
    pos = v[2] % n
    ps = ", ".join(f"a{j}: {ptxt if j == pos else 'int'}" for j in range(n))
    return f"@guppy.declare\ndef {name}({ps}) -> {rtxt}: ..."


def sig_decl(name, sig):
    ps, r = sig[0], sig[1]
    cf = sig[2] if len(sig) > 2 else []
    of = sig[3] if len(sig) > 3 else []
    parts = []
    for j, p_ in enumerate(ps):
        t = ty_src(p_)
        if j < len(cf) and cf[j]:
            t += " @comptime"
        if j < len(of) and of[j]:
            t += " @owned"
        parts.append(f"a{j}: {t}")
    return f"@guppy.declare\ndef {name}({', '.join(parts)}) -> {ty_src(r)}: ..."


def program(case, direct=None, with_outer=None):
    """source of the test program; direct=k calls variant k directly instead of the overload.  A direct call is the
    oracle's fresh program and therefore does NOT define the outer overloaded function (with_outer defaults to False
    there); with_outer=True additionally defines, after `ov`, for every nested overloaded variant k an overloaded function
    `alias{k}` that lists v{k} FIRST and all other variants after it (the inner function shared by two outer ones)."""
    if with_outer is None:
        with_outer = direct is None
    used: set = set()
    args = ", ".join(arg_src(a, used) for a in case["args"])
    out = ['T0 = guppy.type_var("T0")', 'T1 = guppy.type_var("T1")', "not_a_type = 42"]
    for k, v in enumerate(case["variants"]):
        kind = vkind(v)
        if kind == "p":
            out.append(sig_decl(f"v{k}", v))
        elif kind == "x":
            out.append(bad_decl(f"v{k}", v, len(case["args"])))
        elif kind == "o":
            for j, sg in enumerate(v[1]):
                out.append(sig_decl(f"v{k}_{j}", sg))
            out.append("@guppy.overload(" + ", ".join(f"v{k}_{j}" for j in range(len(v[1]))) + f")\ndef v{k}(): ...")
        else:
            out.append(f"@guppy.declare\ndef sink{k}() -> int: ...")
            out.append(CUSTOM % {"sink": f"sink{k}", "name": f"v{k}"})
    if with_outer:
        out.append("@guppy.overload(" + ", ".join(f"v{k}" for k in range(len(case["variants"]))) + ")\ndef ov(): ...")
        if direct is not None:
            for k, v in enumerate(case["variants"]):
                if vkind(v) == "o":
                    rest = [f"v{j}" for j in range(len(case["variants"])) if j != k]
                    out.append(f"@guppy.overload(v{k}, {', '.join(rest)})\ndef alias{k}(): ...")
    callee = "ov" if direct is None else f"v{direct}"
    params = []
    for t in sorted(used, key=str):
        if isinstance(t, tuple) and t[0] == "qv":
            params.append(f"xq{t[1]}: qubit")
        else:
            params.append(f"x_{ty_name(_thaw(t))}: {ty_src(_thaw(t))}")
    params = ", ".join(params)
    pos, exp = case.get("pos", "syn" if case["exp"] is None else "ann"), case["exp"]
    dec = "@guppy.comptime" if case.get("comptime_caller") else "@guppy"
    call = f"{callee}({args})"
    if pos == "syn":
        out.append(f"{dec}\ndef test({params}) -> None:\n    y = {call}\n")
    elif pos == "ann":
        out.append(f"{dec}\ndef test({params}) -> None:\n    y: {ty_src(exp)} = {call}\n")
    elif pos == "ret":
        out.append(f"{dec}\ndef test({params}) -> {ty_src(exp)}:\n    return {call}\n")
    else:
        out.append(f"@guppy.declare\ndef consume(x: {ty_src(exp)}) -> None: ...")
        out.append(f"{dec}\ndef test({params}) -> None:\n    consume({call})\n")
    return "\n".join(out)


def program_seq(case, calls):
    """one function containing several calls of the same overloaded function, in the given order;
    calls: list of {args, exp, pos}; `ret` positions are written as annotated assignments"""
    used: set = set()
    head = program(dict(case, args=[], exp=None, pos="syn", comptime_caller=False)).rsplit("@guppy\ndef test(", 1)[0]
    stmts, extra = [], []
    for i, c in enumerate(calls):
        args = ", ".join(arg_src(a, used) for a in c["args"])
        pos = "ann" if c["pos"] == "ret" else c["pos"]
        if pos == "syn":
            stmts.append(f"    y{i} = ov({args})")
        elif pos == "ann":
            stmts.append(f"    y{i}: {ty_src(c['exp'])} = ov({args})")
        else:
            extra.append(f"@guppy.declare\ndef consume{i}(x: {ty_src(c['exp'])}) -> None: ...")
            stmts.append(f"    consume{i}(ov({args}))")
    params = []
    for t in sorted(used, key=str):
        if isinstance(t, tuple) and t[0] == "qv":
            params.append(f"xq{t[1]}: qubit")
        else:
            params.append(f"x_{ty_name(_thaw(t))}: {ty_src(_thaw(t))}")
    return head + "\n".join(extra) + ("\n" if extra else "") + f"@guppy\ndef test({', '.join(params)}) -> None:\n" + "\n".join(stmts) + "\n"


def run_seq(case, calls):
    """-> list of per-call results in statement order, or a single failure tuple"""
    import ast

    import feed
    from guppylang_internals.ast_util import get_type
    from guppylang_internals.engine import ENGINE
    from guppylang_internals.error import GuppyError
    from guppylang_internals.nodes import GlobalCall

    src = program_seq(case, calls)
    try:
        m = feed.load(src, prelude=feed.PRELUDE + PRELUDE_EXTRA)
    except Exception as e:  # noqa: BLE001
        return ("load-exception", type(e).__name__), src
    try:
        ids = {}
        for k, v in enumerate(case["variants"]):
            kind = vkind(v)
            if kind in ("p", "x"):
                ids[getattr(m, f"v{k}").id] = str(k)
            elif kind == "o":
                for j in range(len(v[1])):
                    ids[getattr(m, f"v{k}_{j}").id] = f"{k}.{j}"
            else:
                ids[getattr(m, f"sink{k}").id] = str(k)
        try:
            ENGINE.reset()
            ENGINE.check(m.test.id)
        except GuppyError as e:
            return ("err", type(e.error).__name__), src
        except BaseException as e:  # noqa: BLE001
            return ("crash", type(e).__name__), src
        found = []
        for bb in ENGINE.checked[m.test.id].cfg.bbs:
            for st in bb.statements:
                for n in ast.walk(st):
                    if isinstance(n, GlobalCall) and n.def_id in ids:
                        found.append(("ok", ids[n.def_id], real_ty(get_type(n)), [real_ty(get_type(a)) for a in n.args]))
        return found, src
    finally:
        feed.unload(m)


def real_ty(t):
    """real guppy Type -> abstract syntax"""
    from guppylang_internals.tys.ty import NumericType, OpaqueType, TupleType

    if isinstance(t, NumericType):
        return {"Nat": "n", "Int": "i", "Float": "f"}[t.kind.name]
    if isinstance(t, TupleType):
        return ("t", [real_ty(x) for x in t.element_types])
    if isinstance(t, OpaqueType) and t.defn.name == "bool":
        return "b"
    if isinstance(t, OpaqueType) and t.defn.name == "qubit":
        return "q"
    return "?" + str(t)


def run_real(case, direct=None, with_outer=None):
    """-> ('ok', idx, ret, argtys) | ('none',) | ('lin', class) | ('err', class) | ('crash', class)"""
    import ast

    import feed
    from guppylang_internals.ast_util import get_type
    from guppylang_internals.engine import ENGINE
    from guppylang_internals.error import GuppyError
    from guppylang_internals.nodes import GlobalCall

    src = program(case, direct, with_outer)
    try:
        m = feed.load(src, prelude=feed.PRELUDE + PRELUDE_EXTRA)
    except Exception as e:  # noqa: BLE001
        return ("load-exception", type(e).__name__), src
    try:
        ids = {}
        for k, v in enumerate(case["variants"]):
            kind = vkind(v)
            if kind in ("p", "x"):
                ids[getattr(m, f"v{k}").id] = str(k)
            elif kind == "o":
                for j in range(len(v[1])):
                    ids[getattr(m, f"v{k}_{j}").id] = f"{k}.{j}"
            else:
                ids[getattr(m, f"sink{k}").id] = str(k)
        if case.get("comptime_caller"):
            return _run_comptime(m, ids, case), src
        try:
            ENGINE.reset()
            ENGINE.check(m.test.id)
        except GuppyError as e:
            cls = type(e.error).__name__
            if cls == "OverloadNoMatchError":
                return ("none",), src
            if "linearity" in type(e.error).__module__:
                return ("lin", cls), src
            return ("err", cls), src
        except BaseException as e:  # noqa: BLE001
            return ("crash", type(e).__name__), src
        checked = ENGINE.checked[m.test.id]
        found = []
        for bb in checked.cfg.bbs:
            for st in bb.statements:
                for n in ast.walk(st):
                    if isinstance(n, GlobalCall) and n.def_id in ids:
                        found.append((ids[n.def_id], real_ty(get_type(n)), [real_ty(get_type(a)) for a in n.args]))
        if len(found) != 1:
            return ("crash", f"found {len(found)} calls"), src
        return ("ok", *found[0]), src
    finally:
        feed.unload(m)


def _run_comptime(m, ids, case):
    """comptime caller: the function body is traced by CPython; the chosen variant is the target of the Call in the Hugr"""
    import feed
    import hugr.ops as ops
    from guppylang_internals.error import GuppyComptimeError, GuppyError

    names = {}
    for k, v in enumerate(case["variants"]):
        kind = vkind(v)
        if kind in ("p", "x"):
            names[f"v{k}"] = str(k)
        elif kind == "o":
            for j in range(len(v[1])):
                names[f"v{k}_{j}"] = f"{k}.{j}"
        else:
            names[f"sink{k}"] = str(k)
    try:
        g = feed.lower(m.test)
    except (GuppyError, GuppyComptimeError) as e:
        d = getattr(e, "error", None)
        cls = type(d).__name__ if d is not None else type(e).__name__
        txt = str(e)
        if cls == "OverloadNoMatchError" or "No variant of overloaded function" in txt:
            return ("none",)
        return ("err", cls)
    except BaseException as e:  # noqa: BLE001
        return ("crash", type(e).__name__)
    h = g.hugr
    found = []
    for n in h:
        if isinstance(h[n].op, ops.Call):
            for i in range(h.num_in_ports(n)):
                for q in h.linked_ports(n.inp(i)):
                    op = h[q.node].op
                    if isinstance(op, (ops.FuncDecl, ops.FuncDefn)) and op.f_name.split(".")[-1] in names:
                        found.append(names[op.f_name.split(".")[-1]])
    if len(found) != 1:
        return ("crash", f"found {len(found)} calls")
    return ("ok", found[0], "?", [])


def show(res, with_types=True):
    if res[0] == "ok":
        return " ".join([str(res[1]), ty_sx(res[2]), *[ty_sx(t) for t in res[3]]]) if with_types and res[2] != "?" else str(res[1])
    if res[0] == "none":
        return "none"
    return ":".join(res)


# ------------------------------------------------------------------ oracle: direct calls
def definition_valid(case, k):
    """is variant k's own definition well-formed (checked alone in a fresh program, no call)"""
    import feed

    if vkind(case["variants"][k]) in ("o", "ai"):
        return True
    src = program(dict(case, comptime_caller=False), direct=k)
    m = feed.load(src, prelude=feed.PRELUDE + PRELUDE_EXTRA)
    try:
        kind, _ = feed.check_outcome(getattr(m, f"v{k}"))
        return kind == "ok"
    finally:
        feed.unload(m)


def oracle(case):
    """First-match search with direct calls in fresh programs: a variant accepts when its direct call succeeds (or fails
    only in the linearity checker); a variant whose own definition is ill-formed, if reached, makes the call fail with the
    diagnostic of its direct call; otherwise the next variant is tried.  -> (outcome, accepting variants, index of the
    ill-formed variant that was reached or None)"""
    accepted, first, abort = [], None, None
    for k in range(len(case["variants"])):
        r, _ = run_real(case, direct=k)
        if r[0] in ("ok", "lin"):
            accepted.append(k)
            if first is None and abort is None:
                first = r
        elif r[0] == "err":
            if first is None and abort is None and not definition_valid(case, k):
                abort = (k, r)
        elif r[0] != "none":
            return ("oracle-" + r[0], r[1]), accepted, None
    if abort is not None:
        return abort[1], accepted, abort[0]
    return (first if first is not None else ("none",)), accepted, None


# ------------------------------------------------------------------ generator
def rand_ty(rng, depth=1, vars_ok=False):
    r = rng.random()
    if vars_ok and r < 0.15:
        return ("v", rng.choice([0, 0, 1]))
    if depth > 0 and r < 0.35:
        return ("t", [rand_ty(rng, depth - 1, vars_ok) for _ in range(rng.choice([2, 2, 3]))])
    return rng.choice(BASE)


def rand_arg(rng, depth=2):
    r = rng.random()
    if depth > 0 and r < 0.3:
        return ("t", [rand_arg(rng, depth - 1) for _ in range(rng.choice([2, 2, 3]))])
    if r < 0.6:
        return ("y", rand_ty(rng, 1 if rng.random() < 0.3 else 0))
    return rng.choice(["li", "li", "ln", "lf", "lb"])


def widen(rng, t):
    """a type that accepts what `t` accepts via widening, or a near miss"""
    if isinstance(t, str):
        if t in NUM:
            return rng.choice(NUM[NUM.index(t):])
        return t
    if t[0] == "t":
        return ("t", [widen(rng, x) for x in t[1]])
    return t


def breakty(rng, t):
    """a type that (probably) rejects an argument of type t, staying close"""
    if isinstance(t, str):
        if t in NUM:
            lower = NUM[:NUM.index(t)]
            return rng.choice(lower + ["b"]) if lower else "b"
        return rng.choice(NUM)
    if t[0] == "t":
        xs = list(t[1])
        r = rng.random()
        if r < 0.6:
            j = rng.randrange(len(xs)) if rng.random() < 0.4 else len(xs) - 1  # prefer a *late* element
            xs = [widen(rng, x) for x in xs]
            xs[j] = breakty(rng, t[1][j])
            return ("t", xs)
        if r < 0.8:
            return ("t", xs + ["i"])
        return rng.choice(BASE)
    return "b"


def generalise(rng, t):
    if rng.random() < 0.5 or isinstance(t, str):
        return ("v", 0)
    xs = list(t[1])
    j = rng.randrange(len(xs))
    xs[j] = ("v", rng.choice([0, 1]))
    return ("t", xs)


def rand_variant(rng, args, fit_prob):
    base = [synth_ty(a) for a in args]
    r = rng.random()
    if r < fit_prob:  # accepting (up to widening / generalisation)
        ps = [widen(rng, t) for t in base]
        if ps and rng.random() < 0.3:
            j = rng.randrange(len(ps))
            ps[j] = generalise(rng, base[j])
            if rng.random() < 0.4 and len(ps) > 1:
                k = (j + 1) % len(ps)
                ps[k] = ("v", ps[j][1]) if ps[j][0] == "v" else ps[k]
    elif r < fit_prob + 0.45 and base:  # break one parameter, preferably a late one
        ps = [widen(rng, t) for t in base]
        j = len(ps) - 1 if rng.random() < 0.6 else rng.randrange(len(ps))
        ps[j] = breakty(rng, base[j])
    elif r < fit_prob + 0.6:  # arity
        ps = [widen(rng, t) for t in base]
        if ps and rng.random() < 0.5:
            ps.pop(rng.randrange(len(ps)))
        else:
            ps.insert(rng.randrange(len(ps) + 1), rand_ty(rng, 0))
    else:
        ps = [rand_ty(rng, 1, True) for _ in range(rng.randrange(0, 4))]
    vs = set()
    for p in ps:
        tyvars(p, vs)
    rr = rng.random()
    if vs and rr < 0.4:
        ret = ("v", rng.choice(sorted(vs)))
    elif rr < 0.55:
        ret = ("t", [rng.choice(BASE), ("v", sorted(vs)[0]) if vs and rng.random() < 0.5 else rng.choice(BASE)])
    else:
        ret = rng.choice(BASE)
    return [ps, ret], r < fit_prob


def decorate(rng, v, args):
    """add `@comptime` to some nat parameters and `@owned` to some qubit parameters of a plain variant"""
    ps = v[0]
    cf = [int(p_ == "n" and rng.random() < 0.45) for p_ in ps]
    of = [int(p_ == "q" and rng.random() < 0.4) for p_ in ps]
    return [ps, v[1], cf, of]


def rand_case(rng):
    args = [rand_arg(rng) for _ in range(rng.choice([0, 1, 1, 2, 2, 2, 3]))]
    r0 = rng.random()
    if r0 < 0.25:
        # make nat arguments frequent (comptime parameters) / all-int argument lists (custom checker)
        args = [rng.choice([("y", "n"), "li", ("y", "i"), "li", ("y", "n")]) for _ in range(rng.choice([1, 1, 2, 3]))]
    elif r0 < 0.37 and len(args) < 3:
        args.insert(rng.randrange(len(args) + 1), ("y", "q"))
    nv = rng.choice([2, 2, 3, 3, 4])
    first_fit = rng.random() < 0.2
    variants, fitting = [], []
    for k in range(nv):
        fit = 0.85 if (k == 0 and first_fit) else (0.08 if k == 0 else 0.55)
        rk = rng.random()
        if rk < 0.16:
            # an overloaded function as a variant: 2-3 inner plain variants
            inner = []
            for _ in range(rng.choice([2, 2, 3])):
                v, fits = rand_variant(rng, args, fit * 0.6)
                inner.append(decorate(rng, v, args))
                if fits and not tyvars(v[1], set()):
                    fitting.append(v[1])
            variants.append(["o", inner])
        elif rk < 0.24:
            variants.append("ai")
            fitting.append("i")
        else:
            v, fits = rand_variant(rng, args, fit)
            variants.append(decorate(rng, v, args))
            if fits and not tyvars(v[1], set()):
                fitting.append(v[1])
    if rng.random() < 0.14:
        # an ill-formed variant at any position (before, between, after the accepting ones)
        bad = ["x", rng.choice(sorted(BAD_FORMS)), rng.randrange(3)]
        j = rng.randrange(len(variants) + 1)
        if len(variants) >= 4:
            variants[min(j, 3)] = bad
        else:
            variants.insert(j, bad)
    exp, pos = None, "syn"
    if rng.random() < 0.55:
        pos = rng.choice(["ann", "ann", "ret", "arg"])
        closed = []
        for v in variants:
            for sg in ([v] if vkind(v) == "p" else v[1] if vkind(v) == "o" else []):
                if not tyvars(sg[1], set()):
                    closed.append(sg[1])
        if fitting and rng.random() < 0.7:
            exp = fitting[-1] if rng.random() < 0.5 else rng.choice(fitting)
        elif closed and rng.random() < 0.7:
            exp = rng.choice(closed)
        else:
            exp = rand_ty(rng, 1)
    case = {"variants": variants, "args": args, "exp": exp, "pos": pos, "comptime_caller": False}
    if args and rng.random() < 0.3:
        add_more_calls(rng, case)
    elif pos == "syn" and rng.random() < 0.12 and all(isinstance(a, tuple) and a[0] == "y" and a[1] != "q" for a in args):
        # a traced value given to a `nat @comptime` parameter crashes lowering (AssertionError in ConstArg.to_hugr; not
        # an overload matter): no comptime parameters in comptime-caller cases
        case["comptime_caller"] = True
        for v in variants:
            for sg in ([v] if vkind(v) == "p" else v[1] if vkind(v) == "o" else []):
                sg[2] = [0] * len(sg[2])
        case["variants"] = [v for v in variants if vkind(v) != "x"] if sum(vkind(v) != "x" for v in variants) >= 2 else variants
    return case


def vary_args(rng, args):
    """another argument list of the same length: literals <-> variables, neighbouring numeric types"""
    out = []
    for a in args:
        r = rng.random()
        t = synth_ty(a)
        if r < 0.35:
            out.append(a)
        elif isinstance(t, str) and t in NUM:
            out.append(rng.choice(["li", "li", "lf", ("y", "n"), ("y", "i"), ("y", "f")]))
        elif t == "b":
            out.append(rng.choice(["lb", ("y", "b"), "li"]))
        elif t == "q":
            out.append(a)
        else:
            out.append(rand_arg(rng, 1))
    return out


def add_more_calls(rng, case):
    """history dimension: further calls of the same overloaded function (same arity) in the same function"""
    more = []
    for _ in range(rng.choice([1, 2, 2, 3])):
        args = vary_args(rng, case["args"])
        exp, pos = None, "syn"
        if rng.random() < 0.35 and case["exp"] is not None:
            exp, pos = case["exp"], rng.choice(["ann", "arg"])
        more.append({"args": args, "exp": exp, "pos": pos})
    case["more"] = more
    case["order"] = rng.sample(range(len(more) + 1), len(more) + 1)
    return case


def sig_sx(sg):
    cf = sg[2] if len(sg) > 2 else []
    return "((" + " ".join(ty_sx(p_) for p_ in sg[0]) + ") " + ty_sx(sg[1]) + " (" + " ".join(str(int(c)) for c in cf) + "))"


def line(case, op="res"):
    vs = []
    for v in case["variants"]:
        kind = vkind(v)
        vs.append("ai" if kind == "ai" else "x" if kind == "x" else sig_sx(v) if kind == "p" else "(o " + " ".join(sig_sx(sg) for sg in v[1]) + ")")
    return f"({op} {'-' if case['exp'] is None else ty_sx(case['exp'])} ({' '.join(vs)}) ({' '.join(arg_sx(a) for a in case['args'])}))"


def _norm(c):
    def ty(t):
        if isinstance(t, str):
            return t
        return ("v", t[1]) if t[0] == "v" else ("t", [ty(x) for x in t[1]])

    def arg(a):
        if isinstance(a, str):
            return a
        return ("y", ty(a[1])) if a[0] == "y" else ("t", [arg(x) for x in a[1]])

    def sig(sg):
        return [[ty(p_) for p_ in sg[0]], ty(sg[1]), list(sg[2]) if len(sg) > 2 else [], list(sg[3]) if len(sg) > 3 else []]

    def var(v):
        if v == "ai":
            return "ai"
        if v[0] == "x":
            return ["x", v[1], int(v[2])]
        if v[0] == "o":
            return ["o", [sig(sg) for sg in v[1]]]
        return sig(v)

    exp = None if c["exp"] is None else ty(c["exp"])
    out = {"variants": [var(v) for v in c["variants"]], "args": [arg(a) for a in c["args"]], "exp": exp,
           "pos": c.get("pos", "syn" if exp is None else "ann"), "comptime_caller": bool(c.get("comptime_caller", False))}
    if c.get("more"):
        out["more"] = [{"args": [arg(a) for a in mc["args"]], "exp": None if mc["exp"] is None else ty(mc["exp"]),
                        "pos": mc["pos"]} for mc in c["more"]]
        out["order"] = list(c.get("order", range(len(c["more"]) + 1)))
    return out


def cases(ctx):
    out = []
    corpus = os.path.join(vlib.VERIF, "corpus", "c15")
    if os.path.isdir(corpus):
        for fn in sorted(os.listdir(corpus)):
            for r in json.load(open(os.path.join(corpus, fn))):
                out.append(_norm(r))
    if ctx.replay_in:
        out.append(_norm(ctx.replay_in["replay"]["case"]))
    n = ctx.n(250, 9000)
    while n > 0:
        c = rand_case(ctx.rng)
        out.append(_norm(c))
        n -= 1
    return out


def judge(ctx, c, ln, mv):
    """one overloaded call in its own program: real vs direct-call oracle vs model; returns (real result, oracle result)"""
    res, src = run_real(c)
    orc, accepted, abort = oracle(c)
    r, o = show(res), show(orc)
    key = "case:" + ln + f" pos={c['pos']}" + (" comptime" if c["comptime_caller"] else "")
    nontrivial = len(c["variants"]) >= 2 and 0 not in accepted
    kinds = "".join(sorted({vkind(v) for v in c["variants"]}))
    ctx.count(key, nontrivial=nontrivial,
              kind=("ct-" if c["comptime_caller"] else "") + c["pos"] + ":" + kinds + ":" + (res[0] if res[0] != "ok" else f"v{res[1]}"))
    replay = {"case": c, "line": ln, "source": src, "real": r, "oracle": o, "model": mv, "accepting_variants": accepted}
    if res[0] in ("crash", "load-exception") or orc[0].startswith("oracle-"):
        ctx.broke(f"generated program outside the modelled fragment: real={r} oracle={o}\n{src}")
        return res, orc
    # --- the property on the real code: same outcome as a direct call of the first accepting variant
    if r != o:
        ctx.violation(key, f"overloaded call gives `{r}` but the first variant accepting a direct call gives `{o}` "
                      f"(variants accepting directly: {accepted}; position {c['pos']}):\n{src}", replay)
    # --- aliasing: defining outer overloaded functions over an inner one must not change what the inner one accepts
    if not c["comptime_caller"]:
        for k, v in enumerate(c["variants"]):
            if vkind(v) == "o":
                alone, _ = run_real(c, direct=k, with_outer=False)
                shared, src2 = run_real(c, direct=k, with_outer=True)
                ctx.bump("alias")
                if show(alone) != show(shared):
                    ctx.violation(key + f" inner={k}", f"the overloaded function v{k} resolves this call to `{show(alone)}` on its own, but to "
                                  f"`{show(shared)}` once other overloaded functions have been defined on top of it:\n{src2}",
                                  dict(replay, inner=k, inner_alone=show(alone), inner_after_outer=show(shared), source=src2))
    # --- model vs real
    if res[0] == "ok" and res[2] == "?":
        agree = mv.split(" ")[0] == str(res[1])          # comptime caller: chosen variant only
    elif res[0] == "ok":
        agree = mv == r
    elif res[0] == "none":
        agree = mv == "none"
    elif res[0] == "lin":
        # rejected later by the linearity checker: resolution itself picked the oracle's variant
        agree = mv != "none" and orc[0] == "lin" and accepted and mv.split(" ")[0].split(".")[0] == str(accepted[0])
    elif res[0] == "err":
        # the signature diagnostic of an ill-formed variant that the search reached
        agree = abort is not None and mv == f"invalid {abort}"
    else:
        agree = False
    if not agree:
        ctx.broke(f"correspondence Model/Overload.lean vs overloaded.py: model=`{mv}` real=`{r}` on {ln} pos={c['pos']}\n{src}")
    return res, orc


def tie(ctx):
    cs = cases(ctx)
    subs = []          # (index of the owning multi-call case or None, sub-case with one call)
    for i, c in enumerate(cs):
        subs.append((i if c.get("more") else None, c))
        for mc in c.get("more") or []:
            subs.append((i, dict(c, args=mc["args"], exp=mc["exp"], pos=mc["pos"], comptime_caller=False, more=None)))
    lines = [line(c) for _, c in subs]
    model = ctx.driver(DRIVER, lines)
    outcomes = {}      # owner index -> list of (call, oracle result) in call-index order (0 = the main call)
    for (owner, c), ln, mv in zip(subs, lines, model):
        _res, orc = judge(ctx, c, ln, mv)
        if owner is not None:
            outcomes.setdefault(owner, []).append(({"args": c["args"], "exp": c["exp"], "pos": c["pos"]}, orc))
    # --- history: all calls that resolve on their own, together in ONE function, in a generated order; each call must still
    #     resolve exactly as it does alone (= as the direct call of the first accepting variant)
    for i, lst in outcomes.items():
        c = cs[i]
        order = [j for j in c.get("order", range(len(lst))) if j < len(lst) and lst[j][1][0] == "ok"]
        if len(order) < 2:
            continue
        calls = [lst[j][0] for j in order]
        want = [show(lst[j][1]) for j in order]
        got, src = run_seq(c, calls)
        key = "seq:" + line(c) + " calls=" + json.dumps([[arg_sx(a) for a in cl["args"]] + [cl["pos"]] for cl in calls])
        ctx.count(key, nontrivial=len(set(want)) > 1, kind=f"seq{len(calls)}")
        replay = {"case": c, "calls": calls, "source": src, "expected_per_call": want,
                  "real": [show(g) for g in got] if isinstance(got, list) else ":".join(got)}
        if not isinstance(got, list):
            ctx.violation(key, f"calls that each resolve on their own are rejected when written in one function ({':'.join(got)}); "
                          f"expected per call {want}:\n{src}", replay)
        elif [show(g) for g in got] != want:
            ctx.violation(key, f"in a sequence of calls of one overloaded function the calls resolve to {[show(g) for g in got]}, "
                          f"but each call on its own (= first variant accepting a direct call) gives {want}:\n{src}", replay)


if __name__ == "__main__":
    vlib.main(sys.modules[__name__])
