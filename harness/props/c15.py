"""C15 — Overloaded calls pick the first applicable variant."""
from __future__ import annotations

import json
import os
import sys

sys.path.insert(0, os.path.dirname(os.path.dirname(os.path.abspath(__file__))))
import vlib

PID = "C15"
THEOREM_MODULES = ["GuppyVerif.Props.C15"]
DRIVER = "C15"
RULE = (
    "overload sets of 2-4 declared variants (arity 0-3; parameter types nat/int/float/bool, tuples of them, quantified "
    "T0/T1, tuples containing a quantified type; result type numeric/bool/tuple/quantified) x argument lists (typed "
    "variables incl. tuple-typed ones, int/negative int/float/bool literals, tuple literals, nested tuple literals) in "
    "synthesis position (`y = ov(..)`) and checking position (`y: T = ov(..)`).  Variants are derived from the argument "
    "list by near-miss edits (widen a numeric, break a late parameter so that earlier arguments are coerced first, change "
    "arity, generalise to a type variable, change the result type).  non-trivial = at least 2 variants and the first "
    "variant does not accept (per the direct-call oracle)."
)
ASSUMPTIONS = [
    "a direct call `v_k(args)` in a fresh program is the reference for 'variant k accepts' (the property's own wording)",
    "result-type variables of generated variants occur in their parameters (otherwise the real check_call makes a second, "
    "expected-type-driven pass that the model does not have)",
]
UNMODELLED = [
    "variants with comptime / inout / owned parameters, non-numeric coercions, lists, function-typed arguments, varargs custom checkers",
    "the diagnostic text of OverloadNoMatchError (argument types printed, available-overloads hint)",
    "compile_call of the chosen variant (the call is replaced by a plain GlobalCall of the variant; lowering is C01/C13)",
]
MANIFEST = {
    "level_text": "Lean theorems over the modelled resolution loop, for all variant lists / argument lists / both positions: "
    "first_match (resolves to index i with outcome o iff i is the first listed variant that accepts and o is that variant's own "
    "outcome), reject_iff_none, same_as_direct, shared_eq_fresh_of_no_mutation, and d8_shared_violates_first_match (the pre-fix "
    "argument-sharing loop provably violates the property on the D8 witness).  Tied to /repo by generated overload sets run through "
    "the real check(): chosen variant (GlobalCall.def_id), result type and checked argument types read from the checked AST and "
    "compared with the model and with a direct-call oracle (each variant called directly in a fresh program, first success wins).",
    "level_note": "Model is of the repaired overloaded.py (fix 72c6a2d for D8: each attempt gets a deep copy of the arguments). The "
    "acceptance model (arity, nat<int<float widening, tuple literals element-wise, first-order matching of quantified parameters, "
    "exact result-type match) is hand-written and tied by sampling. Trusted: Lean kernel, Spec/C15.lean, the program printer.",
    "technique": "Lean 4 proof over a hand-written model + differential correspondence through real check() + direct-call oracle",
    "design_ref": "DESIGN.md §5 C15",
    "ready": True,
}

# ------------------------------------------------------------------ types / args (abstract)
# ty: "n" | "i" | "f" | "b" | ("t", [ty…]) | ("v", k)
# arg: ("y", ty) | "li" | "ln" | "lf" | "lb" | ("t", [arg…])
NUM = ["n", "i", "f"]
BASE = ["n", "i", "f", "b"]


def ty_src(t):
    if isinstance(t, str):
        return {"n": "nat", "i": "int", "f": "float", "b": "bool"}[t]
    if t[0] == "v":
        return f"T{t[1]}"
    return "tuple[" + ", ".join(ty_src(x) for x in t[1]) + "]"


def ty_sx(t):
    if isinstance(t, str):
        return t
    if t[0] == "v":
        return f"(v {t[1]})"
    return "(t " + " ".join(ty_sx(x) for x in t[1]) + ")"


def ty_name(t):
    if isinstance(t, str):
        return t
    return "t" + "".join(ty_name(x) for x in t[1]) + "e"


def arg_sx(a):
    if isinstance(a, str):
        return a
    if a[0] == "y":
        return f"(y {ty_sx(a[1])})"
    return "(t " + " ".join(arg_sx(x) for x in a[1]) + ")"


def arg_src(a, used):
    if a == "li":
        return "2"
    if a == "ln":
        return "-3"
    if a == "lf":
        return "1.5"
    if a == "lb":
        return "True"
    if a[0] == "y":
        used.add(_freeze(a[1]))
        return "x_" + ty_name(a[1])
    return "(" + ", ".join(arg_src(x, used) for x in a[1]) + ")"


def _freeze(x):
    return tuple(_freeze(i) for i in x) if isinstance(x, (list, tuple)) else x


def _thaw(x):
    if isinstance(x, tuple):
        return (x[0], [_thaw(i) for i in x[1]]) if x[0] == "t" else ("v", x[1])
    return x


def tyvars(t, acc):
    if isinstance(t, str):
        return acc
    if t[0] == "v":
        acc.add(t[1])
    else:
        for x in t[1]:
            tyvars(x, acc)
    return acc


def synth_ty(a):
    """type an argument synthesizes to (literals default to int/float/bool)"""
    if a in ("li", "ln"):
        return "i"
    if a == "lf":
        return "f"
    if a == "lb":
        return "b"
    if a[0] == "y":
        return a[1]
    return ("t", [synth_ty(x) for x in a[1]])


# ------------------------------------------------------------------ program printing
def program(case, direct=None):
    """source of the test program; direct=k calls variant k directly instead of the overload"""
    used: set = set()
    args = ", ".join(arg_src(a, used) for a in case["args"])
    out = ['T0 = guppy.type_var("T0")', 'T1 = guppy.type_var("T1")']
    for k, (ps, r) in enumerate(case["variants"]):
        params = ", ".join(f"a{j}: {ty_src(p)}" for j, p in enumerate(ps))
        out.append(f"@guppy.declare\ndef v{k}({params}) -> {ty_src(r)}: ...")
    if len(case["variants"]) >= 2:
        out.append("@guppy.overload(" + ", ".join(f"v{k}" for k in range(len(case["variants"]))) + ")\ndef ov(): ...")
    callee = "ov" if direct is None else f"v{direct}"
    params = ", ".join(f"x_{ty_name(_thaw(t))}: {ty_src(_thaw(t))}" for t in sorted(used, key=str))
    stmt = f"y = {callee}({args})" if case["exp"] is None else f"y: {ty_src(case['exp'])} = {callee}({args})"
    out.append(f"@guppy\ndef test({params}) -> None:\n    {stmt}\n")
    return "\n".join(out)


def real_ty(t):
    """real guppy Type -> abstract syntax"""
    from guppylang_internals.tys.ty import NumericType, OpaqueType, TupleType

    if isinstance(t, NumericType):
        return {"Nat": "n", "Int": "i", "Float": "f"}[t.kind.name]
    if isinstance(t, TupleType):
        return ("t", [real_ty(x) for x in t.element_types])
    if isinstance(t, OpaqueType) and t.defn.name == "bool":
        return "b"
    return "?" + str(t)


def run_real(case, direct=None):
    """-> ('ok', idx, ret, argtys) | ('none',) | ('err', class) | ('crash', class)"""
    import ast

    import feed
    from guppylang_internals.ast_util import get_type
    from guppylang_internals.engine import ENGINE
    from guppylang_internals.error import GuppyError
    from guppylang_internals.nodes import GlobalCall

    src = program(case, direct)
    try:
        m = feed.load(src)
    except Exception as e:  # noqa: BLE001
        return ("load-exception", type(e).__name__), src
    try:
        ids = {getattr(m, f"v{k}").id: k for k in range(len(case["variants"]))}
        try:
            ENGINE.reset()
            ENGINE.check(m.test.id)
        except GuppyError as e:
            cls = type(e.error).__name__
            return (("none",) if cls == "OverloadNoMatchError" else ("err", cls)), src
        except BaseException as e:  # noqa: BLE001
            return ("crash", type(e).__name__), src
        checked = ENGINE.checked[m.test.id]
        found = []
        for bb in checked.cfg.bbs:
            for st in bb.statements:
                for n in ast.walk(st):
                    if isinstance(n, GlobalCall) and n.def_id in ids:
                        found.append((ids[n.def_id], real_ty(get_type(n)), [real_ty(get_type(a)) for a in n.args]))
        if len(found) != 1:
            return ("crash", f"found {len(found)} calls"), src
        return ("ok", *found[0]), src
    finally:
        feed.unload(m)


def show(res):
    if res[0] == "ok":
        return " ".join([str(res[1]), ty_sx(res[2]), *[ty_sx(t) for t in res[3]]])
    if res[0] == "none":
        return "none"
    return ":".join(res)


# ------------------------------------------------------------------ oracle: direct calls
def oracle(case):
    """first variant whose direct call in a fresh program succeeds; its result and argument types"""
    accepted = []
    for k in range(len(case["variants"])):
        r, _ = run_real(case, direct=k)
        if r[0] == "ok":
            accepted.append(k)
            if len(accepted) == 1:
                first = ("ok", k, r[2], r[3])
        elif r[0] not in ("err",):
            return ("oracle-" + r[0], r[1]), accepted
    return (first if accepted else ("none",)), accepted


# ------------------------------------------------------------------ generator
def rand_ty(rng, depth=1, vars_ok=False):
    r = rng.random()
    if vars_ok and r < 0.15:
        return ("v", rng.choice([0, 0, 1]))
    if depth > 0 and r < 0.35:
        return ("t", [rand_ty(rng, depth - 1, vars_ok) for _ in range(rng.choice([2, 2, 3]))])
    return rng.choice(BASE)


def rand_arg(rng, depth=2):
    r = rng.random()
    if depth > 0 and r < 0.3:
        return ("t", [rand_arg(rng, depth - 1) for _ in range(rng.choice([2, 2, 3]))])
    if r < 0.6:
        return ("y", rand_ty(rng, 1 if rng.random() < 0.3 else 0))
    return rng.choice(["li", "li", "ln", "lf", "lb"])


def widen(rng, t):
    """a type that accepts what `t` accepts via widening, or a near miss"""
    if isinstance(t, str):
        if t in NUM:
            return rng.choice(NUM[NUM.index(t):])
        return t
    if t[0] == "t":
        return ("t", [widen(rng, x) for x in t[1]])
    return t


def breakty(rng, t):
    """a type that (probably) rejects an argument of type t, staying close"""
    if isinstance(t, str):
        if t in NUM:
            lower = NUM[:NUM.index(t)]
            return rng.choice(lower + ["b"]) if lower else "b"
        return rng.choice(NUM)
    if t[0] == "t":
        xs = list(t[1])
        r = rng.random()
        if r < 0.6:
            j = rng.randrange(len(xs)) if rng.random() < 0.4 else len(xs) - 1  # prefer a *late* element
            xs = [widen(rng, x) for x in xs]
            xs[j] = breakty(rng, t[1][j])
            return ("t", xs)
        if r < 0.8:
            return ("t", xs + ["i"])
        return rng.choice(BASE)
    return "b"


def generalise(rng, t):
    if rng.random() < 0.5 or isinstance(t, str):
        return ("v", 0)
    xs = list(t[1])
    j = rng.randrange(len(xs))
    xs[j] = ("v", rng.choice([0, 1]))
    return ("t", xs)


def rand_variant(rng, args, fit_prob):
    base = [synth_ty(a) for a in args]
    r = rng.random()
    if r < fit_prob:  # accepting (up to widening / generalisation)
        ps = [widen(rng, t) for t in base]
        if ps and rng.random() < 0.3:
            j = rng.randrange(len(ps))
            ps[j] = generalise(rng, base[j])
            if rng.random() < 0.4 and len(ps) > 1:
                k = (j + 1) % len(ps)
                ps[k] = ("v", ps[j][1]) if ps[j][0] == "v" else ps[k]
    elif r < fit_prob + 0.45 and base:  # break one parameter, preferably a late one
        ps = [widen(rng, t) for t in base]
        j = len(ps) - 1 if rng.random() < 0.6 else rng.randrange(len(ps))
        ps[j] = breakty(rng, base[j])
    elif r < fit_prob + 0.6:  # arity
        ps = [widen(rng, t) for t in base]
        if ps and rng.random() < 0.5:
            ps.pop(rng.randrange(len(ps)))
        else:
            ps.insert(rng.randrange(len(ps) + 1), rand_ty(rng, 0))
    else:
        ps = [rand_ty(rng, 1, True) for _ in range(rng.randrange(0, 4))]
    vs = set()
    for p in ps:
        tyvars(p, vs)
    rr = rng.random()
    if vs and rr < 0.4:
        ret = ("v", rng.choice(sorted(vs)))
    elif rr < 0.55:
        ret = ("t", [rng.choice(BASE), ("v", sorted(vs)[0]) if vs and rng.random() < 0.5 else rng.choice(BASE)])
    else:
        ret = rng.choice(BASE)
    return [ps, ret], r < fit_prob


def rand_case(rng):
    args = [rand_arg(rng) for _ in range(rng.choice([0, 1, 1, 2, 2, 2, 3]))]
    nv = rng.choice([2, 2, 3, 3, 4])
    first_fit = rng.random() < 0.2
    variants, fitting = [], []
    for k in range(nv):
        fit = 0.85 if (k == 0 and first_fit) else (0.08 if k == 0 else 0.55)
        v, fits = rand_variant(rng, args, fit)
        variants.append(v)
        if fits and not tyvars(v[1], set()):
            fitting.append(v[1])
    exp = None
    if rng.random() < 0.45:
        # checking position: usually the result type of some variant (closed ones), sometimes something else
        closed = [v[1] for v in variants if not tyvars(v[1], set())]
        if fitting and rng.random() < 0.7:
            exp = fitting[-1] if rng.random() < 0.5 else rng.choice(fitting)
        elif closed and rng.random() < 0.7:
            exp = rng.choice(closed)
        else:
            exp = rand_ty(rng, 1)
    return {"variants": variants, "args": args, "exp": exp}


def line(case, op="res"):
    vs = " ".join("((" + " ".join(ty_sx(p) for p in ps) + ") " + ty_sx(r) + ")" for ps, r in case["variants"])
    return f"({op} {'-' if case['exp'] is None else ty_sx(case['exp'])} ({vs}) ({' '.join(arg_sx(a) for a in case['args'])}))"


def _norm(c):
    def ty(t):
        if isinstance(t, str):
            return t
        return ("v", t[1]) if t[0] == "v" else ("t", [ty(x) for x in t[1]])

    def arg(a):
        if isinstance(a, str):
            return a
        return ("y", ty(a[1])) if a[0] == "y" else ("t", [arg(x) for x in a[1]])

    return {"variants": [[[ty(p) for p in ps], ty(r)] for ps, r in c["variants"]],
            "args": [arg(a) for a in c["args"]], "exp": None if c["exp"] is None else ty(c["exp"])}


def cases(ctx):
    out = []
    corpus = os.path.join(vlib.VERIF, "corpus", "c15")
    if os.path.isdir(corpus):
        for fn in sorted(os.listdir(corpus)):
            for r in json.load(open(os.path.join(corpus, fn))):
                out.append(_norm(r))
    if ctx.replay_in:
        out.append(_norm(ctx.replay_in["replay"]["case"]))
    n = ctx.n(250, 12000)
    while n > 0:
        c = rand_case(ctx.rng)
        out.append(_norm(c))
        n -= 1
    return out


def tie(ctx):
    cs = cases(ctx)
    lines = [line(c) for c in cs]
    model = ctx.driver(DRIVER, lines)
    for c, ln, mv in zip(cs, lines, model):
        res, src = run_real(c)
        orc, accepted = oracle(c)
        r, o = show(res), show(orc)
        key = "case:" + ln
        nontrivial = len(c["variants"]) >= 2 and 0 not in accepted
        ctx.count(ln, nontrivial=nontrivial,
                  kind=("chk" if c["exp"] is not None else "syn") + ":" + (res[0] if res[0] != "ok" else f"v{res[1]}"))
        replay = {"case": c, "line": ln, "source": src, "real": r, "oracle": o, "model": mv, "accepting_variants": accepted}
        if res[0] in ("crash", "load-exception", "err") or orc[0].startswith("oracle-"):
            ctx.broke(f"generated program outside the modelled fragment: real={r} oracle={o}\n{src}")
            continue
        if r != o:
            ctx.violation(key, f"overloaded call resolves to `{r}` but the first variant accepting a direct call gives `{o}` "
                          f"(variants accepting directly: {accepted}):\n{src}", replay)
        if r != mv:
            ctx.broke(f"correspondence Model/Overload.lean vs overloaded.py: model=`{mv}` real=`{r}` on {ln}")


if __name__ == "__main__":
    vlib.main(sys.modules[__name__])
