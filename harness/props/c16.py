"""C16 — Implicit numeric coercions only widen."""
from __future__ import annotations

import itertools
import json
import os
import sys

sys.path.insert(0, os.path.dirname(os.path.dirname(os.path.abspath(__file__))))
import vlib

PID = "C16"
THEOREM_MODULES = ["GuppyVerif.Props.C16"]
DRIVER = "C16"
GEN = os.path.join(vlib.LEAN, "GuppyVerif", "Gen", "C16Coerce.lean")
RULE = (
    "cases = (actual kind, expected kind, position) over ALL 9 ordered pairs of {nat,int,float} x positions "
    "{annotated assignment, call argument, return, operator operand (x12 binary operators), augmented assignment, "
    "tuple component, comparison operand, chained (value reused after coercion)}; the actual-typed expression is a "
    "parameter, a call result or an arithmetic expression (thorough adds more shapes and all operators). Each program "
    "goes through the REAL check(); accepted ones are lowered by the real compiler and the arithmetic/conversion ops are "
    "read from the Hugr. PLUS every binary operator x every mixed (left, right) kind pair: accepted iff the wider kind's homogeneous form is, "
    "lowering = homogeneous lowering + exactly the widening conversion of the narrower operand, and not returnable at the narrower kind. "
    "PLUS subscript indices (expected kind int): index of each kind in read position and as an assignable place (element assignment, aug-assign, "
    "nested, swap, lending an element to a borrowing function), with the lowered program interpreted for every in-range index value. "
    "PLUS non-widening neighbours (oracle only): bool (variable, literals, comparison, not), str, None, angle, tuple and the "
    "narrowing numeric pairs as actual types against nat/int/float/bool/angle in 10 positions (assignment, return, argument, tuple/array element, "
    "struct field, both operand sides, aug-assign, comptime argument): must all be rejected. non-trivial = off-diagonal pair; distinct by canonical case. The space of kind pairs is finite "
    "and covered exhaustively in both tiers."
)
ASSUMPTIONS = [
    "convert_u / convert_s (arithmetic.conversions) convert the unsigned / signed reading of the 64 bits to the nearest float "
    "(their shipped descriptions say only 'unsigned int to float' / 'signed int to float'); the Lean value theorems are parametric in "
    "that rounding function `ofInt`",
    "nat -> int is a no-op on the 64 bits (NoopCompiler): the value is preserved exactly when it is < 2^63 ('representable in the target'); "
    "at or above 2^63 the int reads as value - 2^64 (stated as theorem nat_to_int_above)",
    "observation point is the checker outcome and the lowered Hugr ops, not an emulator run",
]
UNMODELLED = [
    "coercions involving non-numeric types (bool is never implicitly coerced: checked as extra rejected cases, not modelled)",
    "comptime(int) at float is *rejected* (visit_ComptimeExpr unifies only) — modelled and tied under C17 (Model/IntLit.checkComptime)",
    "float rounding itself (IEEE round-to-nearest-even of convert_s/convert_u)",
]
MANIFEST = {
    "level_text": "Lean theorems over the coercion rule regenerated from the source on every run (Gen/C16Coerce.lean: Kind enum values, "
    "Kind.__lt__, the comparison in try_coerce_to, the method template, the implementation of every __nat__/__int__/__float__): an implicit "
    "coercion is inserted iff (actual, expected) is (nat,int), (nat,float) or (int,float) — all 9 pairs, a finite quantifier closed by `decide`; "
    "never a narrowing; which op implements each; for ALL 64-bit values the inserted op yields ofInt(value) at float and the identical value at "
    "int whenever it is < 2^63. Tied to /repo: T-src table + all 9 pairs x positions through the real check() and the real lowering "
    "(emitted conversion ops read back).",
    "level_note": "Trusted: Lean kernel + standard axioms; the AST translator harness/numtable.py (cross-checked by the ops actually emitted); "
    "convert_s/convert_u semantics assumed (round to nearest of the signed/unsigned reading); positions are sampled shapes, kind pairs are exhaustive.",
    "technique": "Lean 4 proof over a table regenerated from source (T-src) + differential correspondence through real check() and lowering (T-run/T-obj)",
    "design_ref": "DESIGN.md §5 C16",
    "ready": True,
}

KINDS = ("nat", "int", "float")
RANK = {"nat": 0, "int": 1, "float": 2}
# the statement's table: which implicit conversions exist and what must implement them
WIDENING = {("nat", "int"): [], ("nat", "float"): ["arithmetic.conversions.convert_u"],
            ("int", "float"): ["arithmetic.conversions.convert_s"]}
BINOPS = {"+": ("iadd", "fadd"), "-": ("isub", "fsub"), "*": ("imul", "fmul"), "&": ("iand", None), "|": ("ior", None),
          "^": ("ixor", None)}


def translate(ctx):
    import numtable as nt
    members, lt = nt.kind_order()
    cond = nt.coerce_rule()
    meths = sorted(
        (r["type"], r["name"], nt.impl_str(r["impl"]))
        for r in nt.rows()
        if r["type"] in ("nat", "int", "float", "bool") and r["name"] in ("__nat__", "__int__", "__float__")
    )
    L = nt.lean_str
    lt = lt or ("?", "?", "?")
    src = (
        "import GuppyVerif.Model.Coerce\n"
        "/-! GENERATED on every run by harness/props/c16.py (numtable.py) from the working tree of /repo:\n"
        "    tys/ty.py (NumericType.Kind), checker/expr_checker.py (try_coerce_to), std/num.py, std/bool.py.  Do not edit. -/\n"
        "namespace GuppyVerif.C16Gen\nopen GuppyVerif.Coerce\n\n"
        "def cfg : Cfg where\n"
        "  kindValues := [" + ", ".join(f"({L(n)}, {v})" for n, v in members) + "]\n"
        f"  kindLt := ({L(lt[0])}, {L(lt[1])}, {L(lt[2])})\n"
        f"  coerceCond := ({L(cond[0])}, {L(cond[1])}, {L(cond[2])})\n"
        f"  methodTemplate := {L(cond[3])}\n"
        "  methods := [\n" + ",\n".join(f"    ({L(t)}, {L(n)}, {L(i)})" for t, n, i in meths) + "]\n"
        f"  setitemIndexSlot := {L(nt.setitem_index_slot())}\n\n"
        "end GuppyVerif.C16Gen\n"
    )
    old = open(GEN).read() if os.path.exists(GEN) else None
    if old != src:
        with open(GEN, "w") as f:
            f.write(src)
    ctx.extra["gen_changed_vs_baseline"] = old is not None and old != src
    ctx.extra["gen_table"] = {"kinds": members, "kind_lt": lt, "coerce_cond": cond, "methods": meths}


# ------------------------------------------------------------------ programs
def _actual_expr(shape, a):
    """an expression of numeric kind `a` built from parameter b: a (and helper h() -> a)"""
    if shape == "param":
        return "b"
    if shape == "call":
        return "h()"
    if shape == "method":
        return "b.__pos__()"
    if shape == "arith":
        return "(b + b)"
    if shape == "neg":
        return "(-b)" if a != "nat" else "(b * b)"
    raise AssertionError(shape)


def _source(case):
    a, e, pos, shape = case["act"], case["exp"], case["pos"], case.get("shape", "param")
    x = _actual_expr(shape, a)
    helper = f"@guppy\ndef h() -> {a}:\n    return {'1.5' if a == 'float' else '1'}\n\n" if shape == "call" else ""
    head = helper
    if pos == "ann":
        return head + f"@guppy\ndef f(b: {a}) -> {e}:\n    x: {e} = {x}\n    return x\n"
    if pos == "arg":
        return head + f"@guppy\ndef g(x: {e}) -> {e}:\n    return x\n\n@guppy\ndef f(b: {a}) -> {e}:\n    return g({x})\n"
    if pos == "ret":
        return head + f"@guppy\ndef f(b: {a}) -> {e}:\n    return {x}\n"
    if pos == "operand":
        op = case["op"]
        if case.get("side", "right") == "right":
            return head + f"@guppy\ndef f(a: {e}, b: {a}) -> {e}:\n    return a {op} {x}\n"
        return head + f"@guppy\ndef f(a: {e}, b: {a}) -> {e}:\n    return {x} {op} a\n"
    if pos == "aug":
        return head + f"@guppy\ndef f(a: {e}, b: {a}) -> {e}:\n    a += {x}\n    return a\n"
    if pos == "tuple":
        return head + f"@guppy\ndef f(a: {e}, b: {a}) -> tuple[{e}, {e}]:\n    return (a, {x})\n"
    if pos == "cmp":
        return head + f"@guppy\ndef f(a: {e}, b: {a}) -> bool:\n    return a < {x}\n"
    if pos == "reuse":
        return head + f"@guppy\ndef f(b: {a}) -> tuple[{e}, {a}]:\n    x: {e} = {x}\n    return (x, b)\n"
    raise AssertionError(pos)


CONV = ("arithmetic.conversions.convert_u", "arithmetic.conversions.convert_s", "arithmetic.int.is_to_u",
        "arithmetic.int.iu_to_s", "arithmetic.conversions.trunc_u", "arithmetic.conversions.trunc_s")


def _real(case):
    import feed
    src = _source(case)
    try:
        m = feed.load(src)
    except BaseException as ex:  # noqa: BLE001
        return ("load-crash:" + type(ex).__name__, None)
    try:
        kind, exc = feed.check_outcome(m.f)
        if kind == "user":
            c = feed.err_class(exc)
            return ({"TypeMismatchError": "mismatch", "BinaryOperatorNotDefinedError": "mismatch"}.get(c, "other:" + c), None)
        if kind == "crash":
            return ("crash:" + type(exc).__name__, None)
        try:
            g = feed.lower(m.f)
            # ops of f only (helpers h/g contain no conversions); keep order of appearance
            names = [n for n in feed.ops_of(g) if n.startswith("arithmetic.")]
            return ("ok", names)
        except BaseException as ex:  # noqa: BLE001
            return ("ok", "lower-crash:" + type(ex).__name__)
    finally:
        feed.unload(m)


def _oracle(case):
    """statement's literal reading: accepted iff act == exp or (act, exp) is a widening; the conversion ops that
    must appear (as a multiset of conversion op names)"""
    a, e, pos = case["act"], case["exp"], case["pos"]
    if pos == "cmp":
        # a < x: both operand orders are tried; result is bool: always accepted, the narrower side is widened
        lo, hi = sorted((a, e), key=RANK.get)
        return (True, WIDENING.get((lo, hi), []) if lo != hi else [])
    ok = a == e or (a, e) in WIDENING
    if pos == "operand" and not ok:
        return (False, None)
    return (ok, WIDENING.get((a, e), []) if ok else None)


def _form(case):
    """which checker path the actual-typed expression takes when checked against the expected type"""
    return "call" if case.get("shape") in ("call", "method") else "synth"


def _finding_key(case):
    """known-finding class (D17): a *call expression* (user function / method) of a narrower numeric kind checked
    against a wider one is rejected instead of widened.  Anything else keeps its exact-input key."""
    if (case.get("shape") in ("call", "method") and (case["act"], case["exp"]) in WIDENING
            and case["pos"] in ("ann", "arg", "ret", "tuple", "reuse")):
        return f"call-result-not-widened:{case['shape']}:{case['act']}->{case['exp']}"
    return None


def _requests(case):
    a, e, pos = case["act"], case["exp"], case["pos"]
    if pos in ("operand", "aug", "cmp"):
        pass
    if pos == "operand" and case.get("side") == "left":
        return [f"operand {a} {e}"]   # left operand has the actual kind
    if pos in ("operand", "aug", "cmp"):
        return [f"operand {e} {a}"]
    return [f"expr {_form(case)} {a} {e}"]


def _model(case, rep):
    """-> (class, sorted conversion ops)"""
    pos = case["pos"]
    r = rep[0]
    def impl_ops(s):
        if s in ("same", "noop"):
            return []
        if s.startswith("hugr:"):
            return [s[5:]]
        return ["?" + s]
    if pos in ("operand", "aug", "cmp"):
        if r == "none":
            return ("mismatch", None)
        res, li, ri = r.split(" ")
        convs = impl_ops(li) + impl_ops(ri)
        if pos == "cmp":
            return ("ok", sorted(convs))
        # result kind `res` is then checked against the declared type `exp` (return / assignment target)
        if res != case["exp"]:
            return ("mismatch" if RANK[res] > RANK[case["exp"]] else "ok-widened-result", None)
        return ("ok", sorted(convs))
    if r == "mismatch":
        return ("mismatch", None)
    if r == "same":
        return ("ok", [])
    if r.startswith("coerced "):
        return ("ok", sorted(impl_ops(r[8:])))
    return ("stuck:" + r, None)


def _cases(ctx):
    rng = ctx.rng
    cases = []
    corpus = os.path.join(vlib.VERIF, "corpus", "c16")
    if os.path.isdir(corpus):
        for fn in sorted(os.listdir(corpus)):
            cases.extend(json.load(open(os.path.join(corpus, fn))))
    if ctx.replay_in and "case" in ctx.replay_in.get("replay", {}):
        cases.append(ctx.replay_in["replay"]["case"])
    pairs = list(itertools.product(KINDS, KINDS))
    shapes = ["param", "call", "method"] if ctx.quick else ["param", "call", "method", "arith", "neg"]
    for a, e in pairs:
        for pos in ("ann", "arg", "ret", "tuple", "reuse"):
            for sh in shapes:
                cases.append({"act": a, "exp": e, "pos": pos, "shape": sh})
        ops = ["+", "*"] if ctx.quick else list(BINOPS)
        for op in ops:
            if BINOPS[op][1] is None and "float" in (a, e):
                continue
            for side in ("right", "left"):
                for sh in (["param"] if ctx.quick else shapes):
                    cases.append({"act": a, "exp": e, "pos": "operand", "op": op, "side": side, "shape": sh})
        for sh in shapes:
            cases.append({"act": a, "exp": e, "pos": "aug", "shape": sh})
            cases.append({"act": a, "exp": e, "pos": "cmp", "shape": sh})
    return cases


def feed_mod():
    import feed
    return feed


def tie(ctx):
    cases = _cases(ctx)
    reqs, idx = [], []
    for c in cases:
        r = _requests(c)
        idx.append((len(reqs), len(r)))
        reqs.extend(r)
    replies = ctx.driver(DRIVER, reqs)
    for c, (o, n) in zip(cases, idx):
        key = json.dumps(c, sort_keys=True)
        real = _real(c)
        model = _model(c, replies[o:o + n])
        acc, convs = _oracle(c)
        ctx.count(c, nontrivial=c["act"] != c["exp"], kind=f"{c['pos']}:{c['act']}->{c['exp']}:{real[0].split(':')[0]}")
        src = _source(c)
        line = src.strip().splitlines()[-1].strip() if c["pos"] != "ann" and c["pos"] != "reuse" else src.strip().splitlines()[-2].strip()
        rep = {"case": c, "source": src, "real": real, "oracle": [acc, convs], "model": model}
        real_convs = sorted(x for x in real[1] if x in CONV) if isinstance(real[1], list) else real[1]
        fk = _finding_key(c)
        if fk and real[0] == "mismatch" and acc:
            ctx.violation(fk, f"widening use rejected: a call expression of type {c['act']} where {c['exp']} is expected is a type "
                          f"mismatch (check_call unifies only), e.g. `{line}`", rep)
        elif (real[0] == "ok") != acc:
            what = ("narrowing or unrelated implicit conversion accepted" if real[0] == "ok" else f"widening/identity use rejected ({real[0]})")
            ctx.violation("input:" + key, f"{what}: {c['act']} used where {c['exp']} expected, position {c['pos']}: `{line}`", rep)
        elif acc and real_convs != sorted(convs):
            ctx.violation("input:" + key,
                          f"wrong implicit conversion for {c['act']} -> {c['exp']} at {c['pos']}: Hugr has {real_convs}, value-preserving conversion is {convs}: `{line}`", rep)
        # model vs real
        mcls = "ok" if model[0] == "ok" else model[0]
        if real[0] != mcls:
            ctx.broke(f"correspondence Model/Coerce.lean (+Gen/C16Coerce) vs checker on {key}: real={real[0]} model={model[0]}")
        elif real[0] == "ok" and real_convs != model[1]:
            ctx.broke(f"correspondence Model/Coerce.lean (+Gen/C16Coerce) vs lowering on {key}: real convs={real_convs} model={model[1]}")
        # the arithmetic op must be the expected kind's (operand positions): evidence that the coerced operand feeds the op of `exp`
        if real[0] == "ok" and c["pos"] == "operand" and isinstance(real[1], list):
            want = BINOPS[c["op"]][1 if c["exp"] == "float" else 0]
            if f"arithmetic.{'float' if c['exp'] == 'float' else 'int'}.{want}" not in real[1]:
                ctx.violation("input:" + key, f"operator {c['op']} at {c['exp']} did not lower to {want}: {real[1]}", rep)
    # extra: comptime(int) at float is unified only (modelled in Model/IntLit.checkComptime, tied under C17): D17 as well
    src = "@guppy\ndef f() -> float:\n    return comptime(1)\n"
    m = feed_mod().load(src)
    try:
        kind, exc = feed_mod().check_outcome(m.f)
    finally:
        feed_mod().unload(m)
    mrep = ctx.driver(DRIVER, ["expr comptime int float"])[0]
    ctx.count({"extra": "comptime", "act": "int", "exp": "float"}, nontrivial=True, kind=f"comptime-extra:{kind}")
    if (kind == "ok") != (mrep != "mismatch"):
        ctx.broke(f"correspondence Model/Coerce.checkExpr comptime vs checker: real={kind} model={mrep}")
    if kind != "ok":
        ctx.violation("call-result-not-widened:comptime:int->float",
                      "widening use rejected: comptime(1) where float is expected is a type mismatch", {"source": src})
    _tie_neighbours(ctx)
    _tie_operator_operands(ctx)
    _tie_index_places(ctx)


# ------------------------------------------------------------------ operator operands as a coercion position (all operators)
ALL_BINOPS = ["+", "-", "*", "/", "//", "%", "**", "<<", ">>", "&", "|", "^", "==", "!=", "<", "<=", ">", ">="]
CMP_OPS = ("==", "!=", "<", "<=", ">", ">=")


def _funcs_ops(src):
    """('ok', {FuncDefn name: [arithmetic/tket.bool op names in order]}) | (class, None) for a probe program"""
    import feed
    import hugr.ops as ops
    try:
        m = feed.load(src)
    except BaseException as ex:  # noqa: BLE001
        return ("load-crash:" + type(ex).__name__, None)
    try:
        kind, exc = feed.check_outcome(m.f)
        if kind != "ok":
            return ("rejected:" + feed.err_class(exc) if kind == "user" else "crash:" + type(exc).__name__, None)
        try:
            g = feed.lower(m.f)
        except BaseException as ex:  # noqa: BLE001
            return ("lower-crash:" + type(ex).__name__, None)
        h, out = g.hugr, {}
        for n in h:
            if isinstance(h[n].op, ops.FuncDefn):
                out[h[n].op.f_name] = [x for x in (feed.op_name(h[c].op) for c in h.descendants(n))
                                       if x.startswith("arithmetic.") and x not in ("arithmetic.conversions.itousize", "arithmetic.conversions.ifromusize")]
        return ("ok", out)
    finally:
        feed.unload(m)


def _tie_operator_operands(ctx):
    """`a OP b` with a: L, b: R over {nat,int,float}^2 for EVERY binary operator.  The statement allows exactly one treatment of a
    mixed pair: the narrower operand is widened (no-op / convert_u / convert_s) and the operator of the WIDER kind is applied.  So
    (1) the mixed form is accepted iff the homogeneous form of the wider kind is; (2) its lowering is the homogeneous lowering plus
    exactly the widening conversion of the narrower operand — an operand of another kind accepted *without* that conversion, or fed
    to the narrower kind's op, is an implicit narrowing through an operator signature; (3) the result may not be returned at the
    narrower kind."""
    kinds = ("nat", "int", "float")
    homo = {}
    n = 0
    for op in ALL_BINOPS:
        for k in kinds:
            rt = "bool" if op in CMP_OPS else ("float" if op == "/" else k)
            homo[(op, k)] = _funcs_ops(f"@guppy\ndef f(a: {k}, b: {k}) -> {rt}:\n    return a {op} b\n")
    for op in ALL_BINOPS:
        for l in kinds:
            for r in kinds:
                if l == r:
                    continue
                k = l if RANK[l] >= RANK[r] else r
                narrow = r if k == l else l
                rt = "bool" if op in CMP_OPS else ("float" if op == "/" else k)
                src = f"@guppy\ndef f(a: {l}, b: {r}) -> {rt}:\n    return a {op} b\n"
                st, funcs = _funcs_ops(src)
                # a comparison whose LEFT operand is the narrower one is answered by the reflected dunder of the wider kind
                # (`a < b` becomes `b > a`): compare with the mirrored operator's homogeneous lowering
                mirror = {"<": ">", "<=": ">=", ">": "<", ">=": "<="}
                hop = mirror.get(op, op) if (op in CMP_OPS and narrow == l) else op
                hst, hfuncs = homo[(hop, k)]
                case = {"operator": op, "left": l, "right": r}
                key = "input:" + json.dumps(case, sort_keys=True)
                n += 1
                ctx.count(case, nontrivial=True, kind=f"operand-all:{op}:{st.split(':')[0]}")
                if (st == "ok") != (hst == "ok"):
                    ctx.violation(key, f"`a {op} b` with a: {l}, b: {r} is {st} but the {k} operator on two {k}s is {hst}: the narrower operand is not "
                                  f"simply widened", {"case": case, "source": src, "mixed": st, "homogeneous": hst})
                    continue
                if st != "ok":
                    continue
                want_conv = WIDENING[(narrow, k)]
                f_ops = funcs.get("f", [])
                convs = [x for x in f_ops if x in CONV]
                rest = [x for x in f_ops if x not in CONV]
                h_rest = [x for x in hfuncs.get("f", []) if x not in CONV]
                others = {a: b for a, b in funcs.items() if a != "f"}
                h_others = {a: b for a, b in hfuncs.items() if a != "f"}
                if sorted(convs) != sorted(want_conv) or rest != h_rest or others != h_others:
                    ctx.violation(key, f"`a {op} b` with a: {l}, b: {r}: lowered to {f_ops} {others or ''}; widening the {narrow} operand and applying the "
                                  f"{k} operator gives {sorted(want_conv) + h_rest} {h_others or ''} — the {k if narrow != k else narrow} operand is used "
                                  f"without the value-preserving conversion", {"case": case, "source": src, "mixed": funcs, "homogeneous": hfuncs})
                    continue
                if op not in CMP_OPS and op != "/":
                    src2 = f"@guppy\ndef f(a: {l}, b: {r}) -> {narrow}:\n    return a {op} b\n"
                    st2, _f2 = _funcs_ops(src2)
                    n += 1
                    ctx.count(dict(case, ret=narrow), nontrivial=True, kind=f"operand-all-narrow-ret:{st2.split(':')[0]}")
                    if st2 == "ok":
                        ctx.violation("input:" + json.dumps(dict(case, ret=narrow), sort_keys=True),
                                      f"`a {op} b` with a: {l}, b: {r} is accepted as a {narrow}: the {k} operand was narrowed implicitly",
                                      {"case": dict(case, ret=narrow), "source": src2})
    ctx.extra["operator_operand_programs"] = n


# ------------------------------------------------------------------ subscript indices: read AND assignable place
INDEX_PRELUDE = "from guppylang.std.quantum import qubit, h, cx\n"


def _index_progs(a, x):
    yield "idx_get", f"@guppy\ndef f(xs: array[int, 3], b: {a}) -> int:\n    return xs[{x}]\n"
    yield "idx_set", f"@guppy\ndef f(xs: array[int, 3], b: {a}) -> None:\n    xs[{x}] = 7\n"
    yield "idx_aug", f"@guppy\ndef f(xs: array[int, 3], b: {a}) -> None:\n    xs[{x}] += 5\n"
    yield "idx_nested", f"@guppy\ndef f(xss: array[array[int, 2], 2], b: {a}) -> None:\n    xss[{x}][{x}] = 7\n"
    yield "idx_swap", f"@guppy\ndef f(xs: array[int, 3], b: {a}) -> None:\n    xs[{x}], xs[0] = xs[0], xs[{x}]\n"
    yield "idx_borrow", f"@guppy\ndef f(qs: array[qubit, 3], b: {a}) -> None:\n    h(qs[{x}])\n"
    yield "idx_borrow2", f"@guppy\ndef f(qs: array[qubit, 3], b: {a}) -> None:\n    cx(qs[0], qs[{x}])\n"


def _index_python(pos, k):
    """what Python does for index value k (the statement: the widened index has the same value)"""
    xs = [10, 20, 30]
    if pos == "idx_get":
        return ("ret", xs[k])
    if pos == "idx_set":
        xs[k] = 7
    elif pos == "idx_aug":
        xs[k] += 5
    elif pos == "idx_swap":
        xs[k], xs[0] = xs[0], xs[k]
    return ("arr", xs)


def _tie_index_places(ctx):
    """An index is a coercion position whose expected type is the `int` parameter of `__getitem__` / `__setitem__`.  The same index
    expression must be treated alike when the subscript is only READ and when it is an ASSIGNABLE place (element assignment,
    augmented assignment, nested subscripts, swap, lending an element to a borrowing function): nat and int accepted (nat widened by
    the no-op), float rejected.  REAL = check() + lowering (+ the lowered program interpreted for every in-range index value),
    MODEL = `indexRead` / `indexPlace` of Model/Coerce.lean through the regenerated cfg, ORACLE = the statement."""
    import feed
    import hugr_interp as hi
    shapes = {"param": "b", "arith": "(b + b - b)", "local": "c"}
    replies = dict(zip(KINDS, ctx.driver(DRIVER, [f"index {a}" for a in KINDS])))
    n = n_val = 0
    for a in KINDS:
        read_m, write_m, place_m = [x.strip() for x in replies[a].split("|")]
        for sh, x in shapes.items():
            for pos, src in _index_progs(a, x):
                if sh == "local":
                    src = src.replace(":\n    ", f":\n    c = b\n    ", 1)
                case = {"index_kind": a, "pos": pos, "shape": sh}
                key = "input:" + json.dumps(case, sort_keys=True)
                m_out = read_m if pos == "idx_get" else place_m
                mcls = "ok" if m_out in ("same", "noop") else ("mismatch" if m_out == "mismatch" else "stuck:" + m_out)
                acc = a in ("nat", "int")
                try:
                    m = feed.load(src, prelude=feed.PRELUDE + INDEX_PRELUDE)
                except BaseException as ex:  # noqa: BLE001
                    ctx.broke(f"index probe does not load: {case}: {type(ex).__name__}")
                    continue
                try:
                    kind, exc = feed.check_outcome(m.f)
                    rcls = "ok" if kind == "ok" else ({"TypeMismatchError": "mismatch"}.get(feed.err_class(exc), "other:" + feed.err_class(exc))
                                                     if kind == "user" else "crash:" + type(exc).__name__)
                    n += 1
                    ctx.count(case, nontrivial=a != "int", kind=f"index:{pos}:{a}:{rcls.split(':')[0]}")
                    line = [l for l in src.strip().splitlines() if x in l][-1].strip()
                    rep = {"index_case": case, "source": src, "real": rcls, "model": replies[a]}
                    if (rcls == "ok") != acc:
                        ctx.violation(key, (f"a {a} index is rejected ({rcls}) where the subscript is {'read' if pos == 'idx_get' else 'an assignable place'} "
                                            f"although nat -> int is a widening (and the read path `xs[n]` accepts it): `{line}`") if acc else
                                      f"a float index is accepted (implicit narrowing float -> int): `{line}`", rep)
                        continue
                    if rcls != mcls:
                        ctx.broke(f"correspondence Model/Coerce.indexPlace (+Gen/C16Coerce) vs checker on {case}: real={rcls} model={m_out}")
                    if rcls != "ok":
                        continue
                    try:
                        g = feed.lower(m.f)
                    except BaseException as ex:  # noqa: BLE001
                        ctx.violation(key, f"accepted index place crashes the compiler: {type(ex).__name__}: `{line}`", rep)
                        continue
                    convs = sorted(o for o in feed.ops_of(g) if o in CONV)
                    if convs:
                        ctx.violation(key, f"index of kind {a} is converted by {convs}; nat -> int must be the value-preserving no-op: `{line}`", dict(rep, convs=convs))
                        continue
                    if pos in ("idx_get", "idx_set", "idx_aug", "idx_swap"):
                        for k in (0, 1, 2):
                            kk = k if sh != "arith" else k
                            try:
                                r = hi.run(g.hugr, "f", [[10, 20, 30], kk], ret_shape=("int" if pos == "idx_get" else None))
                            except (hi.Unsupported, hi.OutOfFuel):
                                break
                            except hi.InterpError as ex:
                                ctx.broke(f"interpreter error on index probe {case}: {ex}")
                                break
                            want = _index_python(pos, kk)
                            if r.status != "value":
                                got = ("panic", r.msg)
                            elif want[0] == "ret":
                                got = ("ret", r.value if not isinstance(r.value, (tuple, list)) else r.value[0])
                            else:
                                arr = r.inouts[0] if getattr(r, "inouts", None) else r.value
                                got = ("arr", list(arr) if isinstance(arr, (list, tuple)) else arr)
                            n_val += 1
                            if got != want:
                                ctx.violation(key + f" @{kk}", f"`{line}` with index value {kk} on [10, 20, 30]: the lowered program gives {got}, Python {want}",
                                              dict(rep, index=kk, real=repr(got), oracle=repr(want)))
                                break
                finally:
                    feed.unload(m)
    ctx.extra["index_place_programs"] = n
    ctx.extra["index_place_values"] = n_val


# ------------------------------------------------------------------ non-widening neighbours (oracle only)
NEIGHBOUR_ACTUALS = {   # actual type -> (parameter annotation or None, expressions of that type: variable `b`, literals, compound)
    "bool": ("bool", ["b", "True", "False", "(b == b)", "not b"]),
    "str": ("str", ["b", '"s"']),
    "none": (None, ["None"]),
    "angle": ("angle", ["b"]),
    "tuple": ("tuple[int]", ["b", "(1,)"]),
    "nat": ("nat", ["b"]),
    "int": ("int", ["b", "-1"]),
    "float": ("float", ["b", "1.5"]),
}
NEIGHBOUR_EXPECTED = ["nat", "int", "float", "bool", "angle"]
NEIGHBOUR_PRELUDE = "from guppylang.std.angles import angle\n"


def _neighbour_progs(pty, x, e):
    par = f"b: {pty}, " if pty else ""
    yield "ann", f"@guppy\ndef f({par}a: {e}) -> {e}:\n    v: {e} = {x}\n    return v\n"
    yield "ret", f"@guppy\ndef f({par}a: {e}) -> {e}:\n    return {x}\n"
    yield "arg", f"@guppy\ndef g(x: {e}) -> {e}:\n    return x\n\n@guppy\ndef f({par}a: {e}) -> {e}:\n    return g({x})\n"
    yield "tuple", f"@guppy\ndef f({par}a: {e}) -> tuple[{e}, int]:\n    return ({x}, 2)\n"
    yield "array", f"@guppy\ndef f({par}a: {e}) -> array[{e}, 2]:\n    return array(a, {x})\n"
    yield "operand", f"@guppy\ndef f({par}a: {e}) -> {e}:\n    return a + ({x})\n"
    yield "operand_l", f"@guppy\ndef f({par}a: {e}) -> {e}:\n    return ({x}) * a\n"
    yield "struct", f"@guppy.struct\nclass P:\n    w: {e}\n    k: int\n\n@guppy\ndef f({par}a: {e}) -> P:\n    return P({x}, 2)\n"
    yield "comptime", f"@guppy\ndef g(x: {e} @comptime) -> {e}:\n    return x\n\n@guppy\ndef f({par}a: {e}) -> {e}:\n    return g({x})\n"
    yield "aug", f"@guppy\ndef f({par}a: {e}) -> {e}:\n    a += {x}\n    return a\n"


def _tie_neighbours(ctx):
    """The statement's relation is closed: the ONLY implicit conversions are nat->int, nat->float, int->float.  Every other
    (actual, expected) pair with actual != expected — bool (variables, literals, comparisons), str, None, angle, tuples, and the
    narrowing numeric pairs — must be rejected in every position (assignment, return, argument, tuple / array element, struct
    field, operand, aug-assign, comptime argument).  Oracle only (the Lean model covers the three numeric kinds)."""
    import feed
    n = 0
    for a, (pty, xs) in NEIGHBOUR_ACTUALS.items():
        exprs = xs if (a == "bool" or not ctx.quick) else xs[:1]
        for x in exprs:
            for e in NEIGHBOUR_EXPECTED:
                if a == e or (a, e) in WIDENING:
                    continue
                if a == "angle" and e == "float":
                    ops_excluded = ("operand_l",)     # `angle * float` is a declared operator of angle, not a conversion
                elif a in ("nat", "int", "float") and e == "angle":
                    ops_excluded = ("operand", "operand_l", "aug")   # `angle * float`, `float * angle`: declared operators
                else:
                    ops_excluded = ()
                for pos, src in _neighbour_progs(pty, x, e):
                    if pos in ops_excluded:
                        continue
                    if pos in ("operand", "operand_l", "aug") and e in ("bool",):
                        continue   # bool has no arithmetic: rejected for that reason, says nothing about conversions
                    case = {"neighbour": a, "expr": x, "exp": e, "pos": pos}
                    try:
                        m = feed.load(src, prelude=feed.PRELUDE + NEIGHBOUR_PRELUDE)
                    except BaseException as ex:  # noqa: BLE001
                        ctx.broke(f"neighbour probe does not load: {case}: {type(ex).__name__}")
                        continue
                    try:
                        kind, exc = feed.check_outcome(m.f)
                    finally:
                        feed.unload(m)
                    n += 1
                    ctx.count(case, nontrivial=True, kind=f"neighbour:{a}->{e}:{kind}")
                    if kind == "ok":
                        line = [l for l in src.strip().splitlines() if x in l][-1].strip()
                        ctx.violation("input:" + json.dumps(case, sort_keys=True),
                                      f"implicit conversion outside nat->int->float: a {a} (`{x}`) is accepted where {e} is expected, position {pos}: `{line}`",
                                      {"neighbour_case": case, "source": src})
    ctx.extra["neighbour_programs"] = n


if __name__ == "__main__":
    vlib.main(sys.modules[__name__])
