"""C07 — Borrowed arguments reflect the callee's in-place updates (partial: runtime values unmodelled)."""
from __future__ import annotations

import itertools
import json
import os
import sys

sys.path.insert(0, os.path.dirname(os.path.dirname(os.path.abspath(__file__))))
sys.path.insert(0, os.path.dirname(os.path.abspath(__file__)))
import vlib

PID = "C07"
THEOREM_MODULES = ["GuppyVerif.Props.C07"]
DRIVER = "C07"
RULE = (
    "(1) place probes: a typed place path (steps: struct field / tuple index / array subscript by an int variable; depth 0..3 "
    "quick, 0..4 thorough, all step-kind sequences plus random field positions, arities and argument types qubit / struct / "
    "array / tuple) is turned into Guppy source `def probe(x: T, i1: int, ...) -> None: cal(<place>)` with generated struct "
    "definitions, lowered by /repo's REAL compiler; the op list (tuple unpack/pack, itousize, borrow/return, Call) with its "
    "wiring is extracted from the Hugr, compared with the Lean wire-level emission, interpreted on a store with uniquely "
    "numbered leaves (Python and Lean), and the result compared with store[pi := callee(store[pi])] and with the Lean "
    "place-level sequence. (2) signature probes: functions with 1..5 parameters, each borrowed / owned / copyable, 0..2 "
    "results: outputs of the lowered FuncDefn vs results ++ borrowed inputs in order; a caller passing its borrowed "
    "parameters in permuted order: Call output wiring vs _update_inout_ports model. Non-trivial = path depth >= 2 or a "
    "subscript on the path; >= 2 borrowed parameters for signatures; distinct by canonical request. (3) assignment probes "
    "`<place>.f = v` (StmtCompiler._assign_place) for paths ending in a struct field of affine type array[int, 2]: same "
    "extraction / emission / interpretation against store[pi := v]; (4) end-to-end: qubit-free programs in which a callee mutates "
    "its borrowed argument reached through every place shape are run on the reference interpreter (both schedules) and under CPython, "
    "the returned structure must be equal; and `<place>[i] = v` for a copyable element (classical set)"
)
ASSUMPTIONS = [
    "assumed op semantics (outside the repo): UnpackTuple/MakeTuple are the tuple projections/constructor; borrow(arr,i) hands out "
    "element i leaving a hole, return(arr,i,v) fills the hole (both panic otherwise); itousize is the identity on non-negative "
    "indices (index conversion and bounds are C19); Call applies the callee to its inputs",
    "the callee's effect on its borrowed argument is an arbitrary function of the argument's value (no aliasing: the type system is linear)",
    "component types are linear (qubit), copyable (int) or built from them (arrays, structs, tuples); DFContainer forgets the wires of "
    "linear children only when it packs (modelled: Ty.lin / popLin); on a borrowed path every container is non-copyable",
    "HUGR dataflow: a straight-line block computes its outputs from its inputs by evaluating nodes in dependency order",
]
UNMODELLED = [
    "run-time values are SAMPLED, not proved: qubit-free programs (a callee mutating its borrowed argument in place, reached through x, "
    "s.f, t[0], xs[i], xs[i].f, s.t[0], nested subscripts ... up to depth 3; argument types array[int,2], nested arrays, structs, "
    "tuples; called once, twice, or through a second borrowing function) are lowered by the real compiler, executed by the reference "
    "interpreter harness/hugr_interp.py (notes/INTERP.md) under both schedules with in-range and out-of-range indices, and the whole "
    "structure returned is compared with CPython running the same source (lists / dataclasses mutated in place); qubits and gate "
    "effects stay opaque in the Lean model (leaves are numbers, the callee an arbitrary function)",
    "the wire-level theorem (wire_writeback) is about the MODEL's emission emitW, which is tied to the real compiler by per-probe "
    "comparison (T-obj), and assumes a store that conforms to the root type; the classical-set assignment emitAssignSetW is compared and "
    "executed per probe, not proved at wire level (its place-level sequence is: assign_set_lens)",
    "the Lean place-level / wire-level model covers borrow ... return write-back (non-copyable elements) and the classical set of "
    "assignments; the get ... set write-back of COPYABLE elements lent through generic parameters (mem_swap(xs[i], y), with_owned, user "
    "generics over a non-copyable type variable) is covered by the execution oracle only",
    "std custom compilers that thread borrowed values other than with_owned / mem_swap / project_z (Option and Either take/swap, list ops, "
    "qsystem RNG context, barrier, wasm)",
    "comptime functions (update_packed_value, D15 is under C21), classical setitem (get/set) write-back, index expressions with side effects (C05), "
    "places on the left of assignments (`xs[i].f = v`, _assign_place) beyond the shared __setitem__ cascade",
]
TRUSTED_EXTRA = [
    "harness/hugr_interp.py (reference interpreter, search oracle only) and the CPython shim used by harness/props/c19_e2e.py",
    "harness/props/c19_ssa.py: extraction of op lists and wiring from the in-memory Hugr (node order = emission order)",
    "the Python interpreter of extracted op lists in c07.py",
]
MANIFEST = {
    "level_text": "Lean theorems for ALL place paths (any nesting of fields, tuple indices, subscripts), stores and callees: the "
    "place-level borrow/call/return sequence emitted for callee(pi) terminates without panic and turns the store into "
    "store[pi := callee(store[pi])] (writeback_lens, by induction on the number of subscripts with the lens laws put-get/get-put/"
    "put-put/append proved for all paths), every non-overlapping part of the store is unchanged (writeback_frame), the caller reads "
    "the callee's result at pi (writeback_observed); assignment to a place gives store[pi := v] (assign_lens, wire level: wire_assign; copyable array element via classical set: assign_set_lens); for EVERY well-typed path (fields, tuple indices, subscripts, any nesting) and conforming store the wire-level SSA op list itself - tuple unpack/pack plumbing of DFContainer, itousize, borrow/return, Call with all wiring - computes the lens update (wire_writeback: DFContainer get/set characterised for all types by mutual induction, forward simulation of the cascade); k borrowed parameters give k extra outputs after the results in parameter "
    "order and _update_inout_ports consumes exactly those (inout_ports_count_order, inout_port_of_place: also when earlier borrowed arguments are temporaries). Tied to /repo every run: for generated typed "
    "paths the REAL compiler's op list and wiring is extracted from the Hugr, compared with the model's wire-level emission, and "
    "interpreted (Python and Lean) against the lens and against the place-level sequence; FuncDefn signatures and Call wiring are "
    "read from lowered probes.",
    "level_note": "Runtime sampled through the reference interpreter (not unmodelled, not proved). Partial: runtime values are unmodelled; the wire-level theorem is about the model's emission (tied to the real compiler by "
    "per-probe comparison) and well-typed stores; the classical-set assignment is checked per probe at wire level; linear, affine and copyable component types are modelled. Trusted: Lean kernel + propext/Classical.choice/Quot.sound, "
    "the Hugr op-list extractor, assumed op semantics. Probes are sampling (all step-kind sequences up to the tier's depth).",
    "technique": "Lean 4 proof (lens laws + cascade induction) + per-run extraction of the real lowering (T-obj) with a store-semantics oracle",
    "design_ref": "DESIGN.md §5 C07",
    "ready": True,
}

BUMP = 1000


# ------------------------------------------------------------------ typed paths
# type: ("q",) | ("tup", [types], struct_name|None) | ("arr", type, length)
# step: ("proj", k) | ("sub", level)
class Probe:
    def __init__(self, root_ty, steps, arg_ty, structs):
        self.root_ty, self.steps, self.arg_ty, self.structs = root_ty, steps, arg_ty, structs
        self.m = sum(1 for s in steps if s[0] == "sub")

    def key(self):
        return json.dumps([ty_sexp(self.root_ty), self.steps])


def ty_src(t):
    if t[0] == "q":
        return "qubit"
    if t[0] == "ai":  # an affine (non-copyable, droppable) component: array of copyable elements
        return "array[int, 2]"
    if t[0] == "c":  # a copyable leaf
        return "int"
    if t[0] == "arr":
        return f"array[{ty_src(t[1])}, {t[2]}]"
    if t[2] is not None:
        return t[2]
    return "tuple[" + ", ".join(ty_src(x) for x in t[1]) + "]"


def ty_sexp(t):
    if t[0] == "q":
        return "q"
    if t[0] == "c":
        return "c"
    if t[0] == "ai":
        return "(arr c)"
    if t[0] == "arr":
        return f"(arr {ty_sexp(t[1])})"
    return "(tup " + " ".join(ty_sexp(x) for x in t[1]) + ")"


_struct_counter = itertools.count()


def gen_probe(rng, kinds, arg_kind="q"):
    """kinds: sequence of 'field'|'tuple'|'sub' from the root outward"""
    structs = []

    def mk_struct(fields):
        name = f"S{next(_struct_counter)}"
        structs.append((name, fields))
        return ("tup", fields, name)

    def filler():
        # siblings of the path: linear (qubit, array of qubits, tuple of qubits), copyable (int) and affine (array of ints)
        # components — DFContainer forgets only the wires of LINEAR children when it packs
        k = rng.random()
        if k < 0.4:
            return ("q",)
        if k < 0.55:
            return ("c",)
        if k < 0.7:
            return ("ai",)
        if k < 0.85:
            return ("arr", ("q",), 2)
        return ("tup", [("q",), rng.choice([("q",), ("c",)])], None)

    if arg_kind == "q":
        t = ("q",)
    elif arg_kind == "ai":
        t = ("ai",)
    elif arg_kind == "c":
        t = ("c",)
    elif arg_kind == "struct":
        t = mk_struct([("q",), ("q",)])
    elif arg_kind == "mixed":
        t = mk_struct([("q",), ("c",), ("ai",)])
    elif arg_kind == "arr":
        t = ("arr", ("q",), 2)
    else:
        t = ("tup", [("q",), ("arr", ("q",), 2)], None)
    arg_ty = t
    steps_rev = []
    level = sum(1 for k in kinds if k == "sub")
    innermost = True
    for kind in reversed(kinds):
        if kind == "sub":
            t = ("arr", t, 3)
            steps_rev.append(("sub", level))
            level -= 1
            innermost = False
        else:
            arity = rng.choice([2, 2, 3])
            pos = rng.randrange(arity)
            elems = [filler() for _ in range(arity)]
            elems[pos] = t
            t = mk_struct(elems) if kind == "field" else ("tup", elems, None)
            steps_rev.append(("proj", pos))
        innermost = False
    return Probe(t, list(reversed(steps_rev)), arg_ty, structs)


def probe_src(p: Probe):
    out = []
    for name, fields in reversed(p.structs):  # inner structs were created first; order does not matter at check time
        pass
    for name, fields in p.structs:
        out.append("@guppy.struct\nclass %s:\n%s\n" % (name, "\n".join(f"    f{k}: {ty_src(t)}" for k, t in enumerate(fields))))
    out.append(f"@guppy.declare\ndef cal(a: {ty_src(p.arg_ty)}) -> None: ...\n")
    expr, t = "x", p.root_ty
    for s in p.steps:
        if s[0] == "sub":
            expr += f"[i{s[1]}]"
            t = t[1]
        else:
            expr += (f".f{s[1]}" if t[2] is not None else f"[{s[1]}]")
            t = t[1][s[1]]
    params = "".join(f", i{j}: int" for j in range(1, p.m + 1))
    out.append(f"@guppy\ndef probe(x: {ty_src(p.root_ty)}{params}) -> None:\n    cal({expr})\n")
    return "\n".join(out), expr


def assign_src(p: Probe):
    out = []
    for name, fields in p.structs:
        out.append("@guppy.struct\nclass %s:\n%s\n" % (name, "\n".join(f"    f{k}: {ty_src(t)}" for k, t in enumerate(fields))))
    expr, t = "x", p.root_ty
    for s in p.steps:
        if s[0] == "sub":
            expr += f"[i{s[1]}]"
            t = t[1]
        else:
            expr += (f".f{s[1]}" if t[2] is not None else f"[{s[1]}]")
            t = t[1][s[1]]
    params = "".join(f", i{j}: int" for j in range(1, p.m + 1))
    owned = "" if p.arg_ty[0] == "c" else " @owned"
    out.append(f"@guppy\ndef probe(x: {ty_src(p.root_ty)}{params}, v: {ty_src(p.arg_ty)}{owned}) -> None:\n    {expr} = v\n")
    return "\n".join(out), expr


def path_sexp(p: Probe, idxs):
    chunks, cur = [], []
    for s in p.steps:
        if s[0] == "proj":
            cur.append(s[1])
        else:
            chunks.append(f"(({' '.join(map(str, cur))}) {idxs[s[1] - 1]})")
            cur = []
    return f"(path ({' '.join(chunks)}) ({' '.join(map(str, cur))}))"


# ------------------------------------------------------------------ stores (nested Python values) and the oracle
_leaf = itertools.count(1)


def mk_store(t, counter):
    if t[0] in ("q", "c"):
        return ("l", next(counter))
    if t[0] == "ai":
        return ("a", [("l", next(counter)), ("l", next(counter))])
    if t[0] == "arr":
        return ("a", [mk_store(t[1], counter) for _ in range(t[2])])
    return ("t", [mk_store(x, counter) for x in t[1]])


def bump(v):
    if v == "h":
        return v
    if v[0] == "l":
        return ("l", v[1] + BUMP)
    return (v[0], [bump(x) for x in v[1]])


def val_sexp(v):
    if v == "h":
        return "h"
    if v[0] == "l":
        return f"(l {v[1]})"
    return "(" + v[0] + "".join(" " + val_sexp(x) for x in v[1]) + ")"


def oracle_assign(store, p: Probe, idxs, new=None):
    """store[pi := bump(store[pi])] (or store[pi := new]), by plain recursion on the path — the property's literal reading"""
    def go(v, steps):
        if not steps:
            return bump(v) if new is None else new
        s = steps[0]
        k = s[1] if s[0] == "proj" else idxs[s[1] - 1]
        want = "t" if s[0] == "proj" else "a"
        if v == "h" or v[0] != want or not (0 <= k < len(v[1])):
            raise KeyError("path")
        xs = list(v[1])
        xs[k] = go(xs[k], steps[1:])
        return (v[0], xs)
    return go(store, p.steps)


class Panic(Exception):
    pass


def py_run(prog, inputs):
    """interpret an extracted op list; values: store values, ('int', i), ('usize', n)"""
    n_in, instrs, outs = prog
    if len(inputs) != n_in:
        return "err illTyped"
    env = list(inputs)
    try:
        for nm, ps, args, nout in instrs:
            vals = []
            for a in args:
                if not (0 <= a < len(env)):
                    raise Panic("illTyped")
                vals.append(env[a])
            if nm == "unpack":
                if len(vals) != 1 or vals[0] == "h" or vals[0][0] != "t":
                    raise Panic("illTyped")
                res = list(vals[0][1])
            elif nm == "pack":
                if any(v != "h" and v[0] in ("int", "usize") for v in vals):
                    raise Panic("illTyped")
                res = [("t", list(vals))]
            elif nm == "itousize":
                if len(vals) != 1 or vals[0] == "h" or vals[0][0] != "int":
                    raise Panic("illTyped")
                res = [("usize", vals[0][1])]
            elif nm == "borrow":
                if len(vals) != 2 or vals[0] == "h" or vals[0][0] != "a" or vals[1] == "h" or vals[1][0] != "usize":
                    raise Panic("illTyped")
                cs, i = list(vals[0][1]), vals[1][1]
                if i >= len(cs):
                    raise Panic("badPath")
                if cs[i] == "h":
                    raise Panic("alreadyBorrowed")
                e = cs[i]
                cs[i] = "h"
                res = [("a", cs), e]
            elif nm == "return":
                if len(vals) != 3 or vals[0] == "h" or vals[0][0] != "a" or vals[1] == "h" or vals[1][0] != "usize":
                    raise Panic("illTyped")
                if vals[2] != "h" and vals[2][0] in ("int", "usize"):
                    raise Panic("illTyped")
                cs, i = list(vals[0][1]), vals[1][1]
                if i >= len(cs):
                    raise Panic("badPath")
                if cs[i] != "h":
                    raise Panic("notBorrowed")
                cs[i] = vals[2]
                res = [("a", cs)]
            elif nm == "set":
                if len(vals) != 3 or vals[0] == "h" or vals[0][0] != "a" or vals[1] == "h" or vals[1][0] != "usize":
                    raise Panic("illTyped")
                if vals[2] != "h" and vals[2][0] in ("int", "usize", "either"):
                    raise Panic("illTyped")
                cs, i = list(vals[0][1]), vals[1][1]
                if i >= len(cs):
                    res = [("either", False, vals[2], ("a", cs))]
                elif cs[i] == "h":
                    raise Panic("alreadyBorrowed")
                else:
                    old = cs[i]
                    cs[i] = vals[2]
                    res = [("either", True, old, ("a", cs))]
            elif nm == "unwrap":
                if len(vals) != 1 or vals[0] == "h" or vals[0][0] != "either" or ps != ["1", "Array index out of bounds"]:
                    raise Panic("illTyped")
                if not vals[0][1]:
                    raise Panic("badPath")
                res = [vals[0][2], vals[0][3]]
            elif nm == "drop":
                if len(vals) != 1 or (vals[0] != "h" and vals[0][0] in ("int", "usize")):
                    raise Panic("illTyped")
                res = []
            elif nm == "call":
                if len(vals) != 1 or (vals[0] != "h" and vals[0][0] in ("int", "usize")):
                    raise Panic("illTyped")
                res = [bump(vals[0])]
            else:
                raise Panic("unknownOp:" + nm)  # cannot be judged: reported as a broken tie, not as a failing input
            if len(res) != nout:
                raise Panic("illTyped")
            env.extend(res)
        res = []
        for o in outs:
            if not (0 <= o < len(env)):
                raise Panic("illTyped")
            res.append(env[o])
        return "ok " + " ".join(val_sexp(v) for v in res)
    except Panic as e:
        return "err " + str(e)


# ------------------------------------------------------------------ extraction
LINEAR_PROBLEMS: list = []


def extract_probe(src, fname="probe"):
    import feed
    import c19_ssa as S
    m = feed.load(src, prelude=feed.PRELUDE + "from guppylang.std.quantum import qubit\n")
    try:
        h = feed.lower(getattr(m, fname)).hugr
        fn = S.find_func(h, fname)
        bs = S.dataflow_blocks(h, fn)
        if len(bs) != 1:
            raise ValueError(f"{len(bs)} blocks")
        B = S.Block(h, bs[0])
        instrs, outs = S.prune(B.instrs, B.n_in, B.outs)
        sig = S.func_signature(h, fn)
        lp = S.linear_use_problems(h, fn)
        if lp:
            LINEAR_PROBLEMS.append((src, lp))
        op = h[fn].op
        in_tys = [str(t) for t in op.inputs]
        out_tys = [str(t) for t in op.outputs]
        return (B.n_in, instrs, outs), sig, in_tys, out_tys
    finally:
        feed.unload(m)


def sexp(prog):
    import c19_ssa as S
    return S.to_sexp(*prog)


# ------------------------------------------------------------------ signature probes
def sig_case(rng, nparams=None):
    k = nparams or rng.randrange(1, 6)
    params = []
    for j in range(k):
        # "bint": a borrowed place of type array[int, 2]; "btmp": a borrowed parameter whose ARGUMENT is a temporary `array(0, 0)`
        # (not a place: it takes its output port, nothing is bound) — same type as "bint", so a wrong port goes unnoticed by types
        kind = rng.choice(["borrowed", "borrowed", "owned", "copy", "bint", "btmp", "btmp"])
        params.append(kind)
    nres = rng.randrange(0, 3)
    return params, nres


def sig_src(params, nres, perm):
    """callee g with the given parameter kinds; borrowed/owned params are arrays of DISTINCT lengths so that the order of the
    lowered outputs is observable; caller passes its parameters to g in the order `perm`"""
    def pty(j, kind):
        if kind == "copy":
            return "int"
        if kind in ("bint", "btmp"):
            return "array[int, 2]"
        return f"array[qubit, {j + 1}]" + (" @owned" if kind == "owned" else "")
    rty = "None" if nres == 0 else ("int" if nres == 1 else "tuple[" + ", ".join(["int"] * nres) + "]")
    g_params = ", ".join(f"p{j}: {pty(j, kind)}" for j, kind in enumerate(params))
    src = f"@guppy.declare\ndef g({g_params}) -> {rty}: ...\n\n"
    # the caller declares its own parameters in index order, calls g(p_perm...) — only legal if types line up, so the caller's
    # parameter j has the type of g's parameter j and the call passes them in g's order; the permutation is applied to the
    # caller's DECLARATION order instead
    decl = ", ".join(f"p{j}: {pty(j, params[j])}" for j in perm if params[j] != "btmp")
    args = ", ".join(("array(0, 0)" if params[j] == "btmp" else f"p{j}") for j in range(len(params)))
    src += f"@guppy\ndef caller({decl}) -> {rty}:\n    return g({args})\n"
    return src


# ------------------------------------------------------------------ std helpers that implement borrowing by hand (linear types)
STD_SRC = '''
@guppy
def wo_var(q: qubit) -> bool:
    def helper(q: qubit @owned) -> tuple[bool, qubit]:
        return measure(q), qubit()
    return with_owned(q, helper)

@guppy
def wo_elem(qs: array[qubit, 3], i: int) -> bool:
    def helper(q: qubit @owned) -> tuple[bool, qubit]:
        return measure(q), qubit()
    return with_owned(qs[i], helper)

@guppy
def swap_vars(a: qubit, b: qubit) -> None:
    mem_swap(a, b)

@guppy
def swap_elem(qs: array[qubit, 3], i: int, b: qubit) -> None:
    mem_swap(qs[i], b)

@guppy
def meas_ret(q: qubit) -> bool:
    return project_z(q)
'''


def std_helper_probes(ctx):
    """with_owned / mem_swap / project_z on qubits: the lent wire is consumed exactly once and the value that comes back
    into the borrowed place is the callee's (resp. the other place's) — read off the lowered Hugr"""
    import feed
    import c19_ssa as S
    m = feed.load(STD_SRC, prelude=feed.PRELUDE + "from guppylang.std.quantum import *\nfrom guppylang.std.mem import with_owned, mem_swap\n")
    try:
        for fname in ("wo_var", "wo_elem", "swap_vars", "swap_elem", "meas_ret"):
            case = {"kind": "std", "fn": fname}
            ctx.count(case, nontrivial=True, kind="std-helper")
            key = f"input:std-helper {fname}"
            try:
                h = feed.lower(getattr(m, fname)).hugr
                fn = S.find_func(h, fname)
                B = S.Block(h, S.dataflow_blocks(h, fn)[0])
                instrs, outs = S.prune(B.instrs, B.n_in, B.outs)
            except Exception as e:  # noqa: BLE001
                ctx.violation(key, f"{fname} is not compiled: {type(e).__name__}: {e}", {"case": case, "source": STD_SRC})
                continue
            prog = (B.n_in, instrs, outs)
            probs = S.linear_use_problems(h, fn)
            starts, nxt = [], B.n_in
            for ins in instrs:
                starts.append(nxt)
                nxt += ins[3]
            def find(name):
                return [(k, ins) for k, ins in enumerate(instrs) if ins[0] == name]
            if fname in ("wo_var", "wo_elem"):
                ci = find("CallIndirect")
                if len(ci) != 1:
                    probs.append(f"{len(ci)} CallIndirect nodes")
                else:
                    k, ins = ci[0]
                    o_out, o_val = starts[k], starts[k] + 1
                    if fname == "wo_var":
                        if 0 not in ins[2]:
                            probs.append("the closure is not called on the lent qubit")
                        if outs != [o_out, o_val]:
                            probs.append(f"outputs {outs}: the borrowed qubit must be the closure's second result (wire {o_val})")
                    else:
                        rets = find("return")
                        bor = find("borrow")
                        if len(rets) != 1 or len(bor) != 1:
                            probs.append("expected one borrow and one return")
                        else:
                            if starts[bor[0][0]] + 1 not in ins[2]:
                                probs.append("the closure is not called on the borrowed element")
                            if rets[0][1][2][2] != o_val:
                                probs.append(f"the element written back is wire {rets[0][1][2][2]}, not the closure's second result {o_val}")
            elif fname == "swap_vars":
                if instrs or outs != [1, 0]:
                    probs.append(f"mem_swap(a, b) should just exchange the two wires: {S.to_sexp(*prog)}")
            elif fname == "swap_elem":
                rets, bor = find("return"), find("borrow")
                if len(rets) != 1 or len(bor) != 1 or rets[0][1][2][2] != 2 or outs[-1:] != [starts[bor[0][0]] + 1]:
                    probs.append(f"mem_swap(qs[i], b): b must go into the array and the element must come back as b: {S.to_sexp(*prog)}")
            if probs:
                ctx.violation(key, f"{fname}: " + "; ".join(probs) + f" — lowered op list {S.to_sexp(*prog)}",
                              {"case": case, "source": STD_SRC, "extracted": S.to_sexp(*prog), "problems": probs})
    finally:
        feed.unload(m)


def index_once_probe(ctx, rng):
    """index expressions are evaluated exactly once per source occurrence: a borrowing call on a place whose subscripts are
    indexed by calls `ix(i_k)` must contain exactly one `Call ix` per subscript, and every itousize reads one of them"""
    import c19_ssa as S
    seqs = [("sub",), ("sub", "sub"), ("sub", "field", "sub"), ("sub", "sub", "sub"), ("field", "sub", "tuple", "sub")]
    for ks in seqs:
        p = gen_probe(rng, list(ks), "q")
        src, expr = probe_src(p)
        for k in range(1, p.m + 1):
            src = src.replace(f"[i{k}]", f"[ix(i{k})]")
        src = "@guppy.declare\ndef ix(i: int) -> int: ...\n\n" + src
        expr2 = expr
        case = {"kind": "index-once", "kinds": list(ks)}
        ctx.count(case, nontrivial=True, kind="index-once")
        try:
            prog, _sig, _i, _o = extract_probe(src)
        except Exception as e:  # noqa: BLE001
            ctx.violation(f"input:index-once {ks}", f"probe with call indices is not compiled: {type(e).__name__}: {e}",
                          {"case": case, "source": src})
            continue
        n_in, instrs, outs = prog
        starts, nxt = [], n_in
        for ins in instrs:
            starts.append(nxt)
            nxt += ins[3]
        calls = [starts[k] for k, ins in enumerate(instrs) if ins[0] == "call" and ins[1] == ["ix"]]
        conv = [ins[2][0] for ins in instrs if ins[0] == "itousize"]
        if len(calls) != p.m or any(w not in calls for w in conv) or any(c not in conv for c in calls):
            ctx.broke(f"T-obj: index expressions of cal({expr2}) with call indices: {len(calls)} calls of ix for {p.m} subscripts "
                      f"(each index must be evaluated exactly once): {sexp(prog)}")


# ------------------------------------------------------------------ regression: stale struct wire (fixed in /repo 32e45a7)
STALE_SRC = '''
@guppy.struct
class St:
    xs: array[int, 2]
    ys: array[int, 2]

@guppy.declare
def take(s: St @owned) -> None: ...

@guppy.declare
def lend(s: St) -> None: ...

@guppy
def stale_ret(s: St @owned) -> St:
    take(s)
    s.xs = array(1, 2)
    s.ys = array(3, 4)
    return s

@guppy
def stale_lend(s: St @owned) -> St:
    take(s)
    s.xs = array(1, 2)
    s.ys = array(3, 4)
    lend(s)
    return s
'''


def _producer(prog, wire):
    n_in, instrs, _ = prog
    nxt = n_in
    for ins in instrs:
        if nxt <= wire < nxt + ins[3]:
            return ins
        nxt += ins[3]
    return None


def stale_struct_check(ctx):
    """a moved struct with affine fields, reassigned field by field, must evaluate to the NEW field values"""
    import feed
    import c19_ssa as S
    m = feed.load(STALE_SRC)
    try:
        for fname in ("stale_ret", "stale_lend"):
            case = {"kind": "stale", "fn": fname}
            ctx.count(case, nontrivial=True, kind="stale-struct")
            try:
                h = feed.lower(getattr(m, fname)).hugr
                fn = S.find_func(h, fname)
                B = S.Block(h, S.dataflow_blocks(h, fn)[0])
                instrs, outs = S.prune(B.instrs, B.n_in, B.outs, keep=lambda nm: False)
                prog = (B.n_in, instrs, outs)
            except Exception as e:  # noqa: BLE001
                ctx.violation("input:stale-struct-wire", f"{fname} is not compiled: {type(e).__name__}: {e}",
                              {"case": case, "source": STALE_SRC})
                continue
            # the struct handed to `lend` / returned must be packed from the two new arrays
            if fname == "stale_lend":
                calls = [i for i in instrs if i[0] == "call" and i[1] == ["lend"]]
                src_wire = calls[0][2][0] if calls else -1
            else:
                src_wire = outs[0] if outs else -1
            ins = _producer(prog, src_wire)
            ok = ins is not None and ins[0] == "pack" and len(ins[2]) == 2 and all(
                (_producer(prog, a) or ("?",))[0] == "new_array" for a in ins[2])
            if not ok:
                ctx.violation("input:stale-struct-wire",
                              f"{fname}: after take(s); s.xs = array(1,2); s.ys = array(3,4) the value of `s` is not built from the new "
                              f"arrays (it comes from {ins}) — the moved-out struct wire is reused",
                              {"case": case, "source": STALE_SRC, "extracted": S.to_sexp(*prog)})
    finally:
        feed.unload(m)


# ------------------------------------------------------------------ end-to-end execution oracle (interpreter vs CPython)
# types here are qubit-free so that CPython can mirror them: ("i",) int | ("ai",) array[int, 2] | ("aa",) array[array[int, 2], 2]
# | ("st", [types], name) struct | ("tp", [types]) tuple | ("arr", T, 3)
def _e_src(t):
    if t[0] == "i":
        return "int"
    if t[0] == "ai":
        return "array[int, 2]"
    if t[0] == "aa":
        return "array[array[int, 2], 2]"
    if t[0] == "st":
        return t[2]
    if t[0] == "tp":
        return "tuple[" + ", ".join(_e_src(x) for x in t[1]) + "]"
    return f"array[{_e_src(t[1])}, {t[2]}]"


def _e_lit(t, counter):
    if t[0] == "i":
        return str(next(counter))
    if t[0] == "ai":
        return f"array({next(counter)}, {next(counter)})"
    if t[0] == "aa":
        return f"array(array({next(counter)}, {next(counter)}), array({next(counter)}, {next(counter)}))"
    if t[0] == "st":
        return t[2] + "(" + ", ".join(_e_lit(x, counter) for x in t[1]) + ")"
    if t[0] == "tp":
        return "(" + ", ".join(_e_lit(x, counter) for x in t[1]) + ")"
    return "array(" + ", ".join(_e_lit(t[1], counter) for _ in range(t[2])) + ")"


def gen_e2e_place(rng, kinds, arg_kind, variant):
    """a qubit-free program: main builds a structure, lends the place reached by `kinds` to a mutating callee, returns it all"""
    structs = []

    def mk_struct(fields):
        name = f"E{next(_struct_counter)}"
        structs.append((name, fields))
        return ("st", fields, name)

    def filler():
        return rng.choice([("i",), ("i",), ("ai",)])

    if arg_kind == "ai":
        t = ("ai",)
        body = ["a[0] = a[0] + 100", "a[1] = a[1] + 200"]
    elif arg_kind == "aa":
        t = ("aa",)
        body = ["a[1][0] = a[1][0] + 100", "a[0][1] += 200"]
    elif arg_kind == "st":
        t = mk_struct([("ai",), ("i",)])
        body = ["a.f0[1] = a.f0[1] + 100"] + (["a.f0 = array(a.f0[0] + 5, 55)"] if rng.random() < 0.5 else [])
    else:
        t = ("tp", [("ai",), ("i",)])
        body = ["a[0][0] = a[0][0] + 100"]
    arg_ty = t
    steps, m = [], sum(1 for k in kinds if k == "sub")
    level = m
    for kind in reversed(kinds):
        if kind == "sub":
            t = ("arr", t, 3)
            steps.append(("sub", level))
            level -= 1
        else:
            arity = rng.choice([2, 2, 3])
            pos = rng.randrange(arity)
            elems = [filler() for _ in range(arity)]
            elems[pos] = t
            t = mk_struct(elems) if kind == "field" else ("tp", elems)
            steps.append(("proj", pos))
    steps.reverse()
    fx = variant.endswith("+fx") and m > 0
    variant = variant.replace("+fx", "")
    expr, tt = "x", t
    for st_ in steps:
        if st_[0] == "sub":
            # with `fx` the index is a non-idempotent call: it must be evaluated exactly once, left to right
            expr += "[nxt(c)]" if fx and (st_[1] == 1 or rng.random() < 0.6) else f"[i{st_[1]}]"
            tt = tt[1]
        else:
            expr += f".f{st_[1]}" if tt[0] == "st" else f"[{st_[1]}]"
            tt = tt[1][st_[1]]
    out = []
    for name, fields in structs:
        out.append("@guppy.struct\nclass %s:\n%s\n" % (name, "\n".join(f"    f{k}: {_e_src(ft)}" for k, ft in enumerate(fields))))
    out.append(f"@guppy\ndef cal(a: {_e_src(arg_ty)}) -> None:\n" + "\n".join("    " + b for b in body) + "\n")
    if fx:
        out.append("@guppy\ndef nxt(c: array[int, 1]) -> int:\n    c[0] = c[0] + 1\n    return (c[0] - 1) % 3\n")
    if variant == "nest":
        out.append(f"@guppy\ndef outer(a: {_e_src(arg_ty)}) -> None:\n    cal(a)\n    cal(a)\n")
    if variant in ("owned_grow", "owned_replace", "swap_own"):
        out.append("@guppy\ndef grow(a: array[int, 2] @owned) -> tuple[int, array[int, 2]]:\n    a[0] += 100\n    return a[1], a\n")
        out.append("@guppy\ndef replace(a: array[int, 2] @owned) -> tuple[int, array[int, 2]]:\n    return a[0] + a[1], array(77, 88)\n")
    params = ", ".join([f"i{j}: int" for j in range(1, m + 1)] + (["i0: int"] if fx else []))
    pre = "    c = array(i0)\n" if fx else ""
    rty, ret = _e_src(t), "x"
    if variant == "once":
        call = f"    cal({expr})"
    elif variant == "twice":
        call = f"    cal({expr})\n    cal({expr})"
    elif variant == "nest":
        call = f"    outer({expr})"
    elif variant == "owned_grow":
        call, rty, ret = f"    r = with_owned({expr}, grow)", f"tuple[int, {_e_src(t)}]", "r, x"
    elif variant == "owned_replace":
        call, rty, ret = f"    r = with_owned({expr}, replace)\n    cal({expr})", f"tuple[int, {_e_src(t)}]", "r, x"
    elif variant == "swap":
        call, rty, ret = f"    y = array(91, 92)\n    mem_swap({expr}, y)\n    cal(y)", f"tuple[{_e_src(t)}, array[int, 2]]", "x, y"
    else:  # swap_own
        call = f"    y = array(91, 92)\n    mem_swap(y, {expr})\n    r = with_owned({expr}, replace)"
        rty, ret = f"tuple[int, {_e_src(t)}, array[int, 2]]", "r, x, y"
    if fx:
        rty, ret = (f"tuple[{rty[6:-1]}, int]" if rty.startswith("tuple[") and ret != "x" else f"tuple[{rty}, int]"), ret + ", c[0]"
    out.append(f"@guppy\ndef main({params}) -> {rty}:\n    x = {_e_lit(t, itertools.count(1))}\n{pre}{call}\n    return {ret}\n")
    return "\n".join(out), expr, m + (1 if fx else 0)


def e2e(ctx):
    import c19_e2e as E
    rng = ctx.rng
    seqs = _all_kind_seqs(2) + [("sub", "sub", "sub"), ("sub", "field", "sub"), ("field", "sub", "sub"), ("sub", "sub", "tuple")]
    extra = [s_ for s_ in _all_kind_seqs(3) if len(s_) == 3]
    rng.shuffle(extra)
    seqs += extra[: (4 if ctx.quick else len(extra))]
    skipped = 0
    for ks in seqs:
        arg_kinds = ["ai", rng.choice(["aa", "st", "tp"])] if ctx.quick else ["ai", "aa", "st", "tp"]
        for a in arg_kinds:
            variant = rng.choice(["once", "once", "twice", "nest"])
            if a == "ai" and rng.random() < 0.6:  # std helpers that implement borrowing by hand
                variant = rng.choice(["owned_grow", "owned_replace", "swap", "swap_own"])
            if "sub" in ks and rng.random() < 0.5:
                variant += "+fx"
            src, expr, m = gen_e2e_place(rng, list(ks), a, variant)
            inputs = [tuple(rng.randrange(0, 3) for _ in range(m)) for _ in range(3 if m else 1)]
            if m:
                inputs.append(tuple(rng.choice([-1, 3, 0, 1, 2, 1 << 33]) for _ in range(m)))
                inputs.append(tuple([0] * (m - 1) + [rng.choice([-1, 3])]))
            skipped += E.check_program(ctx, f"place:{variant}", src, inputs, f"input:e2e cal({expr}) [{variant}] :: {src}",
                                       nontrivial=len(ks) >= 2 or "sub" in ks)
    # borrowed parameters whose argument is a TEMPORARY (array display, call result) mixed with places: every place must get
    # the value handed back for ITS parameter (seed C07-m6)
    HDR = ("@guppy\ndef two(a: array[int, 2], b: array[int, 2]) -> None:\n    b[0] = a[0] + 100\n    a[1] = a[1] + 50\n\n"
           "@guppy\ndef three(a: array[int, 2], b: array[int, 2], c: array[int, 2]) -> int:\n    c[1] = a[0] + b[1]\n    b[0] = b[0] + 1\n"
           "    a[0] = a[0] + 7\n    return a[1]\n\n"
           "@guppy\ndef fresh(k: int) -> array[int, 2]:\n    return array(k, k + 1)\n\n")
    for _ in range(6 if ctx.quick else 40):
        body = ["    xs = array(1, 2)", "    ys = array(3, 4)", "    xss = array(array(11, 12), array(13, 14), array(15, 16))", "    acc = 0"]
        for _k in range(rng.randrange(1, 4)):
            arity = rng.choice([2, 3])
            places = ["xs", "ys", rng.choice(["xss[i]", "xss[1]", "xss[j]"])]
            rng.shuffle(places)
            args = []
            for _a in range(arity):
                if rng.random() < 0.45 or not places:
                    args.append(rng.choice([f"array({rng.randrange(20, 30)}, {rng.randrange(30, 40)})", f"fresh({rng.randrange(40, 60)})"]))
                else:
                    args.append(places.pop())
            if all(not a.startswith(("array(", "fresh(")) for a in args):
                args[0] = "array(7, 8)"
            body.append(f"    two({', '.join(args)})" if arity == 2 else f"    acc = acc * 3 + three({', '.join(args)})")
        src = (HDR + "@guppy\ndef main(i: int, j: int) -> tuple[int, array[int, 2], array[int, 2], array[array[int, 2], 3]]:\n"
               + "\n".join(body) + "\n    return acc, xs, ys, xss\n")
        skipped += E.check_program(ctx, "temp-args", src, [(0, 2), (2, 0), (1, 1), (0, 3), (-1, 0)], f"input:e2e temp-args :: {src}")
    ctx.extra["e2e_skipped"] = skipped
    # copyable ELEMENTS lent through generic parameters (mem_swap, with_owned, user generics): classical get ... set write-back
    E.copyable_lend(ctx)


# ------------------------------------------------------------------ tie
def _all_kind_seqs(depth):
    out = []
    for d in range(depth + 1):
        out += list(itertools.product(["field", "tuple", "sub"], repeat=d))
    return out


def tie(ctx):
    rng = ctx.rng
    corpus_dir = os.path.join(vlib.VERIF, "corpus", "c07")
    corpus = []
    if os.path.isdir(corpus_dir):
        for fn in sorted(os.listdir(corpus_dir)):
            corpus += json.load(open(os.path.join(corpus_dir, fn)))
    if ctx.replay_in and "case" in ctx.replay_in.get("replay", {}):
        corpus.append(ctx.replay_in["replay"]["case"])

    stale_struct_check(ctx)
    std_helper_probes(ctx)
    index_once_probe(ctx, rng)
    e2e(ctx)

    # ---- place probes
    seqs = [tuple(c["kinds"]) for c in corpus if c.get("kind") == "place"]
    arg_of = {}
    for c in corpus:
        if c.get("kind") == "place":
            arg_of[tuple(c["kinds"])] = c.get("arg", "q")
    depth = 3 if ctx.quick else 4
    all_seqs = _all_kind_seqs(depth)
    if ctx.quick:
        # every sequence up to depth 2, a sample of depth 3
        base = [s for s in all_seqs if len(s) <= 2]
        rest = [s for s in all_seqs if len(s) == 3]
        rng.shuffle(rest)
        seqs += base + rest[:14]
    else:
        seqs += all_seqs
    probes = []
    for ks in seqs:
        args = [arg_of.get(ks, "q")] if ks in arg_of else (["q"] if ctx.quick and len(ks) >= 2 else ["q", rng.choice(["struct", "arr", "tup", "ai", "mixed"])])
        if not ctx.quick and len(ks) <= 2:
            args = ["q", "struct", "arr", "tup", "ai", "mixed"]
        for a in args:
            probes.append((ks, a, gen_probe(rng, list(ks), a)))
    cases, lines = [], []
    for ks, a, p in probes:
        src, expr = probe_src(p)
        idxs = [rng.randrange(0, 3) for _ in range(p.m)]
        store = mk_store(p.root_ty, itertools.count(1))
        try:
            prog, sig, in_tys, out_tys = extract_probe(src)
            err = None
        except Exception as e:  # noqa: BLE001
            prog, sig, in_tys, out_tys, err = None, None, None, None, e
        cases.append((ks, a, p, src, expr, idxs, store, prog, sig, in_tys, out_tys, err))
        ps = path_sexp(p, idxs)
        lines.append(f"(emit {ty_sexp(p.root_ty)} {ps} cal)")
        lines.append(f"(runa {ps} {val_sexp(store)})")
        lines.append(f"(lens {ps} {val_sexp(store)})")
        if prog is not None:
            lines.append(f"(runw {sexp(prog)} {val_sexp(store)} ({' '.join(map(str, idxs))}))")
        else:
            lines.append(f"(lens {ps} {val_sexp(store)})")
        lines.append(f"(wt {ty_sexp(p.root_ty)} {ps})")

    # ---- signature probes
    sig_cases = []
    for c in corpus:
        if c.get("kind") == "sig":
            sig_cases.append((c["params"], c["nres"], c["perm"]))
    for _ in range(ctx.n(25, 400)):
        params, nres = sig_case(rng)
        perm = list(range(len(params)))
        rng.shuffle(perm)
        sig_cases.append((params, nres, perm))
    sig_runs = []
    for params, nres, perm in sig_cases:
        src = sig_src(params, nres, perm)
        try:
            import feed
            import c19_ssa as S
            m = feed.load(src, prelude=feed.PRELUDE + "from guppylang.std.quantum import qubit\n")
            try:
                h = feed.lower(m.caller).hugr
                import hugr.ops as ops
                gdecl = [n for n in h if isinstance(h[n].op, ops.FuncDecl) and h[n].op.f_name == "g"]
                gop = h[gdecl[0]].op
                g_in = [str(t) for t in gop.signature.body.input]
                g_out = [str(t) for t in gop.signature.body.output]
                fn = S.find_func(h, "caller")
                cop = h[fn].op
                c_in = [str(t) for t in cop.inputs]
                c_out = [str(t) for t in cop.outputs]
                B = S.Block(h, S.dataflow_blocks(h, fn)[0])
                instrs, outs = S.prune(B.instrs, B.n_in, B.outs)
                prog = (B.n_in, instrs, outs)
            finally:
                feed.unload(m)
            sig_runs.append((params, nres, perm, src, (g_in, g_out, c_in, c_out, prog), None))
        except Exception as e:  # noqa: BLE001
            sig_runs.append((params, nres, perm, src, None, e))
        lines.append("(sig (" + " ".join(f"({j} {1 if k in ('borrowed', 'bint', 'btmp') else 0} {0 if k == 'btmp' else 1})"
                                         for j, k in enumerate(params)) + ") (" +
                     " ".join(str(100 + r) for r in range(nres)) + "))")

    # ---- assignment probes (`pi = v`, StmtCompiler._assign_place): paths ending in a struct field of affine type
    a_seqs = [tuple(c["kinds"]) for c in corpus if c.get("kind") == "assign"]
    field_seqs = [ks + ("field",) for ks in _all_kind_seqs(2 if ctx.quick else 3)]
    if ctx.quick:
        rng.shuffle(field_seqs)
        field_seqs = field_seqs[:8]
    a_cases = []
    for ks in a_seqs + field_seqs:
        p = gen_probe(rng, list(ks), "ai")
        src, expr = assign_src(p)
        idxs = [rng.randrange(0, 3) for _ in range(p.m)]
        store = mk_store(p.root_ty, itertools.count(1))
        newv = ("a", [("l", 900), ("l", 901)])
        try:
            prog, sig, _in, _out = extract_probe(src)
            err = None
        except Exception as e:  # noqa: BLE001
            prog, sig, err = None, None, e
        a_cases.append((ks, p, src, expr, idxs, store, newv, prog, sig, err))
        ps = path_sexp(p, idxs)
        lines.append(f"(emitassign {ty_sexp(p.root_ty)} {ps})")
        lines.append(f"(runa2 {ps} {val_sexp(store)} {val_sexp(newv)})")
        lines.append(f"(lens2 {ps} {val_sexp(store)} {val_sexp(newv)})")
        if prog is not None:
            lines.append(f"(runw2 {sexp(prog)} {val_sexp(store)} ({' '.join(map(str, idxs))}) {val_sexp(newv)})")
        else:
            lines.append(f"(lens2 {ps} {val_sexp(store)} {val_sexp(newv)})")

    # ---- assignment to a copyable array element (`x...[i] = v`, classical set): paths ending in a subscript
    s_seqs = [tuple(c["kinds"]) for c in corpus if c.get("kind") == "assignset"]
    sub_seqs = [ks + ("sub",) for ks in _all_kind_seqs(2 if ctx.quick else 3)]
    if ctx.quick:
        rng.shuffle(sub_seqs)
        sub_seqs = sub_seqs[:8]
    s_cases = []
    for ks in s_seqs + sub_seqs:
        p = gen_probe(rng, list(ks), "c")
        src, expr = assign_src(p)
        idxs = [rng.randrange(0, 3) for _ in range(p.m)]
        store = mk_store(p.root_ty, itertools.count(1))
        newv = ("l", 900)
        try:
            prog, sig, _in, _out = extract_probe(src)
            err = None
        except Exception as e:  # noqa: BLE001
            prog, sig, err = None, None, e
        s_cases.append((ks, p, src, expr, idxs, store, newv, prog, sig, err))
        ps = path_sexp(p, idxs)
        lines.append(f"(emitset {ty_sexp(p.root_ty)} {ps})")
        lines.append(f"(runaset {ps} {val_sexp(store)} {val_sexp(newv)})")
        lines.append(f"(lens2 {ps} {val_sexp(store)} {val_sexp(newv)})")
        if prog is not None:
            lines.append(f"(runw2 {sexp(prog)} {val_sexp(store)} ({' '.join(map(str, idxs))}) {val_sexp(newv)})")
        else:
            lines.append(f"(lens2 {ps} {val_sexp(store)} {val_sexp(newv)})")

    reps = ctx.driver(DRIVER, lines)

    for src_l, lp in LINEAR_PROBLEMS[:5]:
        ctx.violation("input:linear-use " + src_l, "a wire of linear type is not consumed exactly once in the lowered probe: "
                      + "; ".join(lp[:3]) + f"; source:\n{src_l}", {"case": {"kind": "linear-use"}, "source": src_l, "problems": lp})
    del LINEAR_PROBLEMS[:]

    # ---- evaluate set-assignment probes
    base3 = 5 * len(cases) + len(sig_runs) + 4 * len(a_cases)
    for k, (ks, p, src, expr, idxs, store, newv, prog, sig, err) in enumerate(s_cases):
        model_emit, model_runa, model_lens, model_runw = reps[base3 + 4 * k: base3 + 4 * k + 4]
        case = {"kind": "assignset", "kinds": list(ks), "expr": expr, "root": ty_src(p.root_ty), "idxs": idxs}
        ctx.count({"assignset": expr, "root": ty_sexp(p.root_ty)}, nontrivial=len(ks) >= 2, kind=f"assignset:depth{len(ks)}:subs{p.m}")
        key = f"input:assignset {ty_src(p.root_ty)} :: {expr} = v :: {[(n, [ty_src(t) for t in fs]) for n, fs in p.structs]}"
        if prog is None:
            ctx.violation(key, f"assignment {expr} = v with x: {ty_src(p.root_ty)} is not compiled: {type(err).__name__}: {err}",
                          {"case": case, "source": src, "error": repr(err)})
            continue
        want = "ok " + val_sexp(oracle_assign(store, p, idxs, new=newv))
        real = py_run(prog, [store] + [("int", i) for i in idxs] + [newv])
        real_s = sexp(prog)
        if real.startswith("err unknownOp:"):
            ctx.broke(f"{expr} = v: extracted op list contains an operation without modelled semantics: {real}")
        elif real != want:
            ctx.violation(key, f"{expr} = v with x: {ty_src(p.root_ty)}, indices {idxs}: the lowered op list turns the store "
                          f"{val_sexp(store)} into {real}; reference semantics (store[pi := v]) gives {want}",
                          {"case": case, "source": src, "extracted": real_s, "real": real, "oracle": want})
        if real_s != model_emit:
            ctx.broke(f"T-obj: lowering of `{expr} = v` [x: {ty_src(p.root_ty)}] differs from the model's emission "
                      f"(real={real_s} model={model_emit})")
        if model_runw != real:
            ctx.broke(f"Lean vs Python interpretation of the extracted op list for `{expr} = v`: {model_runw} vs {real}")
        if model_runa != want or model_lens != want:
            ctx.broke(f"Lean place-level sequence / lens on `{expr} = v`: runa={model_runa} lens={model_lens} expected {want}")

    # ---- evaluate assignment probes
    base2 = 5 * len(cases) + len(sig_runs)
    for k, (ks, p, src, expr, idxs, store, newv, prog, sig, err) in enumerate(a_cases):
        model_emit, model_runa, model_lens, model_runw = reps[base2 + 4 * k: base2 + 4 * k + 4]
        case = {"kind": "assign", "kinds": list(ks), "expr": expr, "root": ty_src(p.root_ty), "idxs": idxs}
        ctx.count({"assign": expr, "root": ty_sexp(p.root_ty)}, nontrivial=len(ks) >= 2, kind=f"assign:depth{len(ks)}:subs{p.m}")
        key = f"input:assign {ty_src(p.root_ty)} :: {expr} = v :: {[(n, [ty_src(t) for t in fs]) for n, fs in p.structs]}"
        if prog is None:
            ctx.violation(key, f"assignment {expr} = v with x: {ty_src(p.root_ty)} is not compiled: {type(err).__name__}: {err}",
                          {"case": case, "source": src, "error": repr(err)})
            continue
        want = "ok " + val_sexp(oracle_assign(store, p, idxs, new=newv))
        real = py_run(prog, [store] + [("int", i) for i in idxs] + [newv])
        real_s = sexp(prog)
        if real.startswith("err unknownOp:"):
            ctx.broke(f"{expr} = v: extracted op list contains an operation without modelled semantics: {real}")
        elif real != want:
            ctx.violation(key, f"{expr} = v with x: {ty_src(p.root_ty)}, indices {idxs}: the lowered op list turns the store "
                          f"{val_sexp(store)} into {real}; reference semantics (store[pi := v]) gives {want}",
                          {"case": case, "source": src, "extracted": real_s, "real": real, "oracle": want})
        if real_s != model_emit:
            ctx.broke(f"T-obj: lowering of `{expr} = v` [x: {ty_src(p.root_ty)}] differs from the model's emission "
                      f"(real={real_s} model={model_emit})")
        if model_runw != real:
            ctx.broke(f"Lean vs Python interpretation of the extracted op list for `{expr} = v`: {model_runw} vs {real}")
        if model_runa != want or model_lens != want:
            ctx.broke(f"Lean place-level sequence / lens on `{expr} = v`: runa={model_runa} lens={model_lens} expected {want}")

    # ---- evaluate place probes
    for k, (ks, a, p, src, expr, idxs, store, prog, sig, in_tys, out_tys, err) in enumerate(cases):
        model_emit, model_runa, model_lens, model_runw, model_wt = reps[5 * k: 5 * k + 5]
        if model_wt != "ok":
            ctx.broke(f"probe cal({expr}) [x: {ty_src(p.root_ty)}] does not satisfy the hypothesis WT of theorem wire_writeback: {model_wt}")
        case = {"kind": "place", "kinds": list(ks), "arg": a, "expr": expr, "root": ty_src(p.root_ty), "idxs": idxs}
        nontriv = len(ks) >= 2 or "sub" in ks
        ctx.count({"expr": expr, "root": ty_sexp(p.root_ty), "arg": a}, nontrivial=nontriv,
                  kind=f"place:depth{len(ks)}:subs{p.m}")
        key = f"input:place {ty_src(p.root_ty)} :: cal({expr}) :: {[(n, [ty_src(t) for t in fs]) for n, fs in p.structs]}"
        if prog is None:
            ctx.violation(key, f"borrowing call cal({expr}) with x: {ty_src(p.root_ty)} is not compiled: {type(err).__name__}: {err}",
                          {"case": case, "source": src, "error": repr(err)})
            continue
        want = "ok " + val_sexp(oracle_assign(store, p, idxs))
        real = py_run(prog, [store] + [("int", i) for i in idxs])
        real_s = sexp(prog)
        if real.startswith("err unknownOp:"):
            ctx.broke(f"cal({expr}): extracted op list contains an operation without modelled semantics: {real}")
        elif real != want:
            ctx.violation(key, f"cal({expr}) with x: {ty_src(p.root_ty)}, indices {idxs}: the lowered op list turns the store "
                          f"{val_sexp(store)} into {real}; reference semantics (store[pi := callee(store[pi])]) gives {want}",
                          {"case": case, "source": src, "extracted": real_s, "real": real, "oracle": want})
        if tuple(sig) != (1 + p.m, 1):
            ctx.broke(f"T-obj: probe cal({expr}) lowered with signature {sig}, expected {(1 + p.m, 1)} (borrowed x appended to outputs)")
        if real_s != model_emit:
            ctx.broke(f"T-obj: lowering of cal({expr}) [x: {ty_src(p.root_ty)}] differs from the model's wire-level emission "
                      f"(real={real_s} model={model_emit})")
        if model_runw != real:
            ctx.broke(f"Lean vs Python interpretation of the extracted op list for cal({expr}): {model_runw} vs {real}")
        if model_runa != want or model_lens != want:
            ctx.broke(f"Lean place-level sequence / lens on cal({expr}) store {val_sexp(store)}: runa={model_runa} lens={model_lens} expected {want}")

    # ---- evaluate signature probes
    base = 5 * len(cases)
    for k, (params, nres, perm, src, got, err) in enumerate(sig_runs):
        model = reps[base + k]
        is_b = lambda kd: kd in ("borrowed", "bint", "btmp")  # noqa: E731
        nb = sum(1 for x in params if is_b(x))
        decl = [j for j in perm if params[j] != "btmp"]
        case = {"kind": "sig", "params": params, "nres": nres, "perm": perm}
        ctx.count(case, nontrivial=nb >= 2, kind=f"sig:borrowed{nb}" + (":tmp" if "btmp" in params else ""))
        key = f"input:sig params={params} nres={nres} perm={perm}"
        if got is None:
            ctx.violation(key, f"signature probe is not compiled: {type(err).__name__}: {err}", {"case": case, "source": src, "error": repr(err)})
            continue
        g_in, g_out, c_in, c_out, prog = got
        # oracle: outputs = declared results, then the borrowed inputs in input order
        import hugr.std.int as hint
        INT = str(hint.int_t(6))
        want_g_out = [INT] * nres + [g_in[j] for j, kd in enumerate(params) if is_b(kd)]
        if g_out != want_g_out:
            ctx.violation(key, f"lowered signature of g{tuple(params)}: outputs {g_out}, expected results then borrowed inputs in order {want_g_out}",
                          {"case": case, "source": src, "real": g_out, "oracle": want_g_out})
        want_c_out = [INT] * nres + [c_in[pos] for pos, j in enumerate(decl) if params[j] in ("borrowed", "bint")]
        if c_out != want_c_out:
            ctx.violation(key + " caller", f"lowered signature of caller: outputs {c_out}, expected {want_c_out}",
                          {"case": case, "source": src, "real": c_out, "oracle": want_c_out})
        # model: names of the extra outputs in order
        exp_model = "ok (" + " ".join([f"r{100 + r}" for r in range(nres)] + [f"b{j}" for j, kd in enumerate(params) if is_b(kd)]) + ")"
        if not model.startswith(exp_model + " "):
            ctx.broke(f"Lean hugrOutputs for {params}/{nres}: {model}, expected prefix {exp_model}")
        # Call wiring in the caller: the caller's output for its borrowed parameter (declared at position pos, = g's parameter j)
        # must be the Call output that _update_inout_ports assigns to argument j
        asg = {}
        try:
            inner = model[len(exp_model) + 1:]
            pairs = inner[inner.index("(") + 1: inner.rindex(") left=")]
            for tok in pairs.replace("(", " ").replace(")", " ").split():
                pass
            nums = [int(x) for x in pairs.replace("(", " ").replace(")", " ").split()]
            asg = {nums[i]: nums[i + 1] for i in range(0, len(nums), 2)}
            left = int(inner[inner.rindex("left=") + 5:])
        except Exception:  # noqa: BLE001
            left = -1
        if left != 0:
            ctx.broke(f"Lean updateInoutPorts leaves ports unconsumed / fails for {params}: {model}")
        n_in = prog[0]
        calls = [(idx, ins) for idx, ins in enumerate(prog[1]) if ins[0] == "call"]
        ok_shape = len(calls) == 1 and calls[0][1][1] == ["g"]
        if ok_shape:
            idx, (nm, ps_, args, nout) = calls[0]
            start = n_in + sum(i[3] for i in prog[1][:idx])
            # arguments: g's parameter j is the caller's input at position perm.index(j) (comptime-free probes)
            want_args = [(decl.index(j) if params[j] != "btmp" else None) for j in range(len(params))]
            tail_outs = prog[2][nres:]
            # independent oracle (positional rule, written here): the k-th borrowed parameter of g — place or temporary —
            # owns output port nres + k; a place argument is re-bound to exactly that port
            py_asg, k_b = {}, 0
            for j, kd in enumerate(params):
                if is_b(kd):
                    if kd != "btmp":
                        py_asg[j] = nres + k_b
                    k_b += 1
            if asg != py_asg:
                ctx.broke(f"Lean updateInoutPorts bindings {asg} differ from the positional rule {py_asg} for {params}/{nres}")
            want_tail = [start + py_asg[j] for j in decl if params[j] in ("borrowed", "bint")]
            args_ok = len(args) == len(want_args) and all(w is None or a == w for a, w in zip(args, want_args))
            if not args_ok or nout != nres + nb:
                ctx.violation(key + " call", f"Call of g in caller: args {args} nout {nout}, expected args {want_args} nout {nres + nb}",
                              {"case": case, "source": src, "extracted": sexp(prog)})
            elif tail_outs != want_tail:
                ctx.violation(key + " wiring", f"caller returns its borrowed parameters from Call outputs {tail_outs}; "
                              f"_update_inout_ports (the k-th borrowed parameter — place or temporary — takes the k-th extra output) requires {want_tail}",
                              {"case": case, "source": src, "extracted": sexp(prog), "real": tail_outs, "oracle": want_tail})
        else:
            ctx.broke(f"T-obj: caller probe does not contain exactly one Call of g: {sexp(prog)}")


def search(ctx, why):
    """deeper search: more random typed paths, interpreted against the lens oracle"""
    rng = ctx.rng
    for _ in range(150):
        d = rng.randrange(1, 5)
        ks = [rng.choice(["field", "tuple", "sub"]) for _ in range(d)]
        a = rng.choice(["q", "struct", "arr", "tup"])
        p = gen_probe(rng, ks, a)
        src, expr = probe_src(p)
        idxs = [rng.randrange(0, 3) for _ in range(p.m)]
        store = mk_store(p.root_ty, itertools.count(1))
        try:
            prog, sig, _i, _o = extract_probe(src)
        except Exception:  # noqa: BLE001
            continue
        want = "ok " + val_sexp(oracle_assign(store, p, idxs))
        real = py_run(prog, [store] + [("int", i) for i in idxs])
        if real != want and not real.startswith("err unknownOp:"):
            key = f"input:place {ty_src(p.root_ty)} :: cal({expr}) :: {[(n, [ty_src(t) for t in fs]) for n, fs in p.structs]}"
            ctx.violation(key, f"cal({expr}) with x: {ty_src(p.root_ty)}, indices {idxs}: lowered op list gives {real}; reference gives {want}",
                          {"case": {"kind": "place", "kinds": ks, "arg": a, "expr": expr}, "source": src, "extracted": sexp(prog),
                           "real": real, "oracle": want, "why": why})
            return


if __name__ == "__main__":
    vlib.main(sys.modules[__name__])
