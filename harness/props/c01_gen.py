"""Random generator of *mostly type-correct* Guppy programs (property C01: accepted programs
lower to valid HUGR).

    gen_program(rng, size=3) -> {"src": <source text>, "features": [tags...]}

The generator is a typed, scope-aware program builder:

* every variable in scope carries its type, whether it is a borrowed parameter, and the set of
  its non-copyable *leaf places* (the variable itself, or the non-copyable fields of a struct,
  recursively) that are currently moved;
* expressions are generated for a requested type; expressions that move places update the
  environment in evaluation order; within one statement a non-copyable place is touched once;
* at control-flow joins (if / loops / break / continue / return) a *fix-up* brings every branch
  to one common ownership state by consuming still-owned linear places (discard / measure /
  unpack / pass to an `@owned` helper) or re-filling moved ones (`q = qubit()`, `s.q = qubit()`);
* `rng` is the only source of randomness (no sets are iterated, no hashing, no time).

Run as a script for the self test:  /venv/bin/python c01_gen.py [N] [size]
"""
from __future__ import annotations

import random

FEATURES = [
    # classical expressions
    "arith_int", "arith_float", "compare", "chained_cmp", "bool_and", "bool_or", "bool_not", "ifexp", "cast",
    "aug_assign", "annotated_assign", "multi_assign", "walrus", "comptime_expr",
    # tuples
    "tuple_build", "tuple_unpack", "tuple_nested", "tuple_nested_unpack", "tuple_qubit", "tuple_index",
    # structs
    "struct_build", "struct_nested", "struct_field_read", "struct_qubit_field", "struct_qfield_reassign",
    "struct_owned_arg", "struct_borrow_arg", "struct_return", "struct_whole_consume", "struct_field_after_move",
    "borrowed_field_consume",
    # qubits
    "qubit_alloc", "gate1", "gate2", "measure", "discard", "qubit_realloc", "measure_cond", "qubit_param",
    "qubit_borrow_arg", "qubit_return",
    # control flow
    "if", "if_else", "elif", "nested_if", "while", "while_true", "for_range", "for_range2", "break", "continue",
    "early_return", "return_in_loop", "dead_code", "joint_def", "joint_def_linear", "one_path_var", "branch_fixup_consume",
    "branch_fixup_refill", "loop_fixup_consume", "loop_fixup_refill", "return_fixup_consume", "return_fixup_refill", "nested_loop", "linear_across_loop",
    "linear_across_if", "struct_across_loop", "tuple_across_branch",
    # functions
    "helper_call", "recursion", "generic_copy", "generic_linear", "generic_array", "generic_pair", "comptime_arg",
    "nested_fn", "closure", "nested_fn_qubit", "higher_order", "none_return", "fn_value", "retype",
    # arrays / affine values
    "array_lit", "array_index", "array_dyn_index", "array_set", "array_pass", "array_owned_arg", "array_return",
    "array_len", "array_copy", "qarray", "qarray_gate", "measure_array", "discard_array", "for_array",
    "for_qarray", "affine_drop", "affine_moved_in_branch", "option", "option_unused", "unused_struct",
    "unused_array",
]

# --------------------------------------------------------------------------- types
INT, BOOL, FLOAT, QUBIT, NONE = ("int",), ("bool",), ("float",), ("qubit",), ("none",)


def TUP(*ts):
    return ("tuple", tuple(ts))


def STRUCT(name):
    return ("struct", name)


def ARR(t, n):
    return ("array", t, n)


def OPT(t):
    return ("option", t)


def FN(args, ret):
    return ("fn", tuple(args), ret)


# When True the generator also emits two constructs that are known to trip /repo (see the NB
# comments at their use sites); leave False for a high acceptance rate.
RISKY = False


class GenFail(Exception):
    """The chosen production cannot be completed in the current scope."""


class Param:
    def __init__(self, name, ty, owned=False, comptime=False):
        self.name, self.ty, self.owned, self.comptime = name, ty, owned, comptime


class Helper:
    def __init__(self, name, params, ret, generic=None, recursive=False):
        self.name, self.params, self.ret = name, params, ret
        self.generic = generic
        self.recursive = recursive


class Var:
    __slots__ = ("name", "ty", "borrowed", "readonly", "moved", "fn")

    def __init__(self, name, ty, borrowed=False, readonly=False, fn=None):
        self.name, self.ty, self.borrowed, self.readonly = name, ty, borrowed, readonly
        self.moved = []  # list of moved leaf paths (kept as a list: deterministic order)
        self.fn = fn  # Helper, for local functions

    def clone(self):
        v = Var(self.name, self.ty, self.borrowed, self.readonly, self.fn)
        v.moved = list(self.moved)
        return v


class Env:
    def __init__(self):
        self.vars = {}  # name -> Var, insertion ordered

    def clone(self):
        e = Env()
        e.vars = {k: v.clone() for k, v in self.vars.items()}
        return e

    def restore(self, other):
        self.vars = other.vars

    def add(self, var):
        self.vars[var.name] = var
        return var


class Loop:
    def __init__(self, head, no_exit=False):
        self.head = head  # name -> tuple(moved paths)
        self.no_exit = no_exit


class FnCtx:
    def __init__(self, ret, helpers, self_helper=None, nest=0):
        self.ret = ret
        self.helpers = helpers  # callable top level helpers
        self.self_helper = self_helper
        self.loops = []
        self.nest = nest
        self.used = []  # (name, path) touched non-copyable places in the current statement
        self.borrowed_any = False
        self.moved_borrowed_var = False


def _prefix(a, b):
    return a[: len(b)] == b or b[: len(a)] == a


class Gen:
    MAXD = 2

    def __init__(self, rng, size):
        self.rng = rng
        self.size = max(1, size)
        self.structs = {}  # name -> [(field, ty)]
        self.feats = []
        self.counter = 0
        self.fc = None
        self.decls = []  # type var declarations
        self.need_experimental = False

    # ------------------------------------------------------------------ utilities
    def feat(self, *tags):
        for t in tags:
            if t not in self.feats:
                self.feats.append(t)

    def fresh(self, prefix="v"):
        self.counter += 1
        return f"{prefix}{self.counter}"

    def chance(self, p):
        return self.rng.random() < p

    def wchoice(self, opts):
        """opts: list of (weight, value)."""
        tot = sum(w for w, _ in opts)
        r = self.rng.random() * tot
        for w, v in opts:
            r -= w
            if r < 0:
                return v
        return opts[-1][1]

    def wshuffle(self, opts):
        opts = list(opts)
        out = []
        while opts:
            tot = sum(w for w, _ in opts)
            r = self.rng.random() * tot
            for i, (w, _v) in enumerate(opts):
                r -= w
                if r < 0:
                    break
            out.append(opts.pop(i)[1])
        return out

    def kind(self, t):
        """0 copyable, 1 affine (not copyable, droppable), 2 linear."""
        k = t[0]
        if k == "qubit":
            return 2
        if k == "tuple":
            return max([self.kind(x) for x in t[1]] or [0])
        if k == "struct":
            return max([self.kind(ft) for _f, ft in self.structs[t[1]]] or [0])
        if k == "array":
            return max(1, self.kind(t[1]))
        return 0

    def ty_str(self, t):
        k = t[0]
        if k in ("int", "bool", "float", "qubit"):
            return k
        if k == "none":
            return "None"
        if k == "tuple":
            return "tuple[" + ", ".join(self.ty_str(x) for x in t[1]) + "]"
        if k == "struct":
            return t[1]
        if k == "array":
            return f"array[{self.ty_str(t[1])}, {t[2]}]"
        if k == "option":
            return f"Option[{self.ty_str(t[1])}]"
        if k == "fn":
            return "Callable[[" + ", ".join(self.ty_str(x) for x in t[1]) + "], " + self.ty_str(t[2]) + "]"
        raise AssertionError(t)

    def leaves(self, t, path=()):
        if self.kind(t) == 0:
            return []
        if t[0] == "struct":
            out = []
            for f, ft in self.structs[t[1]]:
                out.extend(self.leaves(ft, path + (f,)))
            return out
        return [(path, t)]

    def subplaces(self, t, path=()):
        out = [(path, t)]
        if t[0] == "struct":
            for f, ft in self.structs[t[1]]:
                out.extend(self.subplaces(ft, path + (f,)))
        return out

    @staticmethod
    def pstr(name, path):
        return ".".join((name,) + tuple(path))

    @staticmethod
    def avail(var, path):
        return not any(_prefix(m, path) for m in var.moved)

    def is_used(self, name, path):
        return any(n == name and _prefix(p, path) for n, p in self.fc.used)

    def mark_moved(self, var, path):
        for lp, _lt in self.leaves(var.ty):
            if lp[: len(path)] == path and lp not in var.moved:
                var.moved.append(lp)
        self.fc.used.append((var.name, path))
        if var.borrowed:
            self.fc.moved_borrowed_var = True

    def begin_stmt(self):
        self.fc.used = []
        self.fc.borrowed_any = False
        self.fc.moved_borrowed_var = False

    # ------------------------------------------------------------------ random types
    def rand_classical(self, d=0):
        opts = [(6, INT), (3, BOOL), (2, FLOAT)]
        if d < 2:
            opts.append((2.2, "tuple"))
            cs = [n for n in self.structs if self.kind(STRUCT(n)) == 0]
            if cs:
                opts.append((1.5, "cstruct"))
            opts.append((0.5, "option"))
        c = self.wchoice(opts)
        if c == "tuple":
            n = self.rng.choice([2, 2, 3])
            return TUP(*[self.rand_classical(d + 1) for _ in range(n)])
        if c == "cstruct":
            return STRUCT(self.rng.choice(cs))
        if c == "option":
            return OPT(self.rng.choice([INT, BOOL, FLOAT]))
        return c

    def rand_ty(self, d=0, linear_w=1.0):
        """any value type"""
        opts = [(8, "classical")]
        opts.append((2.5 * linear_w, QUBIT))
        ls = [n for n in self.structs if self.kind(STRUCT(n)) == 2]
        if ls:
            opts.append((2.5 * linear_w, "lstruct"))
        if d < 2:
            opts.append((1.2 * linear_w, "ltuple"))
            opts.append((1.2, "carray"))
            opts.append((0.8 * linear_w, "qarray"))
        c = self.wchoice(opts)
        if c == "classical":
            return self.rand_classical(d)
        if c == "lstruct":
            return STRUCT(self.rng.choice(ls))
        if c == "ltuple":
            n = self.rng.choice([2, 2, 3])
            ts = [self.rand_ty(d + 1) for _ in range(n)]
            return TUP(*ts)
        if c == "carray":
            return ARR(self.rng.choice([INT, INT, BOOL, FLOAT]), self.rng.choice([2, 3, 3]))
        if c == "qarray":
            return ARR(QUBIT, self.rng.choice([2, 3]))
        return c

    # ------------------------------------------------------------------ places
    def places(self, env, ty, mode):
        """Place strings of exactly type `ty`.  mode: 'read' (copyable), 'borrow', 'move'."""
        out = []
        for var in env.vars.values():
            if var.fn is not None:
                continue
            for path, t in self.subplaces(var.ty):
                if t != ty or not self.avail(var, path):
                    continue
                if mode == "read":
                    out.append((var, path))
                    continue
                if self.is_used(var.name, path):
                    continue
                if mode == "move" and ((var.borrowed and path == ()) or var.readonly):
                    continue
                out.append((var, path))
        return out

    def atoms(self, env, ty):
        """Readable expressions of copyable type `ty` (variables, fields, tuple items, array items)."""
        out = []
        if self.kind(ty) != 0:
            return out
        for var in env.vars.values():
            if var.fn is not None:
                continue
            for path, t in self.subplaces(var.ty):
                if not self.avail(var, path):
                    continue
                p = self.pstr(var.name, path)
                if t == ty:
                    out.append((p, ("field_after_move" if var.moved else "field") if path else "var"))
                elif t[0] == "tuple" and self.kind(t) == 0:
                    for i, ct in enumerate(t[1]):
                        if ct == ty:
                            out.append((f"{p}[{i}]", "tuple_index"))
                elif t[0] == "array" and t[1] == ty and not self.is_used(var.name, path):
                    out.append((f"{p}[{self.rng.randrange(t[2])}]", "array_index"))
        return out

    def pick_atom(self, env, ty):
        at = self.atoms(env, ty)
        if not at:
            raise GenFail
        s, how = self.rng.choice(at)
        if how == "field":
            self.feat("struct_field_read")
        elif how == "field_after_move":
            self.feat("struct_field_read", "struct_field_after_move")
        elif how == "tuple_index":
            self.feat("tuple_index")
        elif how == "array_index":
            self.feat("array_index")
        return s

    def qubit_borrow_places(self, env):
        """strings of qubit places that can be borrowed now (incl. qubit array elements)."""
        out = [(self.pstr(v.name, p), v, p) for v, p in self.places(env, QUBIT, "borrow")]
        for var in env.vars.values():
            for path, t in self.subplaces(var.ty):
                if t[0] == "array" and t[1] == QUBIT and self.avail(var, path) and not self.is_used(var.name, path):
                    out.append((f"{self.pstr(var.name, path)}[{self.rng.randrange(t[2])}]", var, path))
        return out

    def borrow_place(self, env, ty):
        if ty == QUBIT:
            c = self.qubit_borrow_places(env)
            if not c:
                raise GenFail
            s, var, path = self.rng.choice(c)
            if "[" in s:
                self.feat("qarray_gate")
        else:
            c = self.places(env, ty, "borrow")
            if not c:
                raise GenFail
            var, path = self.rng.choice(c)
            s = self.pstr(var.name, path)
        self.fc.used.append((var.name, path))
        if self.kind(ty) == 2:
            self.fc.borrowed_any = True
        return s

    def move_place(self, env, ty):
        c = self.places(env, ty, "move")
        if not c:
            raise GenFail
        var, path = self.rng.choice(c)
        self.mark_moved(var, path)
        if var.borrowed:
            self.feat("borrowed_field_consume")
        return self.pstr(var.name, path)

    # ------------------------------------------------------------------ expressions
    def expr(self, env, ty, d=0, pure=False):
        k = ty[0]
        if k == "int":
            return self.e_int(env, d, pure)
        if k == "bool":
            return self.e_bool(env, d, pure)
        if k == "float":
            return self.e_float(env, d, pure)
        if k == "qubit":
            return self.e_noncopy(env, ty, d, pure)
        if k in ("tuple", "struct", "array"):
            if self.kind(ty) == 0:
                return self.e_copy_compound(env, ty, d, pure)
            return self.e_noncopy(env, ty, d, pure)
        if k == "option":
            return self.e_option(env, ty, d, pure)
        if k == "fn":
            return self.e_fn(env, ty)
        raise AssertionError(ty)

    def try_opts(self, opts):
        for f in self.wshuffle(opts):
            try:
                return f()
            except GenFail:
                continue
        raise GenFail

    def lit_int(self):
        return str(self.rng.choice([0, 1, 1, 2, 2, 3, 4, 5, 7, 10]))

    def e_int(self, env, d, pure):
        rng = self.rng

        def lit():
            return self.lit_int()

        def atom():
            return self.pick_atom(env, INT)

        def binop():
            op = rng.choice(["+", "+", "-", "-", "*", "*", "//", "%", "&", "|", "^", "<<", ">>"])
            a = self.e_int(env, d + 1, pure)
            b = self.e_int(env, d + 1, pure)
            self.feat("arith_int")
            return f"({a} {op} {b})"

        def neg():
            self.feat("arith_int")
            return f"(-{self.e_int(env, d + 1, pure)})"

        def ifexp():
            c = self.e_bool(env, d + 1, pure)
            a = self.e_int(env, d + 1, True)
            b = self.e_int(env, d + 1, True)
            self.feat("ifexp")
            return f"({a} if {c} else {b})"

        def cast():
            self.feat("cast")
            if rng.random() < 0.5:
                return f"int({self.e_float(env, d + 1, pure)})"
            return f"int({self.e_bool(env, d + 1, pure)})"

        def call():
            return self.e_call(env, INT, d, pure)

        def alen():
            c = [(v, p) for v in env.vars.values() if v.fn is None for p, t in self.subplaces(v.ty)
                 if t[0] == "array" and self.avail(v, p) and not self.is_used(v.name, p)]
            if not c:
                raise GenFail
            v, p = rng.choice(c)
            self.feat("array_len")
            self.fc.used.append((v.name, p))
            self.fc.borrowed_any = True
            return f"len({self.pstr(v.name, p)})"

        def dyn():
            c = [(v, p, t) for v in env.vars.values() if v.fn is None for p, t in self.subplaces(v.ty)
                 if t[0] == "array" and t[1] == INT and self.avail(v, p) and not self.is_used(v.name, p)]
            if not c:
                raise GenFail
            v, p, t = rng.choice(c)
            i = self.e_int(env, d + 1, True)
            self.feat("array_dyn_index", "array_index")
            return f"{self.pstr(v.name, p)}[{i} % {t[2]}]"

        def comptime():
            self.feat("comptime_expr")
            return f"comptime({rng.randrange(5)} + {rng.randrange(5)})"

        def walrus():
            n = self.fresh("w")
            e = self.e_int(env, d + 1, True)
            self.feat("walrus")
            return f"(({n} := {e}) + {n})"

        if d >= self.MAXD:
            return self.try_opts([(2, lit), (5, atom)])
        return self.try_opts([(2, lit), (6, atom), (5, binop), (0.7, neg), (0.8, ifexp), (0.7, cast), (2.5, call),
                              (0.5, alen), (1.0, dyn), (0.3, comptime), (0.15 if not pure else 0, walrus)])

    def e_float(self, env, d, pure):
        rng = self.rng

        def lit():
            return rng.choice(["0.5", "1.0", "1.5", "2.0", "2.5", "3.25"])

        def atom():
            return self.pick_atom(env, FLOAT)

        def binop():
            op = rng.choice(["+", "-", "*", "/"])
            a = self.e_float(env, d + 1, pure)
            b = self.e_float(env, d + 1, pure)
            self.feat("arith_float")
            return f"({a} {op} {b})"

        def mixed():
            a = self.e_float(env, d + 1, pure)
            b = self.e_int(env, d + 1, pure)
            self.feat("arith_float")
            return f"({a} {rng.choice(['+', '-', '*'])} {b})"

        def div():
            a = self.e_int(env, d + 1, pure)
            b = self.e_int(env, d + 1, pure)
            self.feat("arith_float")
            return f"({a} / {b})"

        def cast():
            self.feat("cast")
            return f"float({self.e_int(env, d + 1, pure)})"

        def neg():
            self.feat("arith_float")
            return f"(-{self.e_float(env, d + 1, pure)})"

        def ifexp():
            c = self.e_bool(env, d + 1, pure)
            a = self.e_float(env, d + 1, True)
            b = self.e_float(env, d + 1, True)
            self.feat("ifexp")
            return f"({a} if {c} else {b})"

        def call():
            return self.e_call(env, FLOAT, d, pure)

        if d >= self.MAXD:
            return self.try_opts([(2, lit), (5, atom)])
        return self.try_opts([(3, lit), (6, atom), (4, binop), (1, mixed), (1, div), (1, cast), (0.5, neg),
                              (0.6, ifexp), (2, call)])

    def e_bool(self, env, d, pure):
        rng = self.rng

        def lit():
            return rng.choice(["True", "False"])

        def atom():
            return self.pick_atom(env, BOOL)

        def cmp_():
            op = rng.choice(["<", "<=", ">", ">=", "==", "!="])
            self.feat("compare")
            if rng.random() < 0.75:
                chained = rng.random() < 0.1
                a = self.e_int(env, d + 1, pure)
                # `a < b < c`: c is evaluated conditionally and (known finding D9) b twice -> no moves there
                b = self.e_int(env, d + 1, pure or chained)
                if chained:
                    c = self.e_int(env, d + 1, True)
                    self.feat("chained_cmp")
                    return f"({a} {op} {b} {rng.choice(['<', '<=', '>'])} {c})"
            else:
                a = self.e_float(env, d + 1, pure)
                b = self.e_float(env, d + 1, pure)
            return f"({a} {op} {b})"

        def boolop():
            op = rng.choice(["and", "or"])
            a = self.e_bool(env, d + 1, pure)
            b = self.e_bool(env, d + 1, True)
            self.feat("bool_and" if op == "and" else "bool_or")
            if rng.random() < 0.2:
                c = self.e_bool(env, d + 1, True)
                return f"({a} {op} {b} {op} {c})"
            return f"({a} {op} {b})"

        def not_():
            self.feat("bool_not")
            return f"(not {self.e_bool(env, d + 1, pure)})"

        def beq():
            a = self.e_bool(env, d + 1, pure)
            b = self.e_bool(env, d + 1, pure)
            self.feat("compare")
            return f"({a} {rng.choice(['==', '!='])} {b})"

        def meas():
            if pure:
                raise GenFail
            p = self.move_place(env, QUBIT)
            self.feat("measure")
            return f"measure({p})"

        def opt():
            c = [a for a in self._option_atoms(env)]
            if not c:
                raise GenFail
            self.feat("option")
            return f"{rng.choice(c)}.{rng.choice(['is_some', 'is_nothing'])}()"

        def ifexp():
            c = self.e_bool(env, d + 1, pure)
            a = self.e_bool(env, d + 1, True)
            b = self.e_bool(env, d + 1, True)
            self.feat("ifexp")
            return f"({a} if {c} else {b})"

        def call():
            return self.e_call(env, BOOL, d, pure)

        if d >= self.MAXD:
            return self.try_opts([(1, lit), (5, atom), (1.5, meas)])
        return self.try_opts([(0.7, lit), (5, atom), (7, cmp_), (2.5, boolop), (1.2, not_), (0.5, beq), (2, meas),
                              (0.5, opt), (0.4, ifexp), (2, call)])

    def nonconst_cond(self, env, pure, d=0):
        """a condition that the compiler's constant branch folding does not decide (best effort)"""
        for _ in range(4):
            saved = env.clone()
            c = self.e_bool(env, d, pure)
            toks = c.replace("(", " ").replace(")", " ").split()
            if "True" not in toks and "False" not in toks:
                return c
            env.restore(saved)
        return f"({self.e_int(env, 1, True)} > {self.lit_int()})"

    def _option_atoms(self, env):
        out = []
        for var in env.vars.values():
            if var.fn is None and var.ty[0] == "option":
                out.append(var.name)
        return out

    def e_option(self, env, ty, d, pure):
        at = self.atoms(env, ty)
        self.feat("option")
        if at and self.chance(0.3):
            return self.rng.choice(at)[0]
        return f"some({self.expr(env, ty[1], d + 1, pure)})"

    def e_copy_compound(self, env, ty, d, pure):
        """copyable tuple / struct"""
        def atom():
            return self.pick_atom(env, ty)

        def build():
            return self.build(env, ty, d, pure)

        def call():
            return self.e_call(env, ty, d, pure)

        if d >= self.MAXD + 1:
            return self.try_opts([(3, atom), (1, build)])
        return self.try_opts([(3, atom), (4, build), (2, call)])

    def build(self, env, ty, d, pure):
        k = ty[0]
        if k == "tuple":
            parts = [self.expr(env, t, d + 1, pure) for t in ty[1]]
            self.feat("tuple_build")
            if any(t[0] == "tuple" for t in ty[1]):
                self.feat("tuple_nested")
            if self.kind(ty) == 2:
                self.feat("tuple_qubit")
            return "(" + ", ".join(parts) + ")"
        if k == "struct":
            parts = [self.expr(env, ft, d + 1, pure) for _f, ft in self.structs[ty[1]]]
            self.feat("struct_build")
            if any(ft[0] == "struct" for _f, ft in self.structs[ty[1]]):
                self.feat("struct_nested")
            if self.kind(ty) == 2:
                self.feat("struct_qubit_field")
            return f"{ty[1]}(" + ", ".join(parts) + ")"
        if k == "array":
            parts = [self.expr(env, ty[1], d + 1, pure) for _ in range(ty[2])]
            self.feat("qarray" if ty[1] == QUBIT else "array_lit")
            return "array(" + ", ".join(parts) + ")"
        if k == "qubit":
            self.feat("qubit_alloc")
            return "qubit()"
        raise AssertionError(ty)

    def e_noncopy(self, env, ty, d, pure):
        def mv():
            if pure:
                raise GenFail
            return self.move_place(env, ty)

        def build():
            return self.build(env, ty, d, pure)

        def call():
            return self.e_call(env, ty, d, pure)

        def cp():
            if ty[0] != "array" or self.kind(ty) != 1:
                raise GenFail
            c = self.places(env, ty, "borrow")
            if not c:
                raise GenFail
            v, p = self.rng.choice(c)
            self.feat("array_copy")
            return f"{self.pstr(v.name, p)}.copy()"

        if d >= self.MAXD + 1:
            return self.try_opts([(3, mv), (2, build)])
        return self.try_opts([(4, mv), (3, build), (2.5, call), (2.5, cp)])

    def e_fn(self, env, ty):
        c = []
        for h in self.fc.helpers:
            if h.generic is None and not any(p.comptime for p in h.params) and self.sig_ty(h) == ty:
                c.append(h.name)
        for var in env.vars.values():
            if var.fn is not None and var.ty == ty:
                c.append(var.name)
        if not c:
            raise GenFail
        return self.rng.choice(c)

    def sig_ty(self, h):
        # only first-class if every non-copyable param is owned? Guppy function types carry flags;
        # restrict to all-copyable params
        if any(self.kind(p.ty) != 0 for p in h.params):
            return None
        return FN([p.ty for p in h.params], h.ret)

    # ------------------------------------------------------------------ calls
    def instantiate(self, h, want, env):
        """Concrete parameter list of helper `h` for a call returning `want`, or None."""
        g = h.generic
        if g is None:
            return h.params if h.ret == want else None
        if want[0] in ("fn", "none"):
            return None
        if g == "ident":
            if self.kind(want) != 0:
                return None
            return [Param("x", want)]
        if g == "lident":
            return [Param("x", want, owned=True)]
        if g == "first":
            if want not in (INT, BOOL, FLOAT):
                return None
            sizes = [t[2] for v in env.vars.values() for _p, t in self.subplaces(v.ty) if t[0] == "array" and t[1] == want]
            n = self.rng.choice(sizes) if sizes else self.rng.choice([2, 3])
            return [Param("xs", ARR(want, n))]
        if g == "sumarr":
            if want != INT:
                return None
            sizes = [t[2] for v in env.vars.values() for _p, t in self.subplaces(v.ty) if t[0] == "array" and t[1] == INT]
            n = self.rng.choice(sizes) if sizes else self.rng.choice([2, 3, 4])
            return [Param("xs", ARR(INT, n))]
        if g == "pair":
            if want[0] != "tuple" or len(want[1]) != 2 or self.kind(want) != 0:
                return None
            return [Param("x", want[1][1]), Param("y", want[1][0])]
        raise AssertionError(g)

    def callables(self, env, want):
        out = []
        for h in self.fc.helpers:
            ps = self.instantiate(h, want, env)
            if ps is not None:
                out.append((h, ps, h.name))
        sh = self.fc.self_helper
        if sh is not None and sh.ret == want:
            out.append((sh, sh.params, sh.name))
        for var in env.vars.values():
            if var.fn is not None and var.fn.ret == want:
                out.append((var.fn, var.fn.params, var.name))
        return out

    def e_call(self, env, want, d, pure):
        c = self.callables(env, want)
        self.rng.shuffle(c)
        for h, ps, name in c[:3]:
            try:
                return self.gen_call(env, h, ps, name, d, pure)
            except GenFail:
                continue
        raise GenFail

    def gen_call(self, env, h, ps, name, d, pure):
        """All failure checks happen before the environment is changed."""
        fc = self.fc
        is_self = h is fc.self_helper
        if is_self and (d > 1 or not self.chance(0.6)):
            raise GenFail
        args = [None] * len(ps)
        # 1. function-typed arguments
        for i, p in enumerate(ps):
            if p.ty[0] == "fn":
                args[i] = self.e_fn(env, p.ty)
        # 2. borrowed non-copyable arguments: reserve places (roll back `used` on failure)
        saved_used = list(fc.used)
        saved_b = fc.borrowed_any
        feats = list(self.feats)
        try:
            for i, p in enumerate(ps):
                k = self.kind(p.ty)
                if k > 0 and not p.owned:
                    if k == 1 and not self.places(env, p.ty, "borrow"):
                        continue  # affine rvalue is fine for a borrowed parameter
                    args[i] = self.borrow_place(env, p.ty)
        except GenFail:
            fc.used = saved_used
            fc.borrowed_any = saved_b
            self.feats = feats
            raise
        # 3. the rest, in evaluation order
        for i, p in enumerate(ps):
            if args[i] is not None:
                continue
            if p.comptime:
                args[i] = self.lit_int()
                self.feat("comptime_arg")
            elif is_self and i == 0:
                args[i] = f"({h.params[0].name} - 1)"
            else:
                k = self.kind(p.ty)
                args[i] = self.expr(env, p.ty, d + 1, pure if k == 0 or p.owned else True)
        # feature tags
        self.feat("helper_call")
        if is_self:
            self.feat("recursion")
        if h.generic:
            self.feat({"ident": "generic_copy", "lident": "generic_linear", "first": "generic_array",
                       "sumarr": "generic_array", "pair": "generic_pair"}[h.generic])
        for p in ps:
            k = self.kind(p.ty)
            if p.ty[0] == "fn":
                self.feat("higher_order")
            if p.ty[0] == "struct" and k > 0:
                self.feat("struct_owned_arg" if p.owned else "struct_borrow_arg")
            if p.ty[0] == "array":
                self.feat("array_owned_arg" if p.owned else "array_pass")
            if p.ty == QUBIT and not p.owned:
                self.feat("qubit_borrow_arg")
        if h.ret[0] == "struct":
            self.feat("struct_return")
        if h.ret[0] == "array":
            self.feat("array_return")
        if h.ret == QUBIT:
            self.feat("qubit_return")
        return f"{name}(" + ", ".join(args) + ")"

    # ------------------------------------------------------------------ consumption / fix-ups
    def consume(self, env, p, ty, out, pad):
        """Emit statements consuming the owned linear value at place expression `p`."""
        rng = self.rng
        if ty == QUBIT:
            c = rng.random()
            if c < 0.45:
                out.append(f"{pad}discard({p})")
                self.feat("discard")
            elif c < 0.6:
                out.append(f"{pad}measure({p})")
                self.feat("measure")
            else:
                n = self.fresh("b")
                out.append(f"{pad}{n} = measure({p})")
                env.add(Var(n, BOOL))
                self.feat("measure")
        elif ty[0] == "array":
            if rng.random() < 0.5:
                out.append(f"{pad}discard_array({p})")
                self.feat("discard_array")
            else:
                n = self.fresh("bs")
                out.append(f"{pad}{n} = measure_array({p})")
                env.add(Var(n, ARR(BOOL, ty[2])))
                self.feat("measure_array")
        elif ty[0] == "tuple":
            names = [self.fresh("u") for _ in ty[1]]
            out.append(f"{pad}{', '.join(names)} = {p}")
            self.feat("tuple_unpack")
            for n, ct in zip(names, ty[1]):
                if self.kind(ct) == 2:
                    self.consume(env, n, ct, out, pad)
                else:
                    env.add(Var(n, ct))
        elif ty[0] == "struct":
            for lp, lt in self.leaves(ty):
                if self.kind(lt) == 2:
                    self.consume(env, p + "".join("." + f for f in lp), lt, out, pad)
        else:
            raise AssertionError(ty)

    def whole_consumers(self, ty):
        out = []
        for h in self.fc.helpers:
            if h.generic is not None or self.kind(h.ret) != 0:
                continue
            nc = [p for p in h.params if self.kind(p.ty) > 0]
            if len(nc) == 1 and nc[0].ty == ty and nc[0].owned and not any(p.ty[0] == "fn" for p in h.params):
                out.append(h)
        return out

    def fixup(self, env, target, out, pad, where):
        """Bring `env` to ownership state `target` (name -> tuple of moved leaf paths; variables not
        in target are local: all their linear leaves get consumed)."""
        for name, var in list(env.vars.items()):
            if var.fn is not None:
                continue
            lv = self.leaves(var.ty)
            if not lv:
                continue
            tgt = target.get(name)
            want_moved = [lp for lp, _ in lv] if tgt is None else list(tgt)
            # whole-struct consumption through a helper taking it @owned
            if (var.ty[0] == "struct" and self.kind(var.ty) == 2 and not var.borrowed and not var.moved
                    and len(want_moved) == len(lv) and self.chance(0.8)):
                hs = self.whole_consumers(var.ty)
                if hs:
                    h = self.rng.choice(hs)
                    self.begin_stmt()
                    args = []
                    for p in h.params:
                        if p.ty == var.ty:
                            args.append(name)
                        elif p.comptime:
                            args.append(self.lit_int())
                        else:
                            args.append(self.expr(env, p.ty, 1, True))
                    call = f"{h.name}(" + ", ".join(args) + ")"
                    if h.ret != NONE and self.chance(0.5):
                        n = self.fresh()
                        out.append(f"{pad}{n} = {call}")
                        env.add(Var(n, h.ret))
                    else:
                        out.append(f"{pad}{call}")
                    self.mark_moved(var, ())
                    self.feat("struct_whole_consume", "struct_owned_arg", "helper_call", where + "_fixup_consume")
                    continue
            for lp, lt in lv:
                cur = lp in var.moved
                want = lp in want_moved
                if not cur and want:
                    if self.kind(lt) == 2:
                        self.begin_stmt()
                        self.consume(env, self.pstr(name, lp), lt, out, pad)
                        self.feat(where + "_fixup_consume")
                    elif tgt is not None:
                        self.feat("affine_moved_in_branch")
                    var.moved.append(lp)
                elif cur and not want:
                    self.begin_stmt()
                    e = self.expr(env, lt, 1, True)
                    out.append(f"{pad}{self.pstr(name, lp)} = {e}")
                    var.moved.remove(lp)
                    self.feat(where + "_fixup_refill")
                    if lp and lt == QUBIT:
                        self.feat("struct_qfield_reassign")
                    elif lt == QUBIT:
                        self.feat("qubit_realloc")

    @staticmethod
    def snapshot(env):
        return {n: tuple(v.moved) for n, v in env.vars.items()}

    def gen_return(self, env, out, pad, final=False):
        fc = self.fc
        target = {}
        for n, v in env.vars.items():
            target[n] = () if v.borrowed else tuple(lp for lp, _ in self.leaves(v.ty))
        if any(self.kind(lt) == 1 and lp not in v.moved for v in env.vars.values() if v.fn is None and not v.borrowed
               for lp, lt in self.leaves(v.ty)):
            self.feat("affine_drop")
        if fc.ret == NONE:
            self.fixup(env, target, out, pad, "return")
            if not final or self.chance(0.3):
                out.append(f"{pad}return")
            elif not out:
                out.append(f"{pad}pass")
            return
        self.begin_stmt()
        e = self.expr(env, fc.ret, 0, False)
        if fc.borrowed_any or fc.moved_borrowed_var or self.chance(0.3):
            r = self.fresh("r")
            out.append(f"{pad}{r} = {e}")
            self.fixup(env, target, out, pad, "return")
            out.append(f"{pad}return {r}")
        else:
            self.fixup(env, target, out, pad, "return")
            out.append(f"{pad}return {e}")

    # ------------------------------------------------------------------ blocks and statements
    def block(self, env, n, ind, d, extras=(), pterm=0.0):
        out = []
        pad = "    " * ind
        slots = sorted(self.rng.randrange(n + 1) for _ in extras)
        extras = list(extras)
        for i in range(n + 1):
            while slots and slots[0] == i:
                slots.pop(0)
                self.begin_stmt()
                extras.pop(0)(env, out, pad)
            if i == n:
                break
            if self.stmt(env, out, ind, d):
                return out, True
        if pterm and self.chance(pterm):
            kinds = []
            fc = self.fc
            if fc.loops and not fc.loops[-1].no_exit:
                kinds += ["break", "continue", "continue"]
            if not any(l.no_exit for l in fc.loops):
                kinds += ["return", "return"]
            if kinds:
                k = self.rng.choice(kinds)
                if k == "return":
                    self.gen_return(env, out, pad)
                    self.feat("early_return")
                    if fc.loops:
                        self.feat("return_in_loop")
                else:
                    self.fixup(env, fc.loops[-1].head, out, pad, "loop")
                    out.append(pad + k)
                    self.feat(k)
                if self.chance(0.1):
                    # unreachable classical statement after the terminator
                    self.begin_stmt()
                    out.append(f"{pad}{self.fresh()} = {self.e_int(env, 1, True)}")
                    self.feat("dead_code")
                return out, True
        if not out:
            out.append(pad + "pass")
        return out, False

    def stmt(self, env, out, ind, d):
        fc = self.fc
        deep = d >= 2 + (self.size > 3)
        opts = [
            (6, self.s_let), (3, self.s_reassign), (2.0, self.s_qalloc), (3.5, self.s_gate1), (2.5, self.s_gate2),
            (2, self.s_measure), (1.0, self.s_discard), (3, self.s_refill), (2.5, self.s_unpack),
            (0 if deep else 5.5, self.s_if), (0 if deep else 2.2, self.s_while), (0 if deep else 2.2, self.s_for),
            (0 if deep else 0.8, self.s_for_array), (3.5, self.s_call), (0 if fc.nest or deep else 1.2, self.s_nested_def),
            (1.5, self.s_array_set), (0.8, self.s_drop), (0.3, self.s_pass), (0.6, self.s_multi_assign),
            (1.2, self.s_struct_let), (1.0, self.s_array_let), (0.8, self.s_array_copy), (0.8, self.s_retype),
            (0.0 if fc.nest else 0.6, self.s_fn_value),
        ]
        for f in self.wshuffle(opts)[:10]:
            saved = env.clone()
            feats = list(self.feats)
            nloops = len(fc.loops)
            tmp = []
            try:
                self.begin_stmt()
                term = f(env, tmp, ind, d)
                out.extend(tmp)
                return bool(term)
            except GenFail:
                env.restore(saved)
                self.feats = feats
                del fc.loops[nloops:]
        out.append("    " * ind + "pass")
        return False

    def s_pass(self, env, out, ind, d):
        out.append("    " * ind + "pass")

    def _let(self, env, out, ind, ty):
        pad = "    " * ind
        name = self.fresh("q" if ty == QUBIT else "v")
        if ty[0] == "option" and self.chance(0.3):
            out.append(f"{pad}{name}: {self.ty_str(ty)} = nothing()")
            self.feat("option")
        else:
            e = self.expr(env, ty, 0, False)
            if ty in (INT, BOOL, FLOAT) and self.chance(0.15):
                out.append(f"{pad}{name}: {self.ty_str(ty)} = {e}")
                self.feat("annotated_assign")
            else:
                out.append(f"{pad}{name} = {e}")
        env.add(Var(name, ty))
        return name

    def s_let(self, env, out, ind, d):
        self._let(env, out, ind, self.rand_ty())

    def s_struct_let(self, env, out, ind, d):
        if not self.structs:
            raise GenFail
        names = list(self.structs)
        self._let(env, out, ind, STRUCT(self.rng.choice(names)))

    def s_array_let(self, env, out, ind, d):
        if self.chance(0.4):
            self._let(env, out, ind, ARR(QUBIT, self.rng.choice([2, 3])))
        else:
            self._let(env, out, ind, ARR(self.rng.choice([INT, INT, BOOL, FLOAT]), self.rng.choice([2, 3])))

    def s_reassign(self, env, out, ind, d):
        c = [v for v in env.vars.values() if v.fn is None and not v.readonly and self.kind(v.ty) == 0]
        if not c:
            raise GenFail
        v = self.rng.choice(c)
        pad = "    " * ind
        if v.ty in (INT, FLOAT) and self.chance(0.5):
            op = self.rng.choice(["+=", "-=", "*="])
            out.append(f"{pad}{v.name} {op} {self.expr(env, v.ty, 1, False)}")
            self.feat("aug_assign")
        else:
            out.append(f"{pad}{v.name} = {self.expr(env, v.ty, 0, False)}")

    def s_multi_assign(self, env, out, ind, d):
        c = [v for v in env.vars.values() if v.fn is None and not v.readonly and v.ty in (INT, BOOL, FLOAT)]
        self.rng.shuffle(c)
        for i, a in enumerate(c):
            for b in c[i + 1:]:
                if a.ty == b.ty:
                    out.append(f"{'    ' * ind}{a.name}, {b.name} = {b.name}, {self.expr(env, a.ty, 1, True)}")
                    self.feat("multi_assign")
                    return
        raise GenFail

    def s_qalloc(self, env, out, ind, d):
        self._let(env, out, ind, QUBIT)

    def s_gate1(self, env, out, ind, d):
        p = self.borrow_place(env, QUBIT)
        out.append(f"{'    ' * ind}{self.rng.choice(['h', 'x', 'z', 'h', 's', 't'])}({p})")
        self.feat("gate1")
        self._across(env, p)

    def _across(self, env, p):
        """tag uses of outer linear values inside loops"""
        fc = self.fc
        root = p.split(".")[0].split("[")[0]
        if fc.loops and root in fc.loops[-1].head:
            self.feat("linear_across_loop")
            if env.vars[root].ty[0] == "struct":
                self.feat("struct_across_loop")

    def s_gate2(self, env, out, ind, d):
        pad = "    " * ind
        # two elements of the same qubit array
        arrs = [(v, p, t) for v in env.vars.values() for p, t in self.subplaces(v.ty)
                if t[0] == "array" and t[1] == QUBIT and self.avail(v, p)]
        if arrs and self.chance(0.3):
            v, p, t = self.rng.choice(arrs)
            i, j = self.rng.sample(range(t[2]), 2)
            s = self.pstr(v.name, p)
            out.append(f"{pad}{self.rng.choice(['cx', 'cz'])}({s}[{i}], {s}[{j}])")
            self.feat("gate2", "qarray_gate")
            self._across(env, s)
            return
        a = self.borrow_place(env, QUBIT)
        b = self.borrow_place(env, QUBIT)
        out.append(f"{pad}{self.rng.choice(['cx', 'cx', 'cz'])}({a}, {b})")
        self.feat("gate2")
        self._across(env, a)

    def s_measure(self, env, out, ind, d):
        p = self.move_place(env, QUBIT)
        n = self.fresh("b")
        out.append(f"{'    ' * ind}{n} = measure({p})")
        env.add(Var(n, BOOL))
        self.feat("measure")
        self._across(env, p)

    def s_discard(self, env, out, ind, d):
        p = self.move_place(env, QUBIT)
        out.append(f"{'    ' * ind}discard({p})")
        self.feat("discard")
        self._across(env, p)

    def s_refill(self, env, out, ind, d):
        c = []
        for v in env.vars.values():
            if v.fn is not None or v.readonly:
                continue
            lv = dict(self.leaves(v.ty))
            for lp in v.moved:
                c.append((v, lp, lv[lp]))
        if not c:
            raise GenFail
        v, lp, lt = self.rng.choice(c)
        e = self.expr(env, lt, 1, False)
        out.append(f"{'    ' * ind}{self.pstr(v.name, lp)} = {e}")
        v.moved.remove(lp)
        if lp and lt == QUBIT:
            self.feat("struct_qfield_reassign")
        elif lt == QUBIT:
            self.feat("qubit_realloc")
        self._across(env, v.name)

    def s_unpack(self, env, out, ind, d):
        c = []
        for v in env.vars.values():
            if v.fn is not None:
                continue
            for p, t in self.subplaces(v.ty):
                if t[0] != "tuple" or not self.avail(v, p):
                    continue
                if self.kind(t) > 0 and ((v.borrowed and p == ()) or v.readonly):
                    continue
                c.append((v, p, t))
        if not c:
            raise GenFail
        v, p, t = self.rng.choice(c)
        newvars = []

        def pat(ty, top):
            if ty[0] == "tuple" and (top or self.chance(0.5)):
                if not top:
                    self.feat("tuple_nested_unpack")
                inner = ", ".join(pat(ct, False) for ct in ty[1])
                return inner if top else f"({inner})"
            n = self.fresh("q" if ty == QUBIT else "v")
            newvars.append(Var(n, ty))
            return n

        lhs = pat(t, True)
        if self.kind(t) > 0:
            self.mark_moved(v, p)
        out.append(f"{'    ' * ind}{lhs} = {self.pstr(v.name, p)}")
        for nv in newvars:
            env.add(nv)
        self.feat("tuple_unpack")
        if self.kind(t) == 2:
            self.feat("tuple_qubit")

    def s_call(self, env, out, ind, d):
        fc = self.fc
        pad = "    " * ind
        hs = list(fc.helpers) + [v.fn for v in env.vars.values() if v.fn is not None]
        if fc.self_helper is not None:
            hs.append(fc.self_helper)
        if not hs:
            raise GenFail
        h = self.rng.choice(hs)
        if h.generic:
            want = {"ident": self.rand_classical, "lident": lambda: self.rand_ty(linear_w=3.0),
                    "first": lambda: self.rng.choice([INT, BOOL, FLOAT]), "sumarr": lambda: INT,
                    "pair": lambda: TUP(self.rand_classical(1), self.rand_classical(1))}[h.generic]()
        else:
            want = h.ret
        if want == NONE:
            c = [x for x in self.callables(env, NONE) if x[0] is h]
            if not c:
                raise GenFail
            _h, ps, name = c[0]
            self._prealloc(env, out, ind, ps)
            out.append(pad + self.gen_call(env, h, ps, name, 0, False))
            self.feat("none_return")
            return
        c = [x for x in self.callables(env, want) if x[0] is h]
        if not c:
            raise GenFail
        _h, ps, name = c[0]
        self._prealloc(env, out, ind, ps)
        call = self.gen_call(env, h, ps, name, 0, False)
        if self.kind(want) == 0 and self.chance(0.2):
            out.append(pad + call)
        else:
            n = self.fresh("q" if want == QUBIT else "v")
            out.append(f"{pad}{n} = {call}")
            env.add(Var(n, want))

    def _prealloc(self, env, out, ind, ps):
        """define fresh variables for borrowed linear parameters that have no place to borrow"""
        need = {}
        for p in ps:
            if self.kind(p.ty) == 2 and not p.owned:
                need[p.ty] = need.get(p.ty, 0) + 1
        for ty, cnt in need.items():
            have = len(self.qubit_borrow_places(env)) if ty == QUBIT else len(self.places(env, ty, "borrow"))
            for _ in range(max(0, cnt - have)):
                out.append(f"{'    ' * ind}{(n := self.fresh('q' if ty == QUBIT else 'v'))} = {self.build(env, ty, 1, True)}")
                env.add(Var(n, ty))
        self.begin_stmt()

    def s_array_copy(self, env, out, ind, d):
        c = [(v, p, t) for v in env.vars.values() if v.fn is None for p, t in self.subplaces(v.ty)
             if t[0] == "array" and self.kind(t) == 1 and self.avail(v, p)]
        if not c:
            raise GenFail
        v, p, t = self.rng.choice(c)
        n = self.fresh()
        out.append(f"{'    ' * ind}{n} = {self.pstr(v.name, p)}.copy()")
        env.add(Var(n, t))
        self.feat("array_copy")

    def s_retype(self, env, out, ind, d):
        """re-bind a variable at another type; only in straight-line top-level code of a function"""
        if d != 0 or self.fc.loops:
            raise GenFail
        c = [v for v in env.vars.values() if v.fn is None and not v.readonly and not v.borrowed
             and (self.kind(v.ty) == 0 or (RISKY and len(v.moved) == len(self.leaves(v.ty))))]
        if not c:
            raise GenFail
        sh = self.fc.self_helper
        c = [v for v in c if sh is None or v.name != sh.params[0].name]
        if not c:
            raise GenFail
        v = self.rng.choice(c)
        # NB (finding) re-binding a variable that is live into the current basic block at a different
        # type is falsely rejected by /repo when the old or the new type is non-copyable
        # (`i = 0; while i < a: i += 1` then `i = array(1, 2)` -> AlreadyUsedError;
        #  `if c: pass` then `b = measure(q); q = 3.25` -> PlaceNotUsedError); only done when RISKY
        ty = self.rand_ty() if RISKY else self.rand_classical()
        if ty == v.ty or ty[0] == "option":
            raise GenFail
        e = self.expr(env, ty, 0, False)
        out.append(f"{'    ' * ind}{v.name} = {e}")
        v.ty = ty
        v.moved = []
        self.feat("retype")

    def s_fn_value(self, env, out, ind, d):
        c = [h for h in self.fc.helpers if h.generic is None and self.sig_ty(h) is not None
             and not any(p.comptime or p.ty[0] == "fn" for p in h.params)]
        if not c:
            raise GenFail
        h = self.rng.choice(c)
        n = self.fresh("g")
        out.append(f"{'    ' * ind}{n} = {h.name}")
        inner = Helper(n, h.params, h.ret)
        env.add(Var(n, self.sig_ty(h), fn=inner))
        self.feat("fn_value")
        self.begin_stmt()
        call = self.gen_call(env, inner, inner.params, n, 0, False)
        if h.ret == NONE:
            out.append("    " * ind + call)
        else:
            r = self.fresh()
            out.append(f"{'    ' * ind}{r} = {call}")
            env.add(Var(r, h.ret))

    def s_array_set(self, env, out, ind, d):
        c = [(v, p, t) for v in env.vars.values() if v.fn is None and not v.readonly for p, t in self.subplaces(v.ty)
             if t[0] == "array" and self.kind(t) == 1 and self.avail(v, p)]
        if not c:
            raise GenFail
        v, p, t = self.rng.choice(c)
        self.fc.used.append((v.name, p))
        if self.chance(0.4):
            # NB (finding) IfExp / BoolOp / walrus / comptime() inside the index of a subscript
            # *assignment target* crash /repo's checker (InternalGuppyError); only generated when RISKY
            if RISKY:
                idx = f"{self.e_int(env, 1, True)} % {t[2]}"
            else:
                at = [a_ for a_, _how in self.atoms(env, INT) if "[" not in a_] or [self.lit_int()]
                idx = self.rng.choice(at)
                if self.chance(0.3):
                    idx = f"({idx} + {self.lit_int()})"
                idx = f"{idx} % {t[2]}"
            self.feat("array_dyn_index")
        else:
            idx = str(self.rng.randrange(t[2]))
        e = self.expr(env, t[1], 1, True)
        out.append(f"{'    ' * ind}{self.pstr(v.name, p)}[{idx}] = {e}")
        self.feat("array_set")
        self._across(env, v.name)

    def s_drop(self, env, out, ind, d):
        pad = "    " * ind
        n = self.fresh("unused")
        k = self.rng.randrange(3)
        cs = [s for s in self.structs if self.kind(STRUCT(s)) == 0]
        if k == 0 and cs:
            out.append(f"{pad}{n} = {self.build(env, STRUCT(self.rng.choice(cs)), 1, True)}")
            self.feat("unused_struct")
        elif k == 1:
            t = self.rng.choice([INT, BOOL, FLOAT])
            if self.chance(0.5):
                out.append(f"{pad}{n}: Option[{self.ty_str(t)}] = nothing()")
            else:
                out.append(f"{pad}{n} = some({self.expr(env, t, 1, True)})")
            self.feat("option", "option_unused")
        else:
            t = ARR(self.rng.choice([INT, BOOL, FLOAT]), self.rng.choice([2, 3, 4]))
            out.append(f"{pad}{n} = {self.build(env, t, 1, True)}")
            self.feat("unused_array", "affine_drop")

    # ---- compound statements
    def body_size(self, d):
        hi = max(1, self.size - d)
        return self.rng.randint(1, min(hi, 3))

    def s_if(self, env, out, ind, d):
        rng = self.rng
        pad = "    " * ind
        outer_names = list(env.vars)
        cond = self.e_bool(env, 0, False) if self.chance(0.1) else self.nonconst_cond(env, False)
        if "measure(" in cond:
            self.feat("measure_cond")
        nb = self.wchoice([(4, 1), (4, 2), (1.5, 3)])  # explicit branches; 1 = if only
        has_else = nb >= 2
        conds = [cond]
        # joint definition in every branch
        extras_for = []
        joint = None
        if has_else and self.chance(0.35):
            jt = self.rand_ty(1)
            joint = (self.fresh("j"), jt)
        branches = []  # (env, lines, terminated, header)
        nlive_linear_before = self._owned_linear(env)
        for i in range(nb):
            be = env.clone()
            if i == 0:
                header = f"{pad}if {cond}:"
            elif i == nb - 1:
                header = f"{pad}else:"
            else:
                self.begin_stmt()
                c = self.e_bool(be, 0, True)
                header = f"{pad}elif {c}:"
                self.feat("elif")
            extras = []
            if joint is not None:
                def mk(e_, o_, p_, joint=joint):
                    o_.append(f"{p_}{joint[0]} = {self.expr(e_, joint[1], 0, False)}")
                    e_.add(Var(joint[0], joint[1]))
                extras.append(mk)
            lines, term = self.block(be, self.body_size(d + 1), ind + 1, d + 1, extras, pterm=0.22)
            branches.append([be, lines, term, header])
        if not has_else:
            branches.append([env.clone(), [], False, f"{pad}else:"])
        live = [b for b in branches if not b[2]]
        self.feat("if")
        if has_else:
            self.feat("if_else")
        if d >= 1:
            self.feat("nested_if")
        if not live:
            for be, lines, _t, header in branches:
                out.append(header)
                out.extend(lines)
            return True
        chosen = rng.choice(live)[0]
        names = [n for n in chosen.vars if all(n in b[0].vars and b[0].vars[n].ty == chosen.vars[n].ty for b in live)]
        target = {}
        for n in names:
            v = chosen.vars[n]
            mv = list(v.moved)
            for lp, lt in self.leaves(v.ty):
                if self.kind(lt) == 1 and lp not in mv and any(lp in b[0].vars[n].moved for b in live):
                    mv.append(lp)
            target[n] = tuple(mv)
        for b in live:
            self.fixup(b[0], target, b[1], pad + "    ", "branch")
        for be, lines, _t, header in branches:
            if header.endswith("else:") and not lines and not has_else:
                continue
            out.append(header)
            out.extend(lines if lines else [pad + "    pass"])
        new = {}
        for n in names:
            v = chosen.vars[n]
            v.moved = list(target[n])
            new[n] = v
        if joint is not None and joint[0] in new:
            self.feat("joint_def")
            if self.kind(joint[1]) == 2:
                self.feat("joint_def_linear")
        if any(n not in outer_names and (joint is None or n != joint[0]) for n in names) and len(live) < len(branches):
            self.feat("one_path_var")
        if nlive_linear_before:
            self.feat("linear_across_if")
            if any(v.ty[0] == "tuple" and self.kind(v.ty) == 2 and not v.moved for v in new.values()):
                self.feat("tuple_across_branch")
        env.vars = new
        return False

    def _owned_linear(self, env):
        return sum(1 for v in env.vars.values() if v.fn is None for lp, lt in self.leaves(v.ty)
                   if self.kind(lt) == 2 and lp not in v.moved)

    def _loop_body(self, env, out, ind, d, body_env, extras, no_exit=False):
        fc = self.fc
        head = self.snapshot(env)
        if fc.loops:
            self.feat("nested_loop")
        fc.loops.append(Loop(head, no_exit))
        try:
            lines, term = self.block(body_env, self.body_size(d + 1), ind + 1, d + 1, extras, pterm=0.1)
            if not term:
                self.fixup(body_env, head, lines, "    " * (ind + 1), "loop")
        finally:
            fc.loops.pop()
        out.extend(lines)

    def s_while(self, env, out, ind, d):
        pad = "    " * ind
        mode = self.wchoice([(5, "counter"), (2, "flag"), (2, "expr"), (1, "true")])
        extras = []
        if mode == "counter":
            i = self.fresh("i")
            out.append(f"{pad}{i} = 0")
            env.add(Var(i, INT))
            self.begin_stmt()
            cond = f"{i} < {self.e_int(env, 1, True)}"
            extras.append(lambda e_, o_, p_: o_.append(f"{p_}{i} += 1"))
        elif mode == "flag":
            f = self.fresh("go")
            out.append(f"{pad}{f} = {self.e_bool(env, 1, False)}")
            env.add(Var(f, BOOL))
            self.begin_stmt()
            cond = f
            extras.append(lambda e_, o_, p_: o_.append(f"{p_}{f} = {self.e_bool(e_, 1, False)}"))
        elif mode == "expr":
            cond = self.nonconst_cond(env, True)
        else:
            cond = "True"
            self.feat("while_true")

            def brk(e_, o_, p_):
                c = self.nonconst_cond(e_, True, 1)
                o_.append(f"{p_}if {c}:")
                tmp = []
                self.fixup(e_.clone(), self.fc.loops[-1].head, tmp, p_ + "    ", "loop")
                # the fix-up above ran on a clone: the fall-through path keeps its state
                o_.extend(tmp)
                o_.append(f"{p_}    break")
                self.feat("break")
            extras.append(brk)
        out.append(f"{pad}while {cond}:")
        self._loop_body(env, out, ind, d, env.clone(), extras)
        self.feat("while")
        return False

    def s_for(self, env, out, ind, d):
        pad = "    " * ind
        i = self.fresh("i")
        if self.chance(0.25):
            rngs = f"range({self.e_int(env, 1, True)}, {self.e_int(env, 1, True)})"
            self.feat("for_range2")
        elif self.chance(0.5):
            rngs = f"range({self.rng.randint(1, 5)})"
        else:
            rngs = f"range({self.e_int(env, 1, True)})"
        out.append(f"{pad}for {i} in {rngs}:")
        be = env.clone()
        be.add(Var(i, INT))
        self._loop_body(env, out, ind, d, be, [])
        self.feat("for_range")
        return False

    def s_for_array(self, env, out, ind, d):
        pad = "    " * ind
        c = [(v, v.ty) for v in env.vars.values() if v.fn is None and not v.borrowed and not v.readonly
             and v.ty[0] == "array" and self.avail(v, ())]
        if c and self.chance(0.7):
            v, t = self.rng.choice(c)
            self.mark_moved(v, ())
            src = v.name
        else:
            t = ARR(self.rng.choice([INT, BOOL, QUBIT]), self.rng.choice([2, 3]))
            src = self.build(env, t, 1, True)
        x = self.fresh("q" if t[1] == QUBIT else "x")
        out.append(f"{pad}for {x} in {src}:")
        be = env.clone()
        be.add(Var(x, t[1]))
        self._loop_body(env, out, ind, d, be, [], no_exit=(t[1] == QUBIT))
        self.feat("for_array")
        if t[1] == QUBIT:
            self.feat("for_qarray")
        return False

    def s_nested_def(self, env, out, ind, d):
        rng = self.rng
        pad = "    " * ind
        name = self.fresh("f")
        nparams = rng.randint(1, 2)
        params = []
        for _ in range(nparams):
            params.append(Param(self.fresh("p"), rng.choice([INT, INT, BOOL, FLOAT])))
        if self.chance(0.25):
            params.append(Param(self.fresh("p"), QUBIT))
            self.feat("nested_fn_qubit")
        ret = rng.choice([INT, INT, BOOL, FLOAT, NONE])
        h = Helper(name, params, ret)
        captured = None
        if self.chance(0.6):
            captured = [v for v in env.vars.values()
                        if v.fn is None and not v.readonly and self.kind(v.ty) == 0 and v.ty[0] != "option"]
            if captured:
                self.need_experimental = True
                self.feat("closure")
            else:
                captured = None
        lines = self.gen_function(h, ind, rng.randint(1, 2), captured=captured, decorator=False, nest=self.fc.nest + 1)
        out.extend(lines)
        v = Var(name, FN([p.ty for p in params], ret) if all(self.kind(p.ty) == 0 for p in params) else ("fnq",), fn=h)
        env.add(v)
        self.feat("nested_fn")
        # make sure it is used at least once
        self.begin_stmt()
        call = self.gen_call(env, h, h.params, name, 0, False)
        if ret == NONE:
            out.append(pad + call)
        else:
            n = self.fresh()
            out.append(f"{pad}{n} = {call}")
            env.add(Var(n, ret))
        return False

    # ------------------------------------------------------------------ functions
    def gen_function(self, h, ind, nstmts, captured=None, decorator=True, nest=0):
        pad = "    " * ind
        env = Env()
        for v in captured or []:
            env.add(Var(v.name, v.ty, readonly=True))
        fn_params = []
        for p in h.params:
            k = self.kind(p.ty)
            if p.ty[0] == "fn":
                inner = Helper(p.name, [Param("_", t) for t in p.ty[1]], p.ty[2])
                env.add(Var(p.name, p.ty, readonly=True, fn=inner))
                fn_params.append(inner)
            else:
                env.add(Var(p.name, p.ty, borrowed=(k > 0 and not p.owned), readonly=p.comptime))
        saved_fc = self.fc
        helpers = saved_fc.helpers if saved_fc is not None and nest else self.helpers_so_far
        self.fc = FnCtx(h.ret, helpers, self_helper=h if h.recursive else None, nest=nest)
        try:
            ps = []
            for p in h.params:
                s = f"{p.name}: {self.ty_str(p.ty)}"
                if p.comptime:
                    s += " @comptime"
                elif p.owned and self.kind(p.ty) > 0:
                    s += " @owned"
                ps.append(s)
                if p.ty == QUBIT:
                    self.feat("qubit_param")
            lines = []
            if decorator:
                lines.append(f"{pad}@guppy")
            lines.append(f"{pad}def {h.name}({', '.join(ps)}) -> {self.ty_str(h.ret)}:")
            body = []
            if h.recursive:
                body.append(f"{pad}    if {h.params[0].name} <= 0:")
                self.gen_return(env.clone(), body, pad + "        ")
            extras = []
            for inner in fn_params:
                def use_fn(e_, o_, p_, inner=inner):
                    call = self.gen_call(e_, inner, inner.params, inner.name, 0, False)
                    n_ = self.fresh()
                    o_.append(f"{p_}{n_} = {call}")
                    e_.add(Var(n_, inner.ret))
                extras.append(use_fn)
            blk, term = self.block(env, nstmts, ind + 1, 0, extras)
            if blk == [pad + "    pass"]:
                blk = []
            body.extend(blk)
            if not term:
                self.gen_return(env, body, pad + "    ", final=True)
            lines.extend(body)
            return lines
        finally:
            self.fc = saved_fc

    def rand_params(self, lo, hi, linear_w=1.0):
        ps = []
        for _ in range(self.rng.randint(lo, hi)):
            t = self.rand_ty(0, linear_w)
            ps.append(Param(self.fresh("a"), t, owned=self.kind(t) > 0 and self.chance(0.55)))
        return ps

    def gen_structs(self):
        rng = self.rng
        n = self.wchoice([(1.5, 0), (3, 1), (3, 2), (1.5, 3)])
        src = []
        for i in range(n):
            name = f"S{i}"
            nf = rng.randint(1, 3)
            fields = []
            want_q = self.chance(0.6)
            for j in range(nf):
                opts = [(4, INT), (2, BOOL), (1.5, FLOAT), (4 if want_q else 0.0, QUBIT), (0.7, TUP(INT, BOOL))]
                if want_q:
                    opts.append((0.5, TUP(INT, QUBIT)))
                for prev in self.structs:
                    opts.append((1.5, STRUCT(prev)))
                fields.append((f"f{j}", self.wchoice(opts)))
            self.structs[name] = fields
            src.append("@guppy.struct")
            src.append(f"class {name}:")
            for f, t in fields:
                src.append(f"    {f}: {self.ty_str(t)}")
            src.append("")
        return src

    def gen_helpers(self):
        rng = self.rng
        src = []
        self.helpers_so_far = []
        n = self.wchoice([(1, 0), (3, 1), (4, 2), (3, 3)])
        kinds = []
        for _ in range(n):
            kinds.append(self.wchoice([(7, "plain"), (3, "rec"), (1.5, "arr"), (1, "ident"), (1.2, "lident"), (1, "first"), (1, "sumarr"),
                                       (0.8, "pair"), (1.5, "comptime"), (1.5, "app"), (4.0, "struct")]))
        for kd in kinds:
            name = self.fresh("h")
            if kd == "ident":
                self._decl('T = guppy.type_var("T")')
                src += ["@guppy", f"def {name}(x: T) -> T:", "    return x", ""]
                self.helpers_so_far.append(Helper(name, [], NONE, generic="ident"))
            elif kd == "lident":
                self._decl('L = guppy.type_var("L", copyable=False, droppable=False)')
                src += ["@guppy", f"def {name}(x: L @owned) -> L:", "    return x", ""]
                self.helpers_so_far.append(Helper(name, [], NONE, generic="lident"))
            elif kd == "first":
                self._decl('T = guppy.type_var("T")')
                self._decl('n = guppy.nat_var("n")')
                src += ["@guppy", f"def {name}(xs: array[T, n]) -> T:", f"    return xs[{rng.choice([0, 0, 1])}]", ""]
                self.helpers_so_far.append(Helper(name, [], NONE, generic="first"))
            elif kd == "sumarr":
                self._decl('n = guppy.nat_var("n")')
                src += ["@guppy", f"def {name}(xs: array[int, n]) -> int:", "    s = 0", "    for i in range(n):",
                        "        s += xs[i]", "    return s", ""]
                self.helpers_so_far.append(Helper(name, [], NONE, generic="sumarr"))
            elif kd == "pair":
                self._decl('T = guppy.type_var("T")')
                self._decl('U = guppy.type_var("U")')
                src += ["@guppy", f"def {name}(x: T, y: U) -> tuple[U, T]:", "    return (y, x)", ""]
                self.helpers_so_far.append(Helper(name, [], NONE, generic="pair"))
            elif kd == "app":
                # a first-order int -> int function to pass around, then the higher-order helper
                g = Helper(self.fresh("h"), [Param(self.fresh("a"), INT)], INT)
                src += self.gen_function(g, 0, rng.randint(1, 2)) + [""]
                self.helpers_so_far.append(g)
                f = self.fresh("fn")
                h = Helper(name, [Param(f, FN([INT], INT)), Param(self.fresh("a"), INT)], INT)
                # body: generated like any other; the function parameter is a local callable
                src += self.gen_function(h, 0, rng.randint(0, 2)) + [""]
                self.feat("higher_order")
                self.helpers_so_far.append(h)
            else:
                if kd == "comptime":
                    ps = [Param(self.fresh("k"), INT, comptime=True)] + self.rand_params(0, 2)
                    ret = self.wchoice([(3, INT), (1, BOOL), (1, self.rand_ty(0))])
                elif kd == "rec":
                    ps = [Param(self.fresh("n"), INT)] + self.rand_params(0, 2, linear_w=0.7)
                    ret = self.wchoice([(3, INT), (1, BOOL), (1, NONE), (1, self.rand_ty(0, 0.5))])
                elif kd == "arr":
                    at = ARR(rng.choice([INT, INT, BOOL, FLOAT]), rng.choice([2, 3]))
                    ps = self.rand_params(0, 1, linear_w=0.5)
                    ps.insert(rng.randint(0, len(ps)), Param(self.fresh("xs"), at, owned=self.chance(0.5)))
                    ret = self.wchoice([(3, at), (2, INT), (1, NONE)])
                elif kd == "struct" and self.structs:
                    st = STRUCT(rng.choice(list(self.structs)))
                    if self.chance(0.35):
                        ps = self.rand_params(0, 2, linear_w=0.5)
                        ret = st
                    else:
                        ps = self.rand_params(0, 1, linear_w=0.5)
                        ps.insert(rng.randint(0, len(ps)), Param(self.fresh("s"), st, owned=self.chance(0.5)))
                        ret = self.wchoice([(3, INT), (2, BOOL), (1, NONE), (1, st)])
                else:
                    ps = self.rand_params(1, 3)
                    ret = self.wchoice([(3, INT), (2, BOOL), (1, FLOAT), (1.5, NONE), (3, self.rand_ty(0))])
                h = Helper(name, ps, ret, recursive=(kd == "rec"))
                src += self.gen_function(h, 0, rng.randint(1, max(2, self.size - 1))) + [""]
                self.helpers_so_far.append(h)
        return src

    def _decl(self, s):
        if s not in self.decls:
            self.decls.append(s)

    def gen_main(self):
        rng = self.rng
        ps = [Param("a", INT)]
        if self.chance(0.7):
            ps.append(Param("b", BOOL))
        if self.chance(0.3):
            ps.append(Param("c", FLOAT))
        if self.chance(0.5):
            ps.append(Param("q", QUBIT, owned=self.chance(0.8)))
        if self.chance(0.35):
            t = self.rand_ty(0, 2.0)
            ps.append(Param("e", t, owned=self.kind(t) > 0 and self.chance(0.8)))
        ret = self.wchoice([(4, INT), (2, BOOL), (1, FLOAT), (1.5, NONE), (4, self.rand_ty(0, 1.5))])
        h = Helper("main", ps, ret)
        n = rng.randint(self.size + 1, 2 * self.size + 1)
        return self.gen_function(h, 0, n)

    def program(self):
        structs = self.gen_structs()
        helpers = self.gen_helpers()
        main = self.gen_main()
        body = "\n".join(structs + helpers + main) + "\n"
        head = []
        if "qubit" in body or "measure" in body or "discard" in body:
            head.append("from guppylang.std.quantum import qubit, h, x, z, s, t, cx, cz, measure, discard, "
                        "measure_array, discard_array")
        if "Option[" in body or "some(" in body or "nothing(" in body:
            head.append("from guppylang.std.option import Option, nothing, some")
        if "Callable[" in body:
            head.append("from collections.abc import Callable")
        if self.need_experimental:
            head.append("import guppylang")
            head.append("guppylang.enable_experimental_features()")
        head.extend(self.decls)
        return "\n".join(head) + "\n\n" + body


def gen_program(rng: random.Random, size: int = 3) -> dict:
    """returns {"src": source text defining structs/helpers and an entry function `main`,
    "features": sorted list of feature tags used}"""
    g = Gen(rng, size)
    src = g.program()
    return {"src": src, "features": sorted(g.feats)}


# --------------------------------------------------------------------------- self test
def _selftest(n: int, size: int, verbose: bool = True) -> dict:
    import collections
    import sys
    import time
    import traceback

    sys.path.insert(0, "/verif/harness")
    sys.path.insert(0, "/verif/harness/props")
    import feed
    import c01_validate as V
    from guppylang_internals.error import GuppyError

    feed.unload(feed.load("@guppy\ndef main() -> None:\n    pass\n"))  # warm-up imports
    acc = 0
    hist = collections.Counter()
    gen_hist = collections.Counter()
    errs = collections.Counter()
    rejected = []
    complaints = []
    internal = []
    t_lower = 0.0
    t_gen = 0.0
    for s in range(n):
        t0 = time.time()
        p = gen_program(random.Random(s), size)
        t_gen += time.time() - t0
        gen_hist.update(p["features"])
        m = None
        t0 = time.time()
        try:
            m = feed.load(p["src"])
            g = feed.lower(m.main)
        except GuppyError as e:
            t_lower += time.time() - t0
            ec = feed.err_class(e)
            errs[ec] += 1
            rejected.append((s, ec, e, p["src"]))
            continue
        except BaseException as e:  # noqa: BLE001
            t_lower += time.time() - t0
            internal.append((s, f"{type(e).__name__}: {e}", traceback.format_exc(limit=-4), p["src"]))
            continue
        finally:
            if m is not None:
                feed.unload(m)
        t_lower += time.time() - t0
        acc += 1
        hist.update(p["features"])
        cs = [c for c in V.validate(g.hugr) if c[0] != "nonlocal"]
        if cs:
            complaints.append((s, cs, p["src"]))
    res = {"n": n, "accepted": acc, "hist": hist, "errs": errs, "complaints": complaints, "internal": internal,
           "rejected": rejected, "t_lower": t_lower / max(1, n), "t_gen": t_gen / max(1, n)}
    if verbose:
        print(f"programs: {n}  accepted: {acc} ({100.0 * acc / max(1, n):.1f}%)  "
              f"mean lower+validate-free time: {res['t_lower']:.3f}s  mean gen time: {res['t_gen']:.4f}s")
        print("feature histogram over accepted programs (generated count in brackets):")
        for f in FEATURES:
            print(f"  {f:28s} {hist.get(f, 0):4d}  [{gen_hist.get(f, 0)}]")
        unknown = sorted(set(gen_hist) - set(FEATURES))
        if unknown:
            print("  tags not listed in FEATURES:", unknown)
        missing = [f for f in FEATURES if hist.get(f, 0) < 3]
        print("features in < 3 accepted programs:", missing)
        print("GuppyError classes among rejected programs:")
        for k, v in errs.most_common():
            print(f"  {k:36s} {v}")
        print(f"validator complaints: {len(complaints)}")
        for s, cs, src in complaints:
            print(f"--- seed {s}: {cs[:6]}")
            print(src)
        print(f"internal (non-GuppyError) exceptions: {len(internal)}")
        for s, msg, tb, src in internal:
            print(f"--- seed {s}: {msg}")
            print(tb)
            print(src)
    return res


if __name__ == "__main__":
    import sys as _sys

    _n = int(_sys.argv[1]) if len(_sys.argv) > 1 else 300
    _size = int(_sys.argv[2]) if len(_sys.argv) > 2 else 3
    _selftest(_n, _size)
