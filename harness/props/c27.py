"""C27 — Stack and PriorityQueue follow their reference models.

Tie (T-exec): the REAL method bodies of `Stack` / `PriorityQueue` (Guppy source that is also valid
Python) are fetched from /repo's working tree on every run (`DEF_STORE.raw_defs[...].python_func`),
re-bound over shim globals (list-backed `array`, `Option` cells with take/swap/unwrap/unwrap_nothing,
`panic` raising, `MAX_SIZE` an int) and executed under CPython on generated operation scripts; the
Lean model (Model/Coll.lean, driver C27) runs the same scripts; results AND final buffers are diffed.
Oracle (independent): a Python list (Stack) / a multiset with min-priority check (PriorityQueue).
"""
from __future__ import annotations

import itertools
import json
import os
import sys
import types

sys.path.insert(0, os.path.dirname(os.path.dirname(os.path.abspath(__file__))))
import vlib

PID = "C27"
THEOREM_MODULES = ["GuppyVerif.Props.C27"]
DRIVER = "C27"
RULE = (
    "operation scripts (push v p | pop | peek | len | next) on an empty Stack / PriorityQueue of capacity cap; "
    "values are distinct tags, priorities drawn from a small set (many repeats) or int64 extremes; shapes: fill, "
    "drain, fill-overflow, pop-on-empty, random mix, sorted/reverse/permuted insertion; thorough adds exhaustive small "
    "scope (all scripts of length <= 6 over {push p in 0..2, pop, peek} for cap 0..3; all 5040 insertion orders of 7 "
    "distinct priorities and all 3^6 priority words, each followed by a full drain). non-trivial = at least 3 "
    "successful pushes and one successful pop/peek (sift loops run) or the script ends in a panic; distinct by request line. "
    "Compiled path: per capacity one Guppy program interpreting a run-time op script (quick: PQ cap 3/6, Stack cap 3, 160 scripts; "
    "thorough: 9 programs, ~2400 scripts) plus straight-line programs with the script as literals (6 / 40), each ending in a "
    "`for` loop over the collection; every script run in the default and the adversarial schedule"
)
ASSUMPTIONS = [
    "Guppy source executed as Python means what the compiled Guppy program means (that claim is property C03); "
    "Option.take/swap/unwrap/unwrap_nothing, array indexing and panic behave as the shims do (their documented behaviour)",
    "array length equals MAX_SIZE (guaranteed by the struct's type `array[Option[..], MAX_SIZE]`)",
    "index arithmetic on `int` does not overflow: 2*i+2 < 2^63, i.e. MAX_SIZE < 2^62; `size`/`end` are never negative "
    "in states reachable from empty_stack()/empty_priority_queue() (the fields are public, a hand-built struct is outside the property)",
    "the Lean model Model/Coll.lean is hand-written; agreement with the Python bodies is established by the same-script "
    "correspondence run here (results and final buffer contents)",
    "compiled path: harness/hugr_interp.py gives the HUGR ops their documented semantics (borrow_array, Option sums, int ops, "
    "prelude.panic, tket.result; validated against CPython and the real 1.0.4 emulator, notes/INTERP.md); it is a sampling "
    "oracle over the real lowering, not a proof about the compiler",
]
UNMODELLED = [
    "the production runtime (selene) executing /repo's HUGR: the compiled path is observed on the reference interpreter only, on "
    "sampled driver programs (lowering of the std methods, struct fields, array borrow/return, Option ops and the for-loop "
    "protocol are exercised there, not proved)",
    "linearity of non-copyable elements (the type checker's job, C06)",
    "64-bit wrap-around of index arithmetic for MAX_SIZE >= 2^62",
]
MANIFEST = {
    "level_text": "Lean theorems, for all capacities, element types and operation scripts (no bound): Stack refines a LIFO list "
    "(push/pop/peek/len/next, results equal to the list machine's, exact panics); PriorityQueue keeps its representation "
    "invariant (first `size` cells some, rest nothing, heap order) in every reachable state, pop/peek return an entry of "
    "minimal priority, push adds exactly one entry and pop removes exactly the returned one (List.Perm on the buffer's "
    "entries), pushing at capacity and popping/peeking when empty panic with the right panic and nothing else ever panics; "
    "loop fuel proved sufficient on every state; iteration yields the entries in priority order. The model keeps every take/swap/unwrap/index error branch of the source. Tie: the real "
    "method bodies from /repo executed under CPython with shims vs the model on the same scripts (quick ~1500 scripts, "
    "thorough ~10^5 incl. exhaustive small scope), results and final buffers compared; second, independent tie on the compiled path: "
    "Guppy driver programs lowered by the real compiler and run on the reference HUGR interpreter (both schedules) must produce the "
    "model's result trace/panic and satisfy the list / multiset-min oracle.",
    "level_note": "Trusted: Lean kernel + propext/Classical.choice/Quot.sound; the CPython shims for Option/array/panic; that "
    "executing Guppy source as Python is faithful (C03); hand-written model tied by sampling + exhaustive small scope. "
    "The compiled path is sampled through harness/hugr_interp.py (validated against the 1.0.4 emulator); the production runtime on "
    "/repo's output is unobservable here.",
    "technique": "Lean 4 refinement proof (concrete option-buffer model -> pure array heap -> multiset/list ADT) + T-exec "
    "correspondence of the real Guppy method bodies under CPython + T-hugr: real lowering run on the reference HUGR interpreter",
    "design_ref": "DESIGN.md §5 C27",
    "ready": True,
}

# ----------------------------------------------------------------------------- shims


class Panic(Exception):
    pass


class OptErr(Exception):
    pass


class IndexErr(Exception):
    pass


class Opt:
    """Option cell: v is None (nothing) or a 1-tuple (some)."""
    __slots__ = ("v",)

    def __init__(self, v=None):
        self.v = v

    def take(self):
        old = Opt(self.v)
        self.v = None
        return old

    def swap(self, other):
        old = Opt(self.v)
        self.v = other.v
        return old

    def unwrap(self):
        if self.v is None:
            raise OptErr("unwrapnone")
        return self.v[0]

    def unwrap_nothing(self):
        if self.v is not None:
            raise OptErr("unwrapsome")
        return None

    def is_some(self):
        return self.v is not None

    def is_nothing(self):
        return self.v is None


def _some(x):
    return Opt((x,))


class _Nothing:
    def __call__(self):
        return Opt(None)

    def __getitem__(self, _item):
        return self


class Arr:
    """list-backed array; indexing is bounds-checked (a Guppy array index out of range panics)."""

    def __init__(self, it):
        self.cells = list(it)

    def __getitem__(self, i):
        if not isinstance(i, int) or not 0 <= i < len(self.cells):
            raise IndexErr("index")
        return self.cells[i]

    def __iter__(self):
        return iter(self.cells)

    def __len__(self):
        return len(self.cells)


def _panic(msg, *a):
    raise Panic(msg)


def _panic_kind(msg: str) -> str:
    if "max size reached" in msg:
        return "capacity"
    if "is not empty" in msg:
        return "notempty"
    if "is empty" in msg:
        return "empty"
    return "other:" + msg


class Real:
    """The real collections, rebuilt over shim globals from /repo's current working tree."""

    EXPECT = {
        "Stack": (["buf", "end"], {"__len__", "__iter__", "__next__", "push", "pop", "peek", "discard_empty"}),
        "PriorityQueue": (["buf", "size"], {"__len__", "__iter__", "__next__", "push", "pop", "peek", "discard_empty"}),
    }

    def __init__(self, ctx):
        from guppylang_internals.engine import DEF_STORE
        import guppylang.std.collections.priority_queue as pqm
        import guppylang.std.collections.stack as stm
        import bootstrap

        self.drift: list[str] = []
        self.fields: dict = {}
        self.g: dict = {
            "__builtins__": __builtins__, "some": _some, "nothing": _Nothing(), "panic": _panic, "array": Arr,
            "MAX_SIZE": 0, "T": object(), "TCopyable": object(), "Option": Opt, "owned": object(),
        }
        self.cls = {}
        for name, mod, ctor in (("Stack", stm, "empty_stack"), ("PriorityQueue", pqm, "empty_priority_queue")):
            d = getattr(mod, name)
            raw = DEF_STORE.raw_defs[d.id]
            src = os.path.realpath(sys.modules[raw.python_class.__module__].__file__)
            if not src.startswith(os.path.realpath(bootstrap.REPO)):
                raise vlib.Infra(f"{name} imported from {src}, not {bootstrap.REPO}")
            fields = [k for k in raw.python_class.__annotations__]
            self.fields[name] = fields
            impls = DEF_STORE.impls[d.id]
            exp_fields, exp_methods = self.EXPECT[name]
            if fields != exp_fields:
                self.drift.append(f"T-src: struct {name} fields are {fields}, model assumes {exp_fields}")
            if set(impls) != exp_methods:
                self.drift.append(f"T-src: struct {name} methods are {sorted(impls)}, model assumes {sorted(exp_methods)}")
            ns = {"__slots__": tuple(fields)}

            def __init__(self, *args, _fields=tuple(fields)):
                if len(args) != len(_fields):
                    raise TypeError("struct constructor arity")
                for k, v in zip(_fields, args):
                    setattr(self, k, v)

            ns["__init__"] = __init__
            cls = type(name, (), ns)
            for mname, mid in impls.items():
                f = DEF_STORE.raw_defs[mid].python_func
                if f.__code__.co_freevars:
                    self.drift.append(f"T-exec: {name}.{mname} has free variables {f.__code__.co_freevars}")
                    continue
                setattr(cls, mname, types.FunctionType(f.__code__, self.g, mname, f.__defaults__))
            self.g[name] = cls
            self.cls[name] = cls
            cf = DEF_STORE.raw_defs[getattr(mod, ctor).id].python_func
            self.g[ctor] = types.FunctionType(cf.__code__, self.g, ctor)
        # `__iter__` must return the collection itself (the model has no separate iterator state)
        for name, ctor in (("Stack", "empty_stack"), ("PriorityQueue", "empty_priority_queue")):
            try:
                self.g["MAX_SIZE"] = 1
                obj = self.g[ctor]()
                if obj.__iter__() is not obj:
                    self.drift.append(f"T-exec: {name}.__iter__ no longer returns self")
            except Exception as e:  # noqa: BLE001
                self.drift.append(f"T-exec: {name}.__iter__/{ctor} raised {type(e).__name__}: {e}")
        # T-src: both modules must bind the same names we shim (a new global used by a body shows up as NameError at run time)

    def run(self, kind: str, cap: int, ops: list) -> str:
        """returns the canonical reply string (same format as the Lean driver)."""
        g = self.g
        g["MAX_SIZE"] = cap
        is_stack = kind == "stack"
        out: list[str] = []
        aborted = False
        try:
            s = g["empty_stack" if is_stack else "empty_priority_queue"]()
            for op in ops:
                k = op[0]
                if k == "push":
                    s = s.push(op[1]) if is_stack else s.push(op[1], op[2])
                    out.append("u")
                elif k in ("pop", "peek"):
                    r = getattr(s, k)()
                    if is_stack:
                        x, s = r
                        out.append(f"v:0:{x}")
                    else:
                        p, x, s = r
                        out.append(f"v:{p}:{x}")
                elif k == "len":
                    out.append(f"n:{len(s)}")
                elif k == "next":
                    r = s.__next__()
                    if r.v is None:
                        out.append("done")
                        aborted = True
                        break
                    e, s = r.v[0]
                    if is_stack:
                        out.append(f"v:0:{e}")
                    else:
                        out.append(f"v:{e[0]}:{e[1]}")
                else:
                    raise AssertionError(k)
        except Panic as e:
            out.append("panic:" + _panic_kind(str(e)))
            aborted = True
        except OptErr as e:
            out.append("panic:" + str(e))
            aborted = True
        except IndexErr:
            out.append("panic:index")
            aborted = True
        except Exception as e:  # noqa: BLE001  (drift in the real code: NameError, TypeError, ...)
            out.append("exception:" + type(e).__name__)
            aborted = True
        if aborted:
            st = "aborted"
        else:
            fields = self.fields["Stack" if is_stack else "PriorityQueue"]  # actual names (a rename is drift, not a failure)
            try:
                buf, n = getattr(s, fields[0]), getattr(s, fields[1])
                cells = []
                for c in buf:
                    if c.v is None:
                        cells.append("_")
                    elif is_stack:
                        cells.append(f"0:{c.v[0]}")
                    else:
                        cells.append(f"{c.v[0][0]}:{c.v[0][1]}")
                st = " ".join([str(n), *cells])
            except Exception as e:  # noqa: BLE001
                st = "exception:" + type(e).__name__
        return " ".join(out) + " | " + st


# ----------------------------------------------------------------------------- oracle


def oracle(kind: str, cap: int, ops: list, reply: str) -> str | None:
    """The property's literal reading, checked against the observed reply.  Stack: a Python list (exact
    expected results).  PriorityQueue: multiset of (priority, value); pop/peek must return an entry of
    minimal priority that is in the multiset; pop removes exactly it.  Returns None if the reply conforms,
    else a description."""
    head, _, state = reply.partition(" | ")
    got = head.split(" ") if head else []
    if kind == "stack":
        ref: list = []
        exp: list[str] = []
        aborted = False
        for op in ops:
            k = op[0]
            if k == "push":
                if len(ref) >= cap:
                    exp.append("panic:capacity"); aborted = True; break
                ref.append(op[1]); exp.append("u")
            elif k == "pop":
                if not ref:
                    exp.append("panic:empty"); aborted = True; break
                exp.append(f"v:0:{ref.pop()}")
            elif k == "peek":
                if not ref:
                    exp.append("panic:empty"); aborted = True; break
                exp.append(f"v:0:{ref[-1]}")
            elif k == "len":
                exp.append(f"n:{len(ref)}")
            elif k == "next":
                if not ref:
                    exp.append("done"); aborted = True; break
                exp.append(f"v:0:{ref.pop()}")
        if got != exp:
            return f"stack results {got} differ from LIFO list {exp}"
        if aborted:
            return None if state == "aborted" else f"state after abort: {state}"
        toks = state.split(" ")
        want = [str(len(ref))] + [f"0:{x}" for x in ref] + ["_"] * (cap - len(ref))
        if toks != want:
            return f"stack buffer {toks} is not the list prefix {want}"
        return None
    # priority queue
    ms: list = []  # multiset of (p, v)
    i = 0
    aborted = False

    def nxt():
        nonlocal i
        if i >= len(got):
            return None
        i += 1
        return got[i - 1]

    for op in ops:
        k = op[0]
        r = nxt()
        if r is None:
            return f"reply too short at op {op}"
        if k == "push":
            if len(ms) >= cap:
                if r != "panic:capacity":
                    return f"push on full queue gave {r}"
                aborted = True; break
            if r != "u":
                return f"push within capacity gave {r}"
            ms.append((op[2], op[1]))
        elif k in ("pop", "peek", "next"):
            if not ms:
                want = "done" if k == "next" else "panic:empty"
                if r != want:
                    return f"{k} on empty queue gave {r}, expected {want}"
                aborted = True; break
            parts = r.split(":")
            if parts[0] != "v":
                return f"{k} on non-empty queue gave {r}"
            e = (int(parts[1]), int(parts[2]))
            if e not in ms:
                return f"{k} returned {e} which is not in the queue {sorted(ms)}"
            m = min(p for p, _ in ms)
            if e[0] != m:
                return f"{k} returned priority {e[0]} but the minimal priority is {m}"
            if k != "peek":
                ms.remove(e)
        elif k == "len":
            if r != f"n:{len(ms)}":
                return f"len gave {r}, expected {len(ms)}"
    if i != len(got):
        return f"extra results {got[i:]}"
    if aborted:
        return None if state == "aborted" else f"state after abort: {state}"
    toks = state.split(" ")
    if toks[0] != str(len(ms)):
        return f"size field {toks[0]} but {len(ms)} entries expected"
    cells = toks[1:]
    if len(cells) != cap:
        return f"buffer has {len(cells)} cells, capacity {cap}"
    n = len(ms)
    if any(c == "_" for c in cells[:n]) or any(c != "_" for c in cells[n:]):
        return f"buffer invariant broken (first {n} cells some, rest nothing): {cells}"
    have = sorted((int(c.split(":")[0]), int(c.split(":")[1])) for c in cells[:n])
    if have != sorted(ms):
        return f"buffer multiset {have} differs from expected {sorted(ms)}"
    return None


# ----------------------------------------------------------------------------- generator

I64MIN, I64MAX = -(2**63), 2**63 - 1


def _line(kind, cap, ops):
    toks = [kind, str(cap)]
    for op in ops:
        toks.append(f"push:{op[1]}:{op[2]}" if op[0] == "push" else op[0])
    return " ".join(toks)


def _parse_line(line):
    toks = line.split()
    ops = []
    for t in toks[2:]:
        p = t.split(":")
        ops.append(("push", int(p[1]), int(p[2])) if p[0] == "push" else (p[0],))
    return toks[0], int(toks[1]), ops


class _Gen:
    def __init__(self, rng):
        self.rng = rng
        self.tag = 0

    def push(self, prios):
        self.tag += 1
        return ("push", self.tag, self.rng.choice(prios))

    def script(self, maxcap, kind=None, cap=None):
        rng = self.rng
        self.tag = 0
        k0 = "pq" if rng.random() < 0.7 else "stack"
        c0 = rng.choice([0, 1, 2, 3, 4, 5, 7, 8, maxcap, rng.randrange(0, maxcap + 1)])
        kind = k0 if kind is None else kind
        cap = c0 if cap is None else cap
        pk = rng.random()
        if pk < 0.45:
            prios = list(range(rng.choice([1, 2, 3, 4])))
        elif pk < 0.8:
            prios = list(range(-cap - 2, cap + 3))
        elif pk < 0.9:
            prios = [I64MIN, I64MIN + 1, -1, 0, 1, I64MAX - 1, I64MAX]
        else:
            prios = [rng.randrange(I64MIN, I64MAX + 1) for _ in range(5)]
        shape = rng.choice(["fill-drain", "fill-drain", "overflow", "underflow", "mix", "mix", "mix", "sorted", "iter"])
        ops = []
        if shape == "fill-drain":
            n = rng.randrange(0, cap + 1)
            ops = [self.push(prios) for _ in range(n)]
            if rng.random() < 0.3:
                ops.append(("len",))
            k = rng.randrange(0, n + 1) if rng.random() < 0.3 else n
            for _ in range(k):
                if rng.random() < 0.2:
                    ops.append(("peek",))
                ops.append(("pop",))
            if rng.random() < 0.5:
                ops += [self.push(prios) for _ in range(rng.randrange(0, cap - n + k + 1))]
                ops += [("pop",)] * rng.randrange(0, 3)
        elif shape == "overflow":
            ops = [self.push(prios) for _ in range(cap)]
            for _ in range(rng.randrange(0, 3)):
                ops += [("pop",), self.push(prios)]
            ops.append(self.push(prios))
            ops.append(("pop",))
        elif shape == "underflow":
            n = rng.randrange(0, min(cap, 3) + 1)
            ops = [self.push(prios) for _ in range(n)] + [("pop",)] * n + [(rng.choice(["pop", "peek", "next"]),), ("len",)]
        elif shape == "mix":
            n = rng.randrange(1, 3 * cap + 6)
            size = 0
            for _ in range(n):
                r = rng.random()
                bias = 0.65 if size < cap else 0.05
                if r < bias:
                    ops.append(self.push(prios)); size += 1
                elif r < bias + 0.2 or (size > 0 and r < 0.9):
                    ops.append(("pop",)); size -= 1
                elif r < 0.95:
                    ops.append(("peek",))
                else:
                    ops.append(("len",))
                if size < 0 or size > cap:
                    break
        elif shape == "sorted":
            n = cap
            ps = sorted(rng.choice(prios) for _ in range(n))
            if rng.random() < 0.5:
                ps.reverse()
            for p in ps:
                self.tag += 1
                ops.append(("push", self.tag, p))
            ops += [("pop",)] * n
        elif shape == "iter":
            n = rng.randrange(0, cap + 1)
            ops = [self.push(prios) for _ in range(n)] + [("next",)] * rng.randrange(0, n + 2)
            if rng.random() < 0.5:
                ops.append(("len",))
        return kind, cap, ops


def _exhaustive():
    cases = []
    alphabet = [("push", 0), ("push", 1), ("push", 2), ("pop",), ("peek",)]
    for kind in ("pq", "stack"):
        for cap in range(0, 4):
            for n in range(0, 7 if kind == "pq" else 6):
                for word in itertools.product(alphabet, repeat=n):
                    ops, tag = [], 0
                    for w in word:
                        if w[0] == "push":
                            tag += 1
                            ops.append(("push", tag, w[1]))
                        else:
                            ops.append(w)
                    cases.append((kind, cap, ops))
    for perm in itertools.permutations(range(7)):
        ops = [("push", i + 1, p) for i, p in enumerate(perm)] + [("pop",)] * 7
        cases.append(("pq", 7, ops))
    for word in itertools.product(range(3), repeat=6):
        ops = [("push", i + 1, p) for i, p in enumerate(word)] + [("pop",)] * 6
        cases.append(("pq", 6, ops))
    return cases


def _cases(ctx, n_random, exhaustive):
    cases = []
    corpus = os.path.join(vlib.VERIF, "corpus", "c27")
    if os.path.isdir(corpus):
        for fn in sorted(os.listdir(corpus)):
            for line in json.load(open(os.path.join(corpus, fn))):
                cases.append(_parse_line(line))
    if ctx.replay_in and "line" in ctx.replay_in.get("replay", {}):
        cases.append(_parse_line(ctx.replay_in["replay"]["line"]))
    g = _Gen(ctx.rng)
    maxcap = 12 if ctx.quick else 40
    for _ in range(n_random):
        cases.append(g.script(maxcap))
    if exhaustive:
        ex = _exhaustive()
        cases += ex
        ctx.extra["exhaustive"] = True
        ctx.extra["exhaustive_note"] = (
            f"{len(ex)} scripts: all words of length <= 6 (pq) / <= 5 (stack) over {{push p in 0..2, pop, peek}} for cap 0..3; "
            "all 5040 insertion orders of 7 distinct priorities and all 3^6 priority words, each followed by a full drain"
        )
    return cases


def _nontrivial(ops, reply):
    head = reply.partition(" | ")[0].split(" ")
    pushes = sum(1 for r in head if r == "u")
    pops = sum(1 for r in head if r.startswith("v:"))
    return (pushes >= 3 and pops >= 1) or any(r.startswith("panic:") for r in head)


def _shrink(real, kind, cap, ops):
    """greedy delta-debugging on the op list: drop ops while the oracle still rejects the real run."""
    changed = True
    while changed and len(ops) > 1:
        changed = False
        for i in range(len(ops) - 1, -1, -1):
            cand = ops[:i] + ops[i + 1:]
            if oracle(kind, cap, cand, real.run(kind, cap, cand)) is not None:
                ops, changed = cand, True
    return ops


def _evaluate(ctx, real, cases, tag=""):
    lines = [_line(*c) for c in cases]
    model = ctx.driver(DRIVER, lines)
    for (kind, cap, ops), line, m in zip(cases, lines, model):
        r = real.run(kind, cap, ops)
        bad = oracle(kind, cap, ops, r)
        last = r.partition(" | ")[0].split(" ")[-1]
        ctx.count(line, nontrivial=_nontrivial(ops, r), kind=f"{kind}:{last.split(':')[0] if not last.startswith('panic') else last}")
        if bad is not None:
            if len(ctx.violations) < 3:
                sops = _shrink(real, kind, cap, ops)
                sline, sr = _line(kind, cap, sops), real.run(kind, cap, sops)
                ctx.violation(
                    "input:" + sline,
                    f"{'Stack' if kind == 'stack' else 'PriorityQueue'} deviates from its reference model on `{sline}`: "
                    f"{oracle(kind, cap, sops, sr)}",
                    {"line": sline, "real": sr, "oracle": oracle(kind, cap, sops, sr), "unshrunk_line": line, "model_on_unshrunk": m},
                )
            else:
                ctx.bump("more-violations")
        if r != m:
            ctx.broke(f"correspondence Model/Coll.lean vs {'stack.py' if kind == 'stack' else 'priority_queue.py'} on `{line}` (real=`{r}` model=`{m}`)")



# ----------------------------------------------------------------------------- compiled path (T-hugr)
# Second, independent tie: Guppy driver programs are lowered by /repo's REAL compiler (feed.load/feed.lower) and the
# lowered HUGR is run on the reference interpreter harness/hugr_interp.py (notes/INTERP.md) in the default and the
# adversarial schedule.  The `result` trace / panic must equal the Lean model's reply for the same script and satisfy the
# Python oracle.  This covers what T-exec cannot see: the lowering of the std methods (struct field access, array
# borrow/return, Option take/swap/unwrap, the for-loop protocol over `__iter__`/`__next__`).

_HPRE = (
    "from guppylang.std.collections.priority_queue import PriorityQueue, empty_priority_queue\n"
    "from guppylang.std.collections.stack import Stack, empty_stack\n"
)
_OPCODE = {"push": 1, "pop": 2, "peek": 3, "len": 4}


def _interp_src(kind, cap, L):
    """a Guppy program that interprets a RUN-TIME op script (arrays of op codes / values / priorities) on a fresh
    collection of capacity `cap`, reports every observation with result(), then iterates the collection to the end."""
    if kind == "pq":
        return f"""
@guppy
def main(ops: array[int, {L}], vals: array[int, {L}], prios: array[int, {L}]) -> None:
    q: PriorityQueue[int, {cap}] = empty_priority_queue()
    for i in range({L}):
        op = ops[i]
        if op == 1:
            q = q.push(vals[i], prios[i])
            result("u", 0)
        elif op == 2:
            p, v, q = q.pop()
            result("p", p)
            result("v", v)
        elif op == 3:
            p, v, q = q.peek()
            result("p", p)
            result("v", v)
        elif op == 4:
            result("n", len(q))
    for p, v in q:
        result("p", p)
        result("v", v)
    result("done", 0)
"""
    return f"""
@guppy
def main(ops: array[int, {L}], vals: array[int, {L}], prios: array[int, {L}]) -> None:
    s: Stack[int, {cap}] = empty_stack()
    for i in range({L}):
        op = ops[i]
        if op == 1:
            s = s.push(vals[i])
            result("u", 0)
        elif op == 2:
            v, s = s.pop()
            result("v", v)
        elif op == 3:
            v, s = s.peek()
            result("v", v)
        elif op == 4:
            result("n", len(s))
    for v in s:
        result("v", v)
    result("done", 0)
"""


def _straight_src(kind, cap, ops):
    """a straight-line Guppy program performing the given script (literals in the source), then iterating to the end."""
    is_pq = kind == "pq"
    c = "q"
    lines = ["@guppy", "def main() -> None:",
             f"    q: {'PriorityQueue' if is_pq else 'Stack'}[int, {cap}] = {'empty_priority_queue' if is_pq else 'empty_stack'}()"]
    for op in ops:
        k = op[0]
        if k == "push":
            lines.append(f"    q = q.push({op[1]}, {op[2]})" if is_pq else f"    q = q.push({op[1]})")
            lines.append('    result("u", 0)')
        elif k in ("pop", "peek"):
            if is_pq:
                lines += [f"    p, v, q = q.{k}()", '    result("p", p)', '    result("v", v)']
            else:
                lines += [f"    v, q = q.{k}()", '    result("v", v)']
        elif k == "len":
            lines.append('    result("n", len(q))')
    if is_pq:
        lines += ["    for p, v in q:", '        result("p", p)', '        result("v", v)']
    else:
        lines += ["    for v in q:", '        result("v", v)']
    lines.append('    result("done", 0)')
    return "\n".join(lines) + "\n"


def _trace_tokens(kind, r):
    """interpreter run -> the token list of the Lean driver / CPython reply"""
    toks, pend = [], None
    for tag, val in r.trace:
        if tag == "u":
            toks.append("u")
        elif tag == "n":
            toks.append(f"n:{val}")
        elif tag == "done":
            toks.append("done")
        elif tag == "p":
            pend = val
        elif tag == "v":
            toks.append(f"v:{pend if kind == 'pq' else 0}:{val}")
            pend = None
        else:
            toks.append(f"?{tag}:{val}")
    if r.status == "panic":
        toks.append("panic:" + (_panic_kind(r.msg or "") if r.origin == "program" else "op:" + str(r.msg)))
    elif r.status != "value":
        toks.append("exit:" + str(r.msg))
    return toks


def _compiled(ctx, gen):
    import feed
    import hugr_interp as hi

    stats = {"programs": 0, "runs": 0, "unsupported": 0, "out_of_fuel": 0, "lower_failed": 0}
    if ctx.quick:
        interp_progs = [("pq", 3, 12, 60), ("pq", 6, 20, 60), ("stack", 3, 12, 40)]
        n_straight = 6
    else:
        interp_progs = [("pq", 1, 6, 60), ("pq", 2, 10, 150), ("pq", 3, 12, 400), ("pq", 4, 14, 400), ("pq", 7, 24, 500),
                        ("pq", 12, 36, 300), ("stack", 1, 6, 60), ("stack", 3, 12, 300), ("stack", 6, 20, 200)]
        n_straight = 40
    jobs = []  # (kind, cap, ops, program source, args or None, hugr)
    prelude = feed.PRELUDE + _HPRE

    def lower(src):
        try:
            m = feed.load(src, prelude=prelude)
            g = feed.lower(m.main)
            stats["programs"] += 1
            return g.hugr
        except Exception as e:  # noqa: BLE001
            stats["lower_failed"] += 1
            ctx.broke(f"T-hugr: driver program does not compile with the real compiler: {type(e).__name__}: {str(e)[:300]}")
            return None

    for kind, cap, L, n in interp_progs:
        src = _interp_src(kind, cap, L)
        h = lower(src)
        if h is None:
            continue
        for _ in range(n):
            _k, _c, ops = gen.script(cap, kind=kind, cap=cap)
            ops = [o for o in ops if o[0] != "next"][:L]
            codes = [_OPCODE[o[0]] for o in ops] + [0] * (L - len(ops))
            vals = [o[1] if o[0] == "push" else 0 for o in ops] + [0] * (L - len(ops))
            prios = [o[2] if o[0] == "push" else 0 for o in ops] + [0] * (L - len(ops))
            jobs.append((kind, cap, ops, src, [codes, vals, prios], h))
    for _ in range(n_straight):
        kind, cap, ops = gen.script(6)
        ops = [o for o in ops if o[0] != "next"][:24]
        src = _straight_src(kind, cap, ops)
        h = lower(src)
        if h is not None:
            jobs.append((kind, cap, ops, src, None, h))
    rp = (ctx.replay_in or {}).get("replay", {})
    if rp.get("program"):
        k, c, rops = _parse_line(rp["line"])
        h = lower(rp["program"])
        if h is not None:
            jobs.append((k, c, [o for o in rops if o[0] != "next"], rp["program"], rp.get("args"), h))
    # the model's reply for script + iteration to the end (`next` until done: cap+1 calls always suffice)
    full = [(k, c, list(ops) + [("next",)] * (c + 1)) for k, c, ops, *_ in jobs]
    lines = [_line(*f) for f in full]
    model = ctx.driver(DRIVER, lines) if lines else []
    for (kind, cap, ops, src, args, h), (fk, fc, fops), line, m in zip(jobs, full, lines, model):
        mt = m.partition(" | ")[0].split(" ")
        per_order = {}
        for order in ("default", "adversarial"):
            try:
                r = hi.run(h, "main", args or [], order=order)
            except hi.Unsupported as e:
                stats["unsupported"] += 1
                ctx.bump("hugr:unsupported:" + str(e)[:40])
                continue
            except hi.OutOfFuel:
                stats["out_of_fuel"] += 1
                continue
            except Exception as e:  # noqa: BLE001  (InterpError: ill-formed HUGR or interpreter bug — never skipped silently)
                ctx.broke(f"T-hugr: interpreter failed on the lowering of `{line}` ({'runtime script' if args else 'straight-line'}): "
                          f"{type(e).__name__}: {str(e)[:200]}")
                continue
            stats["runs"] += 1
            toks = _trace_tokens(kind, r)
            per_order[order] = toks
            reply = " ".join(toks) + " | aborted"
            bad = oracle(kind, cap, fops, reply)
            ctx.count("hugr " + order + " " + line, nontrivial=_nontrivial(ops, reply),
                      kind=f"hugr:{kind}:{'rt' if args else 'src'}:{toks[-1].split(':')[0] if not toks[-1].startswith('panic') else toks[-1]}")
            if bad is not None:
                ctx.violation(
                    f"input:hugr {'rt' if args else 'src'} {line}",
                    f"compiled {'Stack' if kind == 'stack' else 'PriorityQueue'} (lowered by the real compiler, run on the reference "
                    f"interpreter, {order} schedule) deviates from its reference model on `{line}`: {bad}",
                    {"line": line, "program": src, "args": args, "order": order, "interpreter": reply, "oracle": bad, "model": m},
                )
            if toks != mt:
                ctx.broke(f"correspondence Model/Coll.lean vs compiled HUGR ({order}) on `{line}` (hugr=`{' '.join(toks)}` model=`{' '.join(mt)}`)")
        if len(per_order) == 2 and per_order["default"] != per_order["adversarial"]:
            ctx.violation(
                f"order:hugr {line}",
                f"compiled program behaves differently under two legal schedules on `{line}`: default=`{' '.join(per_order['default'])}` "
                f"adversarial=`{' '.join(per_order['adversarial'])}`",
                {"line": line, "program": src, "args": args, "default": per_order["default"], "adversarial": per_order["adversarial"]},
            )
    ctx.extra["compiled_path"] = stats


def tie(ctx):
    real = Real(ctx)
    for d in real.drift:
        ctx.broke(d)
    cases = _cases(ctx, ctx.n(1500, 60000), exhaustive=not ctx.quick)
    _evaluate(ctx, real, cases)
    try:
        _compiled(ctx, _Gen(ctx.rng))
    except vlib.Infra:
        raise
    except Exception as e:  # noqa: BLE001
        ctx.broke(f"T-hugr: compiled-path tie crashed: {type(e).__name__}: {str(e)[:300]}")


def search(ctx, why):
    """something broke and no failing input yet: a wider random search on the real code with the oracle."""
    real = Real(ctx)
    g = _Gen(ctx.rng)
    cases = _exhaustive() if ctx.quick else []
    cases += [g.script(24) for _ in range(20000)]
    for kind, cap, ops in cases:
        r = real.run(kind, cap, ops)
        bad = oracle(kind, cap, ops, r)
        if bad is not None:
            line = _line(kind, cap, ops)
            ctx.violation("input:" + line, f"deviates from its reference model on `{line}`: {bad}",
                          {"line": line, "real": r, "oracle": bad})
            return


if __name__ == "__main__":
    vlib.main(sys.modules[__name__])
