"""Extraction of straight-line SSA op lists from a Hugr lowered by /repo's real compiler (T-obj).

Shared by C19 and C07.  A probe function whose body is one basic block lowers to
`FuncDefn > CFG > DataflowBlock`; the children of that block (in node-index order = the order in
which the compiler called `builder.add_op`) become instructions

    (opname, [static params], [input wire ids]) -> n output wires

Wire ids are canonical: the block's Input ports are wires 0..k-1 (port order), then every
instruction's outputs in instruction order.  `Conditional` nodes built by `build_unwrap*` (one
case = `prelude.panic`, the other = identity) become the instruction `unwrap tag "msg"`; any
other conditional is `cond?` (never matches a model emission).  `Const`/`LoadConst` of an int
becomes `const v`; constants that only feed a panic inside a case are dropped with the case.
"""
from __future__ import annotations

import hugr.ops as ops
import hugr.tys as ht
import hugr.val as hv


def op_name(op) -> str:
    if isinstance(op, ops.ExtOp):
        return op.op_def().qualified_name()
    if isinstance(op, ops.Custom):
        return f"{op.extension}.{op.op_name}"
    return type(op).__name__


SHORT = {
    "arithmetic.conversions.itousize": "itousize",
    "arithmetic.conversions.ifromusize": "ifromusize",
    "collections.borrow_arr.get": "get",
    "collections.borrow_arr.set": "set",
    "collections.borrow_arr.borrow": "borrow",
    "collections.borrow_arr.return": "return",
    "collections.borrow_arr.pop_left": "pop_left",
    "collections.borrow_arr.pop_right": "pop_right",
    "collections.borrow_arr.discard_empty": "discard_empty",
    "collections.borrow_arr.discard_all_borrowed": "discard_all_borrowed",
    "collections.borrow_arr.new_all_borrowed": "new_all_borrowed",
    "collections.borrow_arr.new_array": "new_array",
    "collections.borrow_arr.clone": "clone",
    "collections.borrow_arr.unpack": "unpack_array",
    "collections.borrow_arr.swap": "swap",
    "collections.borrow_arr.discard": "discard",
    "tket.guppy.drop": "drop",
    "arithmetic.int.iadd": "iadd",
}


def children(h, n):
    return list(h.children(n))


def find_func(h, name):
    for n in h:
        op = h[n].op
        if isinstance(op, ops.FuncDefn) and op.f_name == name:
            return n
    raise KeyError(name)


def func_names(h):
    return [h[n].op.f_name for n in h if isinstance(h[n].op, ops.FuncDefn)]


def func_signature(h, fn):
    """(#inputs, #outputs) of a FuncDefn as lowered"""
    op = h[fn].op
    return len(op.inputs), len(op.outputs)


def dataflow_blocks(h, fn):
    out = []
    for c in children(h, fn):
        if isinstance(h[c].op, ops.CFG):
            for b in children(h, c):
                if isinstance(h[b].op, ops.DataflowBlock):
                    out.append(b)
    return out


def _src(h, node, port):
    """(node, offset) feeding input `port` of `node` (None if unconnected)"""
    ls = list(h.linked_ports(node.inp(port)))
    if not ls:
        return None
    assert len(ls) == 1, "input port with several sources"
    return (ls[0].node, ls[0].offset)


def _n_value_inputs(h, n):
    op = h[n].op
    if isinstance(op, ops.Call):
        return len(op.instantiation.input)
    if isinstance(op, ops.LoadConst | ops.LoadFunc):
        return 0
    try:
        return len(op.outer_signature().input)
    except Exception:  # noqa: BLE001
        return h.num_in_ports(n)


def _n_value_outputs(h, n):
    op = h[n].op
    if isinstance(op, ops.Call):
        return len(op.instantiation.output)
    if isinstance(op, ops.Conditional):
        return len(op.outputs)
    try:
        return len(op.outer_signature().output)
    except Exception:  # noqa: BLE001
        return h.num_out_ports(n)


def _const_of(h, loadconst):
    s = _src(h, loadconst, 0)
    if s is None:
        return None
    c = h[s[0]].op
    return c.val if isinstance(c, ops.Const) else None


def _panic_msg(h, case):
    """message of the prelude.panic in `case`, or None"""
    for k in children(h, case):
        if op_name(h[k].op) == "prelude.panic":
            s = _src(h, k, 0)
            if s is not None and isinstance(h[s[0]].op, ops.LoadConst):
                v = _const_of(h, s[0])
                m = getattr(v, "message", None)
                if m is None:
                    m = str(v)
                return m
            return "?"
    return None


def _is_identity_case(h, case):
    ks = children(h, case)
    if len(ks) != 2:
        return False
    inp, out = ks
    if not isinstance(h[inp].op, ops.Input) or not isinstance(h[out].op, ops.Output):
        return False
    k = h.num_in_ports(out)
    srcs = [_src(h, out, i) for i in range(k)]
    srcs = [s for s in srcs if s is not None]
    return srcs == [(inp, i) for i in range(len(srcs))]


def _conditional(h, n):
    """classify a Conditional: ('unwrap', tag, msg) or ('cond?',)"""
    cases = [c for c in children(h, n) if isinstance(h[c].op, ops.Case)]
    if len(cases) == 2:
        msgs = [_panic_msg(h, c) for c in cases]
        ident = [_is_identity_case(h, c) for c in cases]
        for tag in (0, 1):
            if ident[tag] and msgs[1 - tag] is not None and not ident[1 - tag]:
                return ("unwrap", tag, msgs[1 - tag])
    return ("cond?",)


def _int_const(v):
    if isinstance(v, hv.Extension) and hasattr(v, "val"):
        return v.val
    x = getattr(v, "v", None)
    if isinstance(x, int):
        return x
    return None


class Block:
    """SSA view of one dataflow block"""

    def __init__(self, h, block, callee_names=True):
        self.h = h
        self.block = block
        ks = children(h, block)
        self.inp, self.out = ks[0], ks[1]
        assert isinstance(h[self.inp].op, ops.Input) and isinstance(h[self.out].op, ops.Output)
        self.wire: dict = {}
        self.n_in = len(h[self.inp].op.types)
        for i in range(self.n_in):
            self.wire[(self.inp, i)] = i
        nxt = self.n_in
        self.instrs: list[tuple] = []  # (name, params(list of str), args(list of wire ids), nout)
        self.nodes: list = []
        for k in ks[2:]:
            op = h[k].op
            if isinstance(op, ops.Const):
                continue
            name, params = self._describe(k)
            if name is None:
                continue
            nin = _n_value_inputs(h, k)
            args = []
            for i in range(nin):
                s = _src(h, k, i)
                args.append(self.wire.get(s, -1) if s is not None else -1)
            nout = _n_value_outputs(h, k)
            for i in range(nout):
                self.wire[(k, i)] = nxt
                nxt += 1
            self.instrs.append((name, params, args, nout))
            self.nodes.append(k)
        self.n_wires = nxt
        # block outputs: port 0 is the branch predicate (a unit Tag), the rest are the values
        nout = h.num_in_ports(self.out)
        outs = []
        for i in range(nout):
            s = _src(h, self.out, i)
            if s is not None:
                outs.append(self.wire.get(s, -1))
        self.outs_all = outs
        self.outs = outs[1:]

    def _describe(self, k):
        h = self.h
        op = h[k].op
        nm = op_name(op)
        if isinstance(op, ops.Conditional):
            c = _conditional(h, k)
            if c[0] == "unwrap":
                return "unwrap", [str(c[1]), c[2]]
            return "cond?", []
        if isinstance(op, ops.LoadConst):
            v = _const_of(h, k)
            iv = _int_const(v)
            if iv is not None:
                return "const", [str(iv)]
            return "const", ["?"]
        if isinstance(op, ops.Call):
            s = _src(h, k, _n_value_inputs(h, k))
            callee = "?"
            if s is not None:
                cop = h[s[0]].op
                callee = getattr(cop, "f_name", "?")
            return "call", [callee]
        if isinstance(op, ops.MakeTuple):
            return "pack", []
        if isinstance(op, ops.UnpackTuple):
            return "unpack", []
        if isinstance(op, ops.Tag):
            return "tag", [str(op.tag)]
        if nm in SHORT:
            short = SHORT[nm]
            params = []
            if short in ("pop_left", "pop_right", "new_array", "new_all_borrowed"):
                params = [_len_arg(op)]
            return short, params
        return nm, []

    def live(self):
        """drop instructions that do not contribute to the block's value outputs and have no array
        effect (the unit `pack`/`tag` used for the branch predicate)"""
        return self


def _len_arg(op) -> str:
    """static length type argument of an array op (first type arg), as a string"""
    try:
        a = op.args[0] if hasattr(op, "args") else None
        if a is None and hasattr(op, "op_def"):
            a = None
    except Exception:  # noqa: BLE001
        a = None
    if a is None:
        try:
            ext = op.to_custom_op()
            a = ext.args[0]
        except Exception:  # noqa: BLE001
            return "?"
    if isinstance(a, ht.BoundedNatArg):
        return str(a.n)
    return "var"


def prune(instrs, n_in, outs, keep=lambda name: False):
    """remove pure instructions whose outputs are unused (unit `pack` + `tag` of the branch
    predicate), renumbering wires canonically.  `keep(name)` marks effectful ops kept regardless."""
    PURE = {"pack", "tag", "const", "itousize", "unpack"}
    # compute wire ids of each instr's outputs
    starts = []
    nxt = n_in
    for (_nm, _ps, _as, nout) in instrs:
        starts.append(nxt)
        nxt += nout
    used = set(outs)
    alive = [True] * len(instrs)
    for idx in range(len(instrs) - 1, -1, -1):
        nm, _ps, args, nout = instrs[idx]
        outs_w = range(starts[idx], starts[idx] + nout)
        if nm in PURE and not keep(nm) and not any(w in used for w in outs_w):
            alive[idx] = False
            continue
        used.update(args)
    ren = {i: i for i in range(n_in)}
    nxt = n_in
    res = []
    for idx, ins in enumerate(instrs):
        if not alive[idx]:
            continue
        nm, ps, args, nout = ins
        for j in range(nout):
            ren[starts[idx] + j] = nxt
            nxt += 1
        res.append((nm, ps, [ren.get(a, -1) for a in args], nout))
    return res, [ren.get(o, -1) for o in outs]


def sexp_atom(s: str) -> str:
    """encode an arbitrary string as one S-expression atom"""
    out = []
    for ch in s:
        if ch.isalnum() or ch in "_-.":
            out.append(ch)
        else:
            out.append("%%%02x" % ord(ch) if ord(ch) < 256 else "%u")
    return "".join(out) or "%"


def to_sexp(n_in, instrs, outs) -> str:
    """(prog n_in ((name (params) (args) nout) ...) (outs))"""
    items = []
    for nm, ps, args, nout in instrs:
        p = " ".join(sexp_atom(x) for x in ps)
        a = " ".join(str(x) for x in args)
        items.append(f"({sexp_atom(nm)} ({p}) ({a}) {nout})")
    return f"(prog {n_in} ({' '.join(items)}) ({' '.join(str(o) for o in outs)}))"


def descendants(h, n):
    out, todo = [], [n]
    while todo:
        x = todo.pop()
        for c in h.children(x):
            out.append(c)
            todo.append(c)
    return out


def linear_use_problems(h, fn):
    """every output port of linear type below FuncDefn `fn` must be consumed exactly once (a lent qubit / array wire
    used twice, or a fresh one left dangling, is an ill-formed Hugr)"""
    probs = []
    for n in [fn, *descendants(h, fn)]:
        op = h[n].op
        if isinstance(op, ops.FuncDefn | ops.FuncDecl | ops.Const | ops.CFG | ops.DataflowBlock | ops.ExitBlock | ops.Case):
            if not isinstance(op, ops.CFG):
                continue
        try:
            nout = _n_value_outputs(h, n) if not isinstance(op, ops.Input) else len(op.types)
        except Exception:  # noqa: BLE001
            continue
        for i in range(nout):
            try:
                ty = h.port_type(n.out(i))
                lin = ty is not None and ty.type_bound() == ht.TypeBound.Linear
            except Exception:  # noqa: BLE001
                continue
            if not lin:
                continue
            k = len(list(h.linked_ports(n.out(i))))
            if k != 1:
                probs.append(f"{op_name(op)}#{n.idx} output {i} of linear type is consumed {k} times")
    return probs
