"""C30 — Source span containment and intersection follow interval semantics."""
from __future__ import annotations

import itertools
import os
import sys

sys.path.insert(0, os.path.dirname(os.path.dirname(os.path.abspath(__file__))))
import vlib

PID = "C30"
THEOREM_MODULES = ["GuppyVerif.Props.C30"]
DRIVER = "C30"
RULE = (
    "pairs (span, span) and (span, loc) over files {f,g} x lines x columns; quick: random sample "
    "from a 2x4x4 grid, thorough: the whole 2x3x3 grid of well-formed spans (exhaustive) plus random "
    "larger coordinates; non-trivial = same file on both sides; distinct by canonical request line"
)
ASSUMPTIONS = [
    "CPython dataclass(order=True) compares (file, line, column) tuples lexicographically; max/min return the first extremal argument",
    "the Lean model Model/Span.lean is hand-written; agreement with span.py is established by the same-input correspondence run here",
]
MANIFEST = {
    "level_text": "Lean theorems (all spans/locations, unbounded coordinates): containment of a location and of a span, "
    "and intersection, characterised against the closed-interval denotation of a span; `a & b` never raises on well-formed "
    "spans; different files never related. The hand-written model is tied to span.py on every run by same-input "
    "correspondence (quick: 2500 random pairs; thorough: every pair of well-formed spans on a 2x3x3 grid + 20000 random).",
    "level_note": "Trusted: Lean kernel + propext/Classical.choice/Quot.sound; my reading of intervals as closed (as the code's "
    "`start <= x <= end` and the statement say); the correspondence is sampling (exhaustive on the small grid in the thorough tier).",
    "technique": "Lean 4 proof over a hand-written model + differential correspondence with span.py",
    "design_ref": "DESIGN.md §5 C30",
    "ready": True,
}
UNMODELLED = ["to_span (AST -> Span), SourceMap, shift_left/shift_right, __len__"]


def _loc(t):
    from guppylang_internals.span import Loc
    # build the file name at run time: equal strings must not have to be the same object
    return Loc("".join(["src/", t[0], ".py"]), t[1], t[2])


def _mk(s, e):
    from guppylang_internals.error import InternalGuppyError
    from guppylang_internals.span import Span
    try:
        return Span(_loc(s), _loc(e))
    except InternalGuppyError:
        return None


def _fmt_loc(t):
    return f"{t[0]} {t[1]} {t[2]}"


def _fmt_span(s):
    return _fmt_loc(s[0]) + " " + _fmt_loc(s[1])


def _short(f):
    return f[4:-3] if f.startswith("src/") and f.endswith(".py") else f


def _show_real_span(sp):
    return f"{_short(sp.start.file)} {sp.start.line} {sp.start.column} {_short(sp.end.file)} {sp.end.line} {sp.end.column}"


def _real(req):
    """run the real operator; returns canonical reply string"""
    from guppylang_internals.error import InternalGuppyError
    kind = req[0]
    try:
        if kind == "mk":
            return "ok" if _mk(*req[1]) is not None else "error"
        a = _mk(*req[1])
        assert a is not None
        if kind == "cs":
            b = _mk(*req[2])
            return "true" if (b in a) else "false"
        if kind == "cl":
            return "true" if (_loc(req[2]) in a) else "false"
        if kind == "and":
            b = _mk(*req[2])
            r = a & b
            return "none" if r is None else "some " + _show_real_span(r)
    except InternalGuppyError:
        return "error"
    except Exception as e:  # noqa: BLE001
        return "exception:" + type(e).__name__
    raise AssertionError(kind)


def _oracle(req):
    """the property's literal reading, on plain tuples (independent of model and code)"""
    kind = req[0]
    pos = lambda l: (l[1], l[2])
    if kind == "mk":
        s, e = req[1]
        return "ok" if s[0] == e[0] and pos(s) <= pos(e) else "error"
    a = req[1]
    if kind == "cs":
        b = req[2]
        ok = a[0][0] == b[0][0] and pos(a[0]) <= pos(b[0]) and pos(b[1]) <= pos(a[1])
        return "true" if ok else "false"
    if kind == "cl":
        l = req[2]
        ok = a[0][0] == l[0] and pos(a[0]) <= pos(l) <= pos(a[1])
        return "true" if ok else "false"
    if kind == "and":
        b = req[2]
        if a[0][0] != b[0][0]:
            return "none"
        s, e = max(pos(a[0]), pos(b[0])), min(pos(a[1]), pos(b[1]))
        if s > e:
            return "none"
        f = a[0][0]
        return f"some {f} {s[0]} {s[1]} {f} {e[0]} {e[1]}"
    raise AssertionError(kind)


def _line(req):
    kind = req[0]
    if kind == "mk":
        return "mk " + _fmt_span(req[1])
    if kind == "cl":
        return f"cl {_fmt_span(req[1])} {_fmt_loc(req[2])}"
    return f"{kind} {_fmt_span(req[1])} {_fmt_span(req[2])}"


def _wf(s):
    return s[0][0] == s[1][0] and (s[0][1], s[0][2]) <= (s[1][1], s[1][2])


def _cases(ctx):
    rng = ctx.rng
    reqs = []
    corpus = os.path.join(vlib.VERIF, "corpus", "c30")
    if os.path.isdir(corpus):
        import json
        for fn in sorted(os.listdir(corpus)):
            for r in json.load(open(os.path.join(corpus, fn))):
                reqs.append(_tup(r))
    if ctx.replay_in:
        reqs.append(_tup(ctx.replay_in["replay"]["request"]))
    if ctx.quick:
        files, L, C, n = ["f", "g"], 4, 4, 2500
        def rl(f=None):
            return (f or rng.choice(files), rng.randrange(1, L + 1), rng.randrange(0, C))
        def rs():
            f = rng.choice(files)
            a, b = rl(f), rl(f)
            if (a[1], a[2]) > (b[1], b[2]):
                a, b = b, a
            return (a, b)
        for _ in range(n):
            k = rng.choice(["cs", "cs", "cl", "and", "and", "mk"])
            if k == "mk":
                reqs.append(("mk", (rl(), rl())))
            elif k == "cl":
                reqs.append(("cl", rs(), rl()))
            else:
                reqs.append((k, rs(), rs()))
    else:
        files, L, C = ["f", "g"], 3, 3
        locs = [(f, l, c) for f in files for l in range(1, L + 1) for c in range(C)]
        spans = [(a, b) for a in locs for b in locs if _wf((a, b))]
        for a in locs:
            for b in locs:
                reqs.append(("mk", (a, b)))
        for a in spans:
            for b in spans:
                reqs.append(("cs", a, b))
                reqs.append(("and", a, b))
            for l in locs:
                reqs.append(("cl", a, l))
        ctx.extra["exhaustive"] = True
        ctx.extra["exhaustive_note"] = f"all {len(spans)} well-formed spans over 2 files x 3 lines x 3 columns, all pairs"
        for _ in range(20000):
            def rl(f):
                return (f, rng.randrange(1, 10**6), rng.randrange(0, 300))
            def rs():
                f = rng.choice(["f", "g", "a/b.py"])
                a, b = rl(f), rl(f)
                if (a[1], a[2]) > (b[1], b[2]):
                    a, b = b, a
                return (a, b)
            k = rng.choice(["cs", "cl", "and"])
            reqs.append((k, rs(), rl(rng.choice(["f", "g"]))) if k == "cl" else (k, rs(), rs()))
    return reqs


def _tup(x):
    return tuple(_tup(i) for i in x) if isinstance(x, (list, tuple)) else x


def tie(ctx):
    reqs = _cases(ctx)
    lines = [_line(r) for r in reqs]
    model = ctx.driver(DRIVER, lines)
    for req, line, m in zip(reqs, lines, model):
        real = _real(req)
        orc = _oracle(req)
        same_file = req[0] == "mk" or req[1][0][0] == (req[2][0][0] if req[0] != "cl" else req[2][0])
        ctx.count(line, nontrivial=same_file, kind=req[0] + ":" + real.split(" ")[0])
        if real != orc:
            ctx.violation(
                "input:" + line,
                f"span operator differs from interval semantics on `{line}`: real={real} expected={orc}",
                {"request": req, "line": line, "real": real, "oracle": orc, "model": m},
            )
        if real != m:
            ctx.broke(f"correspondence Model/Span.lean vs span.py on `{line}` (real={real} model={m})")


if __name__ == "__main__":
    vlib.main(sys.modules[__name__])
