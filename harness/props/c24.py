"""C24 — Unitary contexts reject non-unitary quantum operations."""
from __future__ import annotations

import itertools
import json
import os
import sys

sys.path.insert(0, os.path.dirname(os.path.dirname(os.path.abspath(__file__))))
import vlib

PID = "C24"
THEOREM_MODULES = ["GuppyVerif.Props.C24"]
DRIVER = "C24"
RULE = (
    "generated Guppy programs: context (decorator kwargs unitary/control/dagger/power, or a `with` block with a "
    "modifier list incl. repeated daggers) x body of expression statements / assignments / if / while / nested `with` "
    "blocks (any depth) whose expressions are calls to declared callees of every flag set (global) or Callable "
    "parameters (local), with argument mixes qubit / qubit array / subscripted qubit / classical / nested call / tuple "
    "of calls, barrier and state_result; positions: statement, nested argument (before and after a qubit argument), "
    "if / while condition, assigned value, and all of these inside nested with blocks.  thorough: the full grid 23 "
    "contexts x 8 callee flags x 7 argument mixes x 6 positions, the nested grid 23 contexts x 4 inner modifier lists "
    "x 8 callee flags x 4 positions, plus random deeper programs.  non-trivial = some call passes a qubit to a callee "
    "lacking a flag required at its position (the flag-subset oracle says reject for a call reason).  Whole-program cases: "
    "one decorator object (`guppy(...)`, `guppy.declare(...)`) applied to several functions, all 7x8 flag pairs; a flagged "
    "generic callee called / instantiated / used as a value next to its non-generic twin, all 7x8 flag pairs; corpus programs."
)
ASSUMPTIONS = [
    "the abstract form handed to the Lean model (flags of each callee, qubit-ness and subscript-ness of each place) "
    "is what the real type checker derives for the printed program; checked indirectly by the verdict comparison",
    "which of several diagnostics is reported first depends on basic-block numbering and checking order (not modelled): "
    "when the model predicts several distinct diagnostics the real one must be among them; with one predicted it must be equal",
    "code made unreachable by constant conditions is dropped before any check (generated conditions are never literals)",
]
UNMODELLED = [
    "TensorCall, comptime calls, generic callees, for-loops and comprehensions (loop_in_ast treats For like While)",
    "calls inside modifier arguments (`power(f(q))`): the enclosing block's visitor only reaches the raw, unchecked expression",
    "`control(qs[i])` on a subscripted qubit: crashes the linearity checker with AssertionError (subscript.setitem_call is None) "
    "- a C02 matter, reported in notes/C24.md",
    "order in which several diagnostics are found (basic-block numbering)",
    "linearity/type errors raised before the unitary check (generated programs are otherwise well-typed)",
    "barrier/state_result arguments are opaque to the checker: `barrier(qs[0])` under dagger is accepted (modelled as the code does)",
]
MANIFEST = {
    "level_text": "Lean theorem `rejected_iff` (all context kinds, all 8 flag sets, all statement/expression trees incl. nested with "
    "blocks, by structural induction): the modelled unitary check rejects a block iff some expression position anywhere in it "
    "(statement, assigned value, assignment target, if/while condition, control argument; at any depth) contains a call (at any argument depth, or inside an index expression of a subscripted place) "
    "passing a qubit-containing argument to a callee lacking a flag required at that position (context flags plus those of "
    "every enclosing with block; barrier/state_result opaque), or where dagger is required a loop / assignment / subscripted "
    "place occurs; plus nested_with_iff, pre_sound, accept_kind_irrelevant, parseKwargs_has, metadata_roundtrip.  "
    "The hand-written model is tied to /repo by running generated Guppy programs through the real check() and comparing verdict "
    "and diagnostic (class + flags/thing) with the model and with an independent flag-subset oracle; `unitary` metadata is read "
    "from lowered FuncDefn nodes (function and with-block functions).",
    "level_note": "Model is of the repaired checker (fixes 0c2f018 for D7, 5066299 for nested blocks, 6709ee8 for calls in subscript indices / assignment targets). Trusted: Lean kernel, the "
    "statement in Spec/C24.lean, the printer from abstract programs to Guppy source, sampling of the correspondence (thorough: "
    "exhaustive flag grids). TensorCall, calls inside modifier arguments and the order of multiple diagnostics are not modelled.",
    "technique": "Lean 4 proof over a hand-written model + differential correspondence through real check()/lowering",
    "design_ref": "DESIGN.md §5 C24",
    "ready": True,
}

C, D, P = 1, 2, 4
QPOOL = 6
ARRN = 4
KPOOL = 5
KSUB = 3

# ------------------------------------------------------------------ abstract programs
# expr: ("l",) | ("p", q, s) | ("pa",) whole qubit array | ("c", gflags, [args], ret, local) |
#       ("x", which, [args]) | ("t", [e1, e2]) tuple of two bool expressions
# stmt: ("e", expr) | ("a", expr) | ("i", cond, [stmts], [stmts]) | ("w", cond, [stmts])


def kind_of(e):
    """parameter kind letter of an argument expression"""
    t = e[0]
    if t == "l":
        return "b"
    if t == "p":
        return "q" if e[1] else "b"
    if t == "pa":
        return "a"
    if t == "c":
        return "b"  # all generated callees used as arguments return bool
    if t == "t":
        return "t"
    raise AssertionError(e)


def callee_name(e):
    _, g, args, ret, local = e
    sig = "".join(kind_of(a) for a in args) or "v"
    return f"{'h' if local else 'f'}{g}_{sig}_{ret}"


PTY = {"q": "qubit", "a": f"array[qubit, {ARRN}]", "b": "bool", "t": "tuple[bool, bool]"}
RTY = {"b": "bool", "n": "None", "i": "int"}


class Printer:
    def __init__(self):
        self.globals_: dict[str, str] = {}
        self.locals_: dict[str, str] = {}
        self.nassign = 0
        self.nctrl = 0
        self.nsub = 0

    def expr(self, e, st):
        t = e[0]
        if t == "l":
            return "True"
        if t == "p":
            q, s = e[1], e[2]
            if q and not s:
                st["q"] += 1
                assert st["q"] <= QPOOL and True
                return f"q{st['q'] - 1}"
            idx = e[3] if len(e) > 3 and e[3] else None
            if q and s == 2:      # component of a tuple element: the subscript is not the outermost access
                st["ps"] = st.get("ps", 0) + 1
                assert st["ps"] <= 2
                return f"ps[{st['ps'] - 1}][{st['ps'] % 2}]"
            if q and s == 3:      # field of a struct element
                st["rs"] = st.get("rs", 0) + 1
                assert st["rs"] <= 2
                return f"rs[{st['rs'] - 1}].q"
            if q and s:
                assert not st["whole"]
                st["elem"] += 1
                assert st["elem"] <= ARRN
                if idx is not None:
                    assert not st.get("dyn")      # at most one dynamically indexed element per expression
                    st["dyn"] = True
                    return f"qs[{self.expr(idx, st)}]"
                return f"qs[{st['elem'] - 1}]"
            if s:
                return f"xs[{self.expr(idx, st)}]" if idx is not None else "xs[0]"
            return "b"
        if t == "pa":
            assert st["elem"] == 0 and not st["whole"]
            st["whole"] = True
            return "qs"
        if t == "c":
            _, g, args, ret, local = e
            name = callee_name(e)
            ptys = [PTY[kind_of(a)] for a in args]
            if local:
                assert g == 0
                self.locals_[name] = f"Callable[[{', '.join(ptys)}], {RTY[ret]}]"
            else:
                kw = []
                if g == 7:
                    kw.append("unitary=True")
                else:
                    if g & C:
                        kw.append("control=True")
                    if g & D:
                        kw.append("dagger=True")
                    if g & P:
                        kw.append("power=True")
                dec = "@guppy.declare" + (f"({', '.join(kw)})" if kw else "")
                params = ", ".join(f"a{i}: {t_}" for i, t_ in enumerate(ptys))
                self.globals_[name] = f"{dec}\ndef {name}({params}) -> {RTY[ret]}: ...\n"
            return f"{name}({', '.join(self.expr(a, st) for a in args)})"
        if t == "x":
            _, which, args = e
            inner = ", ".join(self.expr(a, st) for a in args)
            return f"barrier({inner})" if which == "barrier" else f'state_result("t", {inner})'
        if t == "t":
            return "(" + ", ".join(self.expr(a, st) for a in e[1]) + ")"
        raise AssertionError(e)

    def fresh(self):
        return {"q": 0, "elem": 0, "whole": False}

    def stmts(self, body, ind):
        out = []
        pad = "    " * ind
        for s in body:
            if s[0] == "e":
                out.append(pad + self.expr(s[1], self.fresh()))
            elif s[0] == "a":
                self.nassign += 1
                out.append(f"{pad}v{self.nassign} = {self.expr(s[1], self.fresh())}")
            elif s[0] == "at":
                st = self.fresh()
                out.append(f"{pad}xs[{self.expr(s[1], st)}] = {self.expr(s[2], st)}")
            elif s[0] == "i":
                out.append(f"{pad}if {self.expr(s[1], self.fresh())}:")
                out += self.stmts(s[2], ind + 1) or [pad + "    pass"]
                if s[3]:
                    out.append(pad + "else:")
                    out += self.stmts(s[3], ind + 1)
            elif s[0] == "w":
                out.append(f"{pad}while {self.expr(s[1], self.fresh())}:")
                out += self.stmts(s[2], ind + 1) or [pad + "    pass"]
            elif s[0] == "wb":
                items = []
                for j, m in enumerate(s[1]):
                    if m == "d":
                        items.append("dagger")
                    elif m == "p":
                        items.append("power(n)")
                    elif s[2] and "c" in s[1] and j == s[1].index("c"):
                        self.nsub += 1
                        assert self.nsub <= KSUB
                        if isinstance(s[2], tuple):
                            items.append(f"control(ks[{self.expr(s[2], self.fresh())}])")
                        else:
                            items.append(f"control(ks[{self.nsub - 1}])")
                    else:
                        self.nctrl += 1
                        assert self.nctrl <= KPOOL
                        items.append(f"control(k{self.nctrl - 1})")
                out.append(f"{pad}with {', '.join(items)}:")
                out += self.stmts(s[3], ind + 1) or [pad + "    pass"]
            else:
                raise AssertionError(s)
        return out

    def program(self, prog):
        body = self.stmts(prog["body"], 2 if prog["kind"] == "with" else 1)
        params = [f"q{i}: qubit" for i in range(QPOOL)] + [
            f"qs: array[qubit, {ARRN}]", "b: bool", "xs: array[bool, 2]", "n: nat", "c0: qubit", "c1: qubit",
            "ps: array[tuple[qubit, qubit], 2]", "rs: array[R, 2]",
        ] + [f"k{i}: qubit" for i in range(KPOOL)] + [f"ks: array[qubit, {KSUB}]"] + [f"{k}: {v}" for k, v in sorted(self.locals_.items())]
        src = "@guppy.struct\nclass R:\n    q: qubit\n" + "".join(self.globals_[k] for k in sorted(self.globals_))
        if prog["kind"] == "fn":
            u, c, d, p = prog["kw"]
            kw = [f"{n_}=True" for n_, v in zip(("unitary", "control", "dagger", "power"), (u, c, d, p)) if v]
            dec = "@guppy" + (f"({', '.join(kw)})" if kw else "")
            src += f"{dec}\ndef test({', '.join(params)}) -> None:\n" + "\n".join(body or ["    pass"]) + "\n"
        else:
            items, nc = [], 0
            for m in prog["mods"]:
                if m == "d":
                    items.append("dagger")
                elif m == "c":
                    items.append(f"control(c{nc})")
                    nc += 1
                else:
                    items.append("power(n)")
            assert nc <= 2
            src += (
                f"@guppy\ndef test({', '.join(params)}) -> None:\n    with {', '.join(items)}:\n"
                + "\n".join(body or ["        pass"]) + "\n"
            )
        return src


# ------------------------------------------------------------------ to the Lean model
def sx_expr(e):
    t = e[0]
    if t == "l":
        return "l"
    if t == "p":
        if len(e) > 3 and e[3]:
            return f"(p {e[1]} {sx_expr(e[3])})"
        return f"(p {e[1]} l)" if e[2] else f"(p {e[1]})"
    if t == "pa":
        return "(p 1)"
    if t == "c":
        return f"(c {e[1]} 0 {' '.join(sx_expr(a) for a in e[2])})"
    if t == "x":
        return f"(x {' '.join(sx_expr(a) for a in e[2])})"
    if t == "t":
        return f"(n 0 {' '.join(sx_expr(a) for a in e[1])})"
    raise AssertionError(e)


def sx_block(b):
    out = []
    for s in b:
        if s[0] == "e":
            out.append(f"(e {sx_expr(s[1])})")
        elif s[0] == "a":
            out.append(f"(a (p 0) {sx_expr(s[1])})")
        elif s[0] == "at":
            out.append(f"(a (p 0 {sx_expr(s[1])}) {sx_expr(s[2])})")
        elif s[0] == "i":
            out.append(f"(i {sx_expr(s[1])} ({sx_block(s[2])}) ({sx_block(s[3])}))")
        elif s[0] == "w":
            out.append(f"(w {sx_expr(s[1])} ({sx_block(s[2])}))")
        else:
            first = s[1].index("c") if "c" in s[1] else -1
            def carg(j):
                if s[2] and j == first:
                    return f"(p 1 {sx_expr(s[2])})" if isinstance(s[2], tuple) else "(p 1 l)"
                return "(p 1)"
            cargs = " ".join(carg(j) for j, m in enumerate(s[1]) if m == "c")
            out.append(f"(wb {flags_of_mods(s[1])} ({cargs}) ({sx_block(s[3])}))")
    return " ".join(out)


def flags_of_mods(ms):
    return (C if "c" in ms else 0) | (P if "p" in ms else 0) | (D if sum(1 for m in ms if m == "d") % 2 else 0)


def ctx_line(prog):
    if prog["kind"] == "fn":
        return "(kw " + " ".join(str(int(x)) for x in prog["kw"]) + ")"
    return "(wf " + " ".join(prog["mods"]) + ")"


# ------------------------------------------------------------------ independent oracle
def oracle_flags(prog):
    """flags the context requires, as a set of letters (independent of the Lean model)"""
    if prog["kind"] == "fn":
        u, c, d, p = prog["kw"]
        return {k for k, v in (("C", u or c), ("D", u or d), ("P", u or p)) if v}
    ms = prog["mods"]
    req = set()
    if "c" in ms:
        req.add("C")
    if "p" in ms:
        req.add("P")
    if sum(1 for m in ms if m == "d") % 2:
        req.add("D")
    return req


def _letters(g):
    return {k for k, bit in (("C", C), ("D", D), ("P", P)) if g & bit}


def oracle(prog):
    """the property's literal reading: (rejected?, reasons) scanning every call anywhere; the flags required at a
    position are those of the context plus those of every enclosing nested `with`"""
    reasons = set()

    def qarg(a):
        return a[0] == "pa" or (a[0] == "p" and a[1] == 1)

    def ex(e, req):
        t = e[0]
        if t == "c":
            if any(qarg(a) for a in e[2]) and not req <= _letters(e[1]):
                reasons.add("call")
            for a in e[2]:
                ex(a, req)
        elif t == "t":
            for a in e[1]:
                ex(a, req)
        elif t == "p":
            if e[2] and "D" in req:
                reasons.add("subscript")
            if len(e) > 3 and e[3]:
                ex(e[3], req)      # a call in the index expression of a subscripted place is a call like any other
        # "x": barrier / state_result excepted

    def bl(b, req):
        for s in b:
            if s[0] == "e":
                ex(s[1], req)
            elif s[0] == "a":
                if "D" in req:
                    reasons.add("assign")
                ex(s[1], req)
            elif s[0] == "at":
                if "D" in req:
                    reasons.add("assign")
                    reasons.add("subscript")
                ex(s[1], req); ex(s[2], req)
            elif s[0] == "i":
                ex(s[1], req); bl(s[2], req); bl(s[3], req)
            elif s[0] == "w":
                if "D" in req:
                    reasons.add("loop")
                ex(s[1], req); bl(s[2], req)
            else:
                if s[2] and "c" in s[1] and "D" in req:
                    reasons.add("subscript")  # control(ks[i]) where dagger is required
                if isinstance(s[2], tuple):
                    ex(s[2], req)             # control(ks[f(q)]): evaluated in the enclosing context
                bl(s[3], req | _letters(flags_of_mods(s[1])))

    bl(prog["body"], oracle_flags(prog))
    return (bool(reasons), reasons)


# ------------------------------------------------------------------ the real code
_enabled = False


def real(prog, want_meta=False):
    global _enabled
    import feed
    import guppylang

    if not _enabled:
        guppylang.enable_experimental_features()
        _enabled = True
    src = Printer().program(prog)
    prelude = feed.PRELUDE + (
        "from guppylang.std.quantum import qubit\nfrom guppylang.std.debug import state_result\n"
        "from collections.abc import Callable\n"
    )
    try:
        m = feed.load(src, prelude=prelude)
    except Exception as e:  # noqa: BLE001
        return "load-exception:" + type(e).__name__, src, None
    try:
        kind, exc = feed.check_outcome(m.test)
        meta = None
        if kind == "ok":
            res = "ok"
            if want_meta:
                try:
                    meta = read_meta(feed.lower(m.test), prog["kind"])
                except Exception as e:  # noqa: BLE001
                    meta = "lower-exception:" + type(e).__name__
        elif kind == "user":
            d = getattr(exc, "error", None)
            cls = type(d).__name__
            if cls == "UnitaryCallError":
                res = f"call:{d.flags.value}"
            elif cls == "InvalidUnderDagger":
                res = {"Loop": "loop", "Assignment": "assign"}.get(d.things, "iud:" + str(d.things))
            elif cls == "UnsupportedError" and getattr(d, "unsupported_in", "") == "dagger context":
                res = "subscript"
            else:
                res = "other:" + cls
        else:
            res = "crash:" + type(exc).__name__
        return res, src, meta
    finally:
        feed.unload(m)


def read_meta(g, kind):
    """('unitary' metadata of `test`, sorted metadata of all with-block functions)"""
    import hugr.ops as ops

    test, withs = [], []
    for n in g.hugr:
        op = g.hugr[n].op
        if isinstance(op, ops.FuncDefn):
            if op.f_name == "test":
                test.append(g.hugr[n].metadata.get("unitary"))
            elif op.f_name.startswith("__WithBlock__"):
                withs.append(g.hugr[n].metadata.get("unitary"))
    return [test, sorted(withs, key=str)]


def nested_own_flags(b):
    out = []
    for s in b:
        if s[0] == "wb":
            out += [flags_of_mods(s[1])] + nested_own_flags(s[3])
        elif s[0] == "i":
            out += nested_own_flags(s[2]) + nested_own_flags(s[3])
        elif s[0] == "w":
            out += nested_own_flags(s[2])
    return out


# ------------------------------------------------------------------ generators
def call(g, args, ret="b", local=False):
    return ("c", g, list(args), ret, local)


Q = ("p", 1, 0)
QS = ("p", 1, 1)
B = ("p", 0, 0)
XS = ("p", 0, 1)
PA = ("pa",)
LIT = ("l",)

MIXES = {
    "q": [Q], "b": [B], "qb": [Q, B], "bq": [B, Q], "a": [PA], "s": [QS], "none": [],
    "s2": [("p", 1, 2)], "s3b": [("p", 1, 3), B],
}
POSITIONS = ["stmt", "nested1", "nested2", "if", "while", "assign", "index_arg", "index_cond", "index_target", "index_nested"]


def place_call(pos, inner, outer_flags):
    """put the call `inner` (returning bool) at a position inside a block"""
    if pos == "stmt":
        return [("e", inner)]
    if pos == "nested1":  # first argument of an outer call that has all flags
        return [("e", call(outer_flags, [inner, Q], "n"))]
    if pos == "nested2":  # second argument, after a qubit argument (D7b)
        return [("e", call(outer_flags, [Q, inner], "n"))]
    if pos == "if":
        return [("i", inner, [], [])]
    if pos == "while":
        return [("w", inner, [])]
    if pos == "assign":
        return [("a", inner)]
    # the call sits in the index expression of a subscripted place (audit finding F2); `inner` returns int here
    if pos == "index_arg":      # qs[f(..)] passed as qubit argument to a callee that has every flag
        return [("e", call(outer_flags, [("p", 1, 1, inner)], "n"))]
    if pos == "index_cond":     # if xs[f(..)]:
        return [("i", ("p", 0, 1, inner), [], [])]
    if pos == "index_target":   # xs[f(..)] = True
        return [("at", inner, LIT)]
    if pos == "index_nested":   # xs[...] as classical argument after a qubit argument
        return [("e", call(outer_flags, [Q, ("p", 0, 1, inner)], "n"))]
    raise AssertionError(pos)


def contexts():
    out = []
    for f in range(8):
        out.append({"kind": "fn", "kw": (0, f & C and 1 or 0, f & D and 1 or 0, f & P and 1 or 0)})
    out.append({"kind": "fn", "kw": (1, 0, 0, 0)})
    out.append({"kind": "fn", "kw": (1, 0, 1, 0)})
    for mods in (["d"], ["c"], ["p"], ["d", "c"], ["d", "p"], ["c", "p"], ["d", "c", "p"], ["d", "d"],
                 ["d", "d", "d"], ["c", "c"], ["p", "d", "p"], ["c", "d", "d"], ["p", "c", "d"]):
        out.append({"kind": "with", "mods": mods})
    return out


def grid():
    for cx in contexts():
        for g in range(8):
            for mix in MIXES.values():
                for pos in POSITIONS:
                    p = dict(cx)
                    p["body"] = place_call(pos, call(g, mix, "i" if pos.startswith("index") else "b"), 7)
                    yield p


def nested_grid():
    """outer context x inner modifier list x callee flags x position, one qubit argument"""
    for cx in contexts():
        for mods in (["d"], ["c"], ["p"], ["c", "p"]):
            for g in range(8):
                for pos in ("stmt", "if", "nested2", "while", "index_arg", "index_cond"):
                    p = dict(cx)
                    p["body"] = [("wb", mods, 0, place_call(pos, call(g, [Q], "i" if pos.startswith("index") else "b"), 7))]
                    yield p
                if "c" in mods:  # control(ks[f(q)]): the index call is evaluated in the enclosing context
                    p = dict(cx)
                    p["body"] = [("wb", mods, call(g, [Q], "i"), [("e", call(7, [Q], "n"))])]
                    yield p


def rand_expr(rng, depth, budget, want_bool=True):
    """random bool-typed expression; budget tracks qubit resources {q, elem, whole}"""
    r = rng.random()
    if depth <= 0 or r < 0.15:
        return rng.choice([B, B, LIT, XS])
    if r < 0.22 and depth >= 1:
        return ("c", 0, [rand_expr(rng, depth - 1, budget)], "b", False)  # e.g. a classical wrapper
    nargs = rng.choice([0, 1, 1, 2, 2, 3])
    args = []
    for _ in range(nargs):
        k = rng.random()
        if k < 0.35 and budget["q"] < QPOOL:
            budget["q"] += 1
            args.append(Q)
        elif k < 0.45 and not budget["whole"] and budget["elem"] < ARRN:
            budget["elem"] += 1
            if rng.random() < 0.35 and not budget.get("dyn") and depth >= 1:
                budget["dyn"] = True
                inner = rand_expr(rng, depth - 1, budget)
                inner = ("c", inner[1], inner[2], "i", False) if inner[0] == "c" else call(rng.choice([0, 7]), [], "i")
                args.append(("p", 1, 1, inner))
            else:
                r2 = rng.random()
                if r2 < 0.2 and budget.get("ps", 0) < 2:
                    budget["ps"] = budget.get("ps", 0) + 1
                    args.append(("p", 1, 2))
                elif r2 < 0.4 and budget.get("rs", 0) < 2:
                    budget["rs"] = budget.get("rs", 0) + 1
                    args.append(("p", 1, 3))
                else:
                    args.append(QS)
        elif k < 0.52 and not budget["whole"] and budget["elem"] == 0:
            budget["whole"] = True
            args.append(PA)
        elif k < 0.8:
            args.append(rand_expr(rng, depth - 1, budget))
        elif k < 0.86:
            args.append(("t", [rand_expr(rng, depth - 1, budget), rand_expr(rng, depth - 1, budget)]))
        else:
            args.append(rng.choice([B, LIT, XS]))
    local = rng.random() < 0.08
    g = 0 if local else rng.choice([0, 1, 2, 3, 4, 5, 6, 7, 7, 7])
    return call(g, args, "b", local)


def rand_cond(rng, bud):
    """conditions are never literals: `if True` / `while True` make code unreachable, and unreachable
    basic blocks are dropped before any check"""
    e = rand_expr(rng, 2, bud)
    return B if e == LIT else e


def rand_stmt(rng, depth, req_hint):
    r = rng.random()
    bud = {"q": 0, "elem": 0, "whole": False}
    if r < 0.5 or depth <= 0:
        if rng.random() < 0.12:
            n = rng.choice([1, 2])
            args = []
            for _ in range(n):
                if rng.random() < 0.5 and bud["elem"] < ARRN:
                    bud["elem"] += 1
                    args.append(QS)
                else:
                    bud["q"] += 1
                    args.append(Q)
            return ("e", ("x", rng.choice(["barrier", "state_result"]), args))
        e = rand_expr(rng, 2, bud)
        if e[0] != "c":
            e = call(rng.choice([req_hint, 7, 0]), [e, Q] if bud["q"] < QPOOL else [e], "n")
        return ("e", e)
    if r < 0.56:
        return ("a", rand_expr(rng, 2, bud))
    if r < 0.62:
        idx = rand_expr(rng, 1, bud)
        idx = ("c", idx[1], idx[2], "i", False) if idx[0] == "c" else call(rng.choice([0, 3, 7]), [Q], "i")
        return ("at", idx, rng.choice([LIT, B]))
    if r < 0.74:
        mods = rng.choice([["d"], ["c"], ["p"], ["c", "p"], ["d", "c"], ["p", "d"], ["d", "d"], ["c", "c"], ["d", "p", "c"]])
        return ("wb", mods, 0, rand_block(rng, depth - 1, req_hint | flags_of_mods(mods), 2))
    if r < 0.9:
        return ("i", rand_cond(rng, bud), rand_block(rng, depth - 1, req_hint, 2), rand_block(rng, depth - 1, req_hint, 1) if rng.random() < 0.5 else [])
    return ("w", rand_cond(rng, bud), rand_block(rng, depth - 1, req_hint, 2))


def rand_block(rng, depth, req_hint, maxlen=3):
    return [rand_stmt(rng, depth, req_hint) for _ in range(rng.randrange(0, maxlen + 1))]


def bias_flags(prog, body, rng):
    """with probability ~1/2 lift callee flags to the context's requirement so that accepted programs
    and single-violation programs are common"""
    req = sum(bit for k, bit in (("C", C), ("D", D), ("P", P)) if k in oracle_flags(prog))
    keep_bad = rng.random() < 0.5

    def ex(e, allow_bad):
        t = e[0]
        if t == "c":
            g = e[1]
            if not e[4] and not (allow_bad[0] and rng.random() < 0.3):
                g = g | req
            elif g & req != req:
                allow_bad[0] = False if rng.random() < 0.7 else allow_bad[0]
            return ("c", g, [ex(a, allow_bad) for a in e[2]], e[3], e[4])
        if t == "t":
            return ("t", [ex(a, allow_bad) for a in e[1]])
        if t == "p" and len(e) > 3 and e[3]:
            return ("p", e[1], e[2], ex(e[3], allow_bad))
        return e

    ab = [keep_bad]

    def bl(b):
        out = []
        for s in b:
            if s[0] in ("e", "a"):
                out.append((s[0], ex(s[1], ab)))
            elif s[0] == "at":
                out.append(("at", ex(s[1], ab), s[2]))
            elif s[0] == "i":
                out.append(("i", ex(s[1], ab), bl(s[2]), bl(s[3])))
            elif s[0] == "w":
                out.append(("w", ex(s[1], ab), bl(s[2])))
            else:
                out.append(("wb", s[1], s[2], bl(s[3])))
        return out

    return bl(body)


def rand_prog(rng):
    cx = dict(rng.choice(contexts()))
    req = sum(bit for k, bit in (("C", C), ("D", D), ("P", P)) if k in oracle_flags(cx))
    body = rand_block(rng, 2, req, 3)
    if "D" in oracle_flags(cx) and rng.random() < 0.7:
        # keep most daggered programs free of loops/assignments/subscripts so that calls get exercised
        body = strip_dagger_hostile(body)
    cx["body"] = bias_flags(cx, body, rng)
    return cx


def strip_dagger_hostile(body):
    def ex(e):
        t = e[0]
        if t == "p" and e[2]:
            return Q if e[1] else B
        if t == "c":
            return ("c", e[1], [ex(a) for a in e[2]], e[3], e[4])
        if t == "t":
            return ("t", [ex(a) for a in e[1]])
        if t == "x":
            return ("x", e[1], [ex(a) for a in e[2]])
        return e

    out = []
    for s in body:
        if s[0] == "e":
            out.append(("e", ex(s[1])))
        elif s[0] == "a":
            out.append(("e", call(7, [ex(s[1])], "n")))
        elif s[0] == "at":
            out.append(("e", call(7, [B], "n")))
        elif s[0] == "i":
            out.append(("i", ex(s[1]), strip_dagger_hostile(s[2]), strip_dagger_hostile(s[3])))
        elif s[0] == "w":
            out.append(("i", ex(s[1]), strip_dagger_hostile(s[2]), []))
        else:
            out.append(("wb", s[1], 0, strip_dagger_hostile(s[3])))
    return out


def has_nested(b):
    return any(s[0] == "wb" or (s[0] == "i" and (has_nested(s[2]) or has_nested(s[3]))) or
               (s[0] == "w" and has_nested(s[2])) for s in b)


def nested_letters(b):
    out = set()
    for s in b:
        if s[0] == "wb":
            out |= _letters(flags_of_mods(s[1])) | nested_letters(s[3])
        elif s[0] == "i":
            out |= nested_letters(s[2]) | nested_letters(s[3])
        elif s[0] == "w":
            out |= nested_letters(s[2])
    return out


def qubits_ok(prog):
    """resource check: the printer asserts on over-use"""
    try:
        Printer().program(prog)
        return True
    except AssertionError:
        return False


def _tup(x):
    return tuple(_tup(i) for i in x) if isinstance(x, (list, tuple)) else x


def _norm(prog):
    p = dict(prog)
    p["body"] = _tup(p["body"])
    if "kw" in p:
        p["kw"] = tuple(p["kw"])
    if "mods" in p:
        p["mods"] = list(p["mods"])
    return p


def cases(ctx):
    progs = []
    corpus = os.path.join(vlib.VERIF, "corpus", "c24")
    if os.path.isdir(corpus):
        for fn in sorted(os.listdir(corpus)):
            data = json.load(open(os.path.join(corpus, fn)))
            if isinstance(data, dict):
                continue          # whole-program witnesses ({"source", "expect"}): see program_cases
            for r in data:
                progs.append(_norm(r))
    if ctx.replay_in and "program" in ctx.replay_in["replay"]:
        progs.append(_norm(ctx.replay_in["replay"]["program"]))
    rng = ctx.rng
    g = [p_ for p_ in grid() if qubits_ok(p_)]          # drops resource-impossible combinations (qs[f(qs)])
    ng = [p_ for p_ in nested_grid() if qubits_ok(p_)]
    if ctx.quick:
        progs += rng.sample(g, 200) + rng.sample(ng, 80)
        nrand = 220
    else:
        progs += g + ng
        nrand = 8000
        ctx.extra["exhaustive"] = True
        ctx.extra["exhaustive_note"] = (
            f"full grid: {len(contexts())} contexts (10 decorator forms incl. unitary=True, 13 modifier lists) x 8 callee "
            f"flag sets x {len(MIXES)} argument mixes x {len(POSITIONS)} positions = {len(g)} programs; nested grid: the same contexts x 4 inner modifier lists x 8 callee flag sets x 4 positions = {len(ng)} programs"
        )
    n = 0
    while n < nrand:
        p = rand_prog(rng)
        if p["body"] and qubits_ok(p):
            progs.append(_norm(p))
            n += 1
    return progs


# ------------------------------------------------------------------ whole-program cases (source text + expected outcome per function)
FLAG_KW = {0: "", 1: "control=True", 2: "dagger=True", 3: "control=True, dagger=True", 4: "power=True",
           5: "control=True, power=True", 6: "dagger=True, power=True", 7: "unitary=True"}


def _sub(f, g):
    return f & g == f


def reused_decorator_programs():
    """one decorator object applied to several functions (`ctl = guppy(control=True)`, also guppy.declare(...)): every
    function decorated with it must behave as declared.  expected by the flag-subset rule."""
    out = []
    for f in range(1, 8):
        for g in range(8):
            exp = "ok" if _sub(f, g) else "UnitaryCallError"
            src = (
                "from guppylang.std.quantum import qubit\n"
                f"ctx = guppy({FLAG_KW[f]})\ndecl = guppy.declare({FLAG_KW[g]})\n"
                "@decl\ndef callee_a(q: qubit) -> None: ...\n@decl\ndef callee_b(q: qubit) -> None: ...\n"
                "@decl\ndef callee_c(q: qubit) -> None: ...\n"
                "@ctx\ndef first(q: qubit) -> None:\n    callee_a(q)\n"
                "@ctx\ndef second(q: qubit) -> None:\n    callee_b(q)\n"
                "@ctx\ndef third(q: qubit) -> None:\n    callee_c(q)\n    callee_a(q)\n"
            )
            out.append({"name": f"reused:{f}:{g}", "source": src, "expect": {"first": exp, "second": exp, "third": exp},
                        "meta": {"first": f, "second": f, "third": f}})
    return out


def generic_value_programs():
    """a flagged GENERIC function called / used as a value / instantiated explicitly / passed on, inside a flagged
    context: accepted exactly when the flag-subset rule says so, i.e. exactly when its non-generic twin is"""
    out = []
    for f in range(1, 8):
        for g in range(8):
            exp = "ok" if _sub(f, g) else "UnitaryCallError"
            src = (
                "from guppylang.std.quantum import qubit\nfrom collections.abc import Callable\n"
                'T = guppy.type_var("T", copyable=True, droppable=True)\n'
                f"@guppy.declare({FLAG_KW[g]})\ndef gen(q: qubit, x: T) -> None: ...\n"
                f"@guppy.declare({FLAG_KW[g]})\ndef mono(q: qubit, x: int) -> None: ...\n"
                f"@guppy({FLAG_KW[f]})\ndef call_gen(q: qubit) -> None:\n    gen(q, 1)\n"
                f"@guppy({FLAG_KW[f]})\ndef call_mono(q: qubit) -> None:\n    mono(q, 1)\n"
                f"@guppy({FLAG_KW[f]})\ndef inst_gen(q: qubit) -> None:\n    gen[int](q, 1)\n"
            )
            expect = {"call_gen": exp, "call_mono": exp, "inst_gen": exp}
            if not f & D:      # `g = …` is an assignment: not allowed under dagger
                src += (
                    f"@guppy({FLAG_KW[f]})\ndef val_gen(q: qubit) -> None:\n    g = gen\n    g(q, 1)\n"
                    f"@guppy({FLAG_KW[f]})\ndef val_mono(q: qubit) -> None:\n    g = mono\n    g(q, 1)\n"
                    f"@guppy({FLAG_KW[f]})\ndef val_inst(q: qubit) -> None:\n    g = gen[int]\n    g(q, 1)\n"
                )
                expect.update({"val_gen": exp, "val_mono": exp, "val_inst": exp})
            out.append({"name": f"generic:{f}:{g}", "source": src, "expect": expect, "meta": {}})
    return out


def program_cases(ctx):
    out = []
    corpus = os.path.join(vlib.VERIF, "corpus", "c24")
    if os.path.isdir(corpus):
        for fn in sorted(os.listdir(corpus)):
            data = json.load(open(os.path.join(corpus, fn)))
            if isinstance(data, dict) and "source" in data:
                out.append({"name": "corpus:" + fn, "source": data["source"], "expect": data["expect"], "meta": {}})
    if ctx.replay_in and "whole_program" in ctx.replay_in["replay"]:
        out.append(ctx.replay_in["replay"]["whole_program"])
    rp, gp = reused_decorator_programs(), generic_value_programs()
    if ctx.quick:
        out += ctx.rng.sample(rp, 14) + ctx.rng.sample(gp, 14)
    else:
        out += rp + gp
    return out


def tie_programs(ctx):
    global _enabled
    import feed
    import guppylang

    if not _enabled:
        guppylang.enable_experimental_features()
        _enabled = True
    for pc in program_cases(ctx):
        try:
            m = feed.load(pc["source"])
        except Exception as e:  # noqa: BLE001
            ctx.violation("program:" + pc["name"], f"program does not load: {type(e).__name__}: {e}\n{pc['source']}",
                          {"whole_program": pc})
            continue
        try:
            for fn, want in pc["expect"].items():
                kind, exc = feed.check_outcome(getattr(m, fn))
                got = "ok" if kind == "ok" else feed.err_class(exc) if kind == "user" else "crash:" + type(exc).__name__
                meta_ok = True
                if got == "ok" and fn in pc.get("meta", {}):
                    try:
                        meta_ok = read_meta_of(feed.lower(getattr(m, fn)), fn) == [pc["meta"][fn]]
                    except Exception:  # noqa: BLE001
                        meta_ok = False
                key = f"program:{pc['name']}:{fn}"
                ctx.count(key, nontrivial=(want != "ok"), kind="program:" + pc["name"].split(":")[0] + ":" + got)
                if got != want:
                    ctx.violation(key, f"function `{fn}` is expected to give {want} (flag-subset rule: every function behaves as "
                                  f"declared) but the real check() gives {got}:\n{pc['source']}", {"whole_program": pc, "function": fn, "real": got})
                elif not meta_ok:
                    ctx.violation(key + ":meta", f"`unitary` metadata of `{fn}` is not {pc['meta'][fn]}:\n{pc['source']}",
                                  {"whole_program": pc, "function": fn})
        finally:
            feed.unload(m)


def read_meta_of(g, name):
    import hugr.ops as ops

    return [g.hugr[n].metadata.get("unitary") for n in g.hugr
            if isinstance(g.hugr[n].op, ops.FuncDefn) and g.hugr[n].op.f_name == name]


def tie(ctx):
    tie_programs(ctx)
    progs = cases(ctx)
    lines, idx = [], []
    for p in progs:
        kind = "fn" if p["kind"] == "fn" else "with"
        lines.append(ctx_line(p))
        idx.append(len(lines) - 1)
    flag_vals = ctx.driver(DRIVER, lines)
    chk_lines = []
    for p, fv in zip(progs, flag_vals):
        kind = "fn" if p["kind"] == "fn" else "with"
        chk_lines.append(f"(chk {kind} {fv} ({sx_block(p['body'])}))")
    verdicts = ctx.driver(DRIVER, chk_lines)
    meta_every = 4 if ctx.quick else 6
    nmeta = 0
    for i, (p, fv, mv, line) in enumerate(zip(progs, flag_vals, verdicts, chk_lines)):
        rej, reasons = oracle(p)
        req = oracle_flags(p)
        want_meta = (not rej) and (i % meta_every == 0)
        r, src, meta = real(p, want_meta)
        key = "prog:" + json.dumps(p, sort_keys=True)
        ctx.count(key, nontrivial=("call" in reasons), kind=f"{p['kind']}:{r.split(':')[0]}")
        replay = {"program": p, "source": src, "real": r, "model": mv, "oracle": sorted(reasons),
                  "required": sorted(req), "model_flags": fv}
        if r.startswith(("other:", "crash:", "load-exception:")):
            ctx.broke(f"generated program hit a non-unitary diagnostic ({r}); generator/printer assumption broken:\n{src}")
            continue
        # --- property oracle on the real code
        real_rej = r != "ok"
        if real_rej != rej:
            ctx.violation(key, f"real check() {'rejects' if real_rej else 'accepts'} ({r}) but the flag-subset rule says "
                          f"{'reject ' + str(sorted(reasons)) if rej else 'accept'}:\n{src}", replay)
        elif rej:
            # class of the diagnostic must be one the oracle expects
            cls = r.split(":")[0]
            if "D" in req and reasons & {"loop", "assign"} and not has_nested(p["body"]) and '"at"' not in json.dumps(p["body"]):
                ok_cls = cls in ("loop", "assign") and cls in reasons
            else:
                ok_cls = cls in reasons
            if not ok_cls:
                ctx.violation(key, f"real diagnostic {r} is not among the expected reasons {sorted(reasons)}:\n{src}", replay)
            if cls == "call":
                # the reported flags must be required flags
                rep = _letters(int(r.split(":")[1]))
                if not rep or not rep <= (req | nested_letters(p["body"])):
                    ctx.violation(key, f"UnitaryCallError reports flags {sorted(rep)} not all required {sorted(req)}:\n{src}", replay)
        # --- model vs real
        want = sum(bit for k, bit in (("C", C), ("D", D), ("P", P)) if k in req)
        if str(want) != fv:
            ctx.broke(f"model context flags {fv} != oracle {want} for {ctx_line(p)}")
        if mv == "ok" or r == "ok":
            agree = mv == r
        elif mv.startswith("pre "):
            agree = mv[4:] == r
        else:
            ms = set(mv.split()[1:])
            agree = r in ms and (len(ms) > 1 or ms == {r})
        if not agree:
            ctx.broke(f"correspondence Model/Unitary.lean vs real check(): model={mv} real={r} on `{line}`")
        if want_meta:
            nmeta += 1
            nested = nested_own_flags(p["body"])
            exp_meta = [[want], sorted(nested)] if p["kind"] == "fn" else [[0], sorted([want] + nested)]
            if meta != exp_meta:
                ctx.violation("meta:" + key, f"'unitary' metadata on the lowered FuncDefns is {meta}, expected {exp_meta} "
                              f"([test], [with-block functions]):\n{src}", dict(replay, meta=meta))
            mod_meta = [[int(fv)], sorted(nested)] if p["kind"] == "fn" else [[0], sorted([int(fv)] + nested)]
            if meta != mod_meta:
                ctx.broke(f"metadata {meta} != model flags value {mod_meta}")
    ctx.extra["metadata_checked_programs"] = nmeta


def search(ctx, why):
    """something broke and no concrete failing input yet: sweep the full grid against the oracle"""
    for p in grid():
        p = _norm(p)
        rej, reasons = oracle(p)
        r, src, _ = real(p)
        if r.startswith(("other:", "crash:", "load-exception:")):
            continue
        if (r != "ok") != rej:
            ctx.violation("prog:" + json.dumps(p, sort_keys=True),
                          f"real check() gives {r}, flag-subset rule says {'reject' if rej else 'accept'}:\n{src}",
                          {"program": p, "source": src, "real": r, "oracle": sorted(reasons)})
            return


if __name__ == "__main__":
    vlib.main(sys.modules[__name__])
