"""C08 — Use-before-definition and path-dependent types are rejected exactly."""
from __future__ import annotations

import ast
import json
import os
import sys

sys.path.insert(0, os.path.dirname(os.path.dirname(os.path.abspath(__file__))))
import vlib
sys.path.insert(0, os.path.dirname(os.path.abspath(__file__)))

PID = "C08"
THEOREM_MODULES = ["GuppyVerif.Props.C08"]
DRIVER = "C08"
RULE = (
    "random structured Guppy functions (assignments of int/float/bool literals to 4 locals, 2 arguments and one name that "
    "shadows a global; bare reads; if/elif/else, while, for-range, break, continue, return; literal True/False conditions; "
    "nested function definitions reading outer variables; reads of never-assigned names) printed as source and checked by the "
    "REAL check(); the real CFG handed to check_cfg is captured and abstracted to use/assign events. Non-trivial = some variable "
    "is assigned on some but not all paths to a read, or re-typed; distinct by source text"
)
ASSUMPTIONS = [
    "the CFG is the one the real CFGBuilder produces (C03 covers the builder); events are extracted from the real BB statements by a visitor written for this check (reads = Name loads, writes = Name stores, in statement order)",
    "type tags: a literal's Python type; builder temporaries of for-loops tagged by role (iterator / optional / element)",
    "VarNotDefinedError and VarMaybeNotDefinedError are one class ('not defined', same diagnostic title)",
    "among several undefined (or several re-typed) variables the one named in the diagnostic must be one of the candidates (dict iteration order decides which; C10 covers determinism)",
]
UNMODELLED = [
    "statement-level type checking inside blocks (StmtChecker/ExprSynthesizer) — generated statements are literals and bare reads that always type-check",
    "comprehension scopes, modified blocks, attribute assignment targets (subscript targets `xs[k] = v` and self-referencing ann/plain/aug assignments of an int-only variable are generated)",
]
MANIFEST = {
    "level_text": "Lean theorems over ALL CFGs with arbitrary event lists (no size bound): the model of check_cfg's BFS with block "
    "signatures rejects as 'not defined' exactly when some variable that is local (assigned somewhere) and not a parameter — or neither "
    "assigned nor global — is read on a path from the entry before any assignment (real and dummy edges), using the C09 theorems for the "
    "analyses; in every later block the definedness test provably cannot fire and check_rows_match provably never sees rows with different "
    "keys (the KeyError branch is unreachable); a BranchTypeError is raised iff (no variable being undefined) some variable reaches a block with two different types along two followed paths and is read afterwards (branchtype_iff: soundness and completeness of the BFS comparison). The model is "
    "tied to cfg_checker.py on every run: generated programs go through the real check(), the captured real CFG is replayed in the Lean "
    "model, and an independent path-enumeration oracle decides the property's literal statement on that CFG. Paths follow real and "
    "never-taken (dummy) edges out of every block (since /repo fix c2cff50; before, check_cfg followed dummy edges only out of the entry block). "
    "Under the hypothesis Pruned (evaluated on every captured CFG) typed paths into reachable blocks use real edges only "
    "(reachable_types_from_real_paths) and a 'not defined' rejection stems from a real path or from a read inside unreachable code (undef_real_or_dead).",
    "level_note": "Trusted: Lean kernel + 3 standard axioms; event abstraction of statements (reads/writes of names, literal type tags); "
    "nested function definitions and for-loop temporaries are abstracted by the harness into events; the model terminates with an explicit "
    "fuel bound (check_terminates). Three oracles: path search on the captured real CFG, and two source-level analyses independent of the CFG "
    "builder and of the BFS (variables read before assignment; variables read with two types). Pruned is an assumption about CFGBuilder.build, checked per CFG, not proved of the builder.",
    "technique": "Lean 4 proof (BFS invariant over block signatures on top of the C09 liveness theorems) + correspondence on captured real CFGs + path-enumeration oracle",
    "design_ref": "DESIGN.md §5 C08",
    "ready": True,
}

VARS = ["v1", "v2", "v3", "v4"]
ARGS = [("a1", "int"), ("a2", "int")]
IDX = "k1"      # only ever assigned ints; read as the index of `xs[k1] = 1` (a subscript assignment TARGET reads k1 and xs)
ARR = ("xs", "array[int, 3]")  # extra borrowed parameter, never reassigned
GLOBAL = "gl"   # a declared global function; may be shadowed by assignment
UNDEF = "zz"    # never assigned, not global
TYPES = {"int": "1", "float": "1.5", "bool": "True"}

PRELUDE_EXTRA = "import guppylang\nguppylang.enable_experimental_features()\n@guppy.declare\ndef gl() -> int: ...\n"

# ------------------------------------------------------------------ generator


def gen_block(rng, depth, in_loop, names, budget):
    out = []
    n = rng.randint(1, 4 if depth == 0 else 3)
    for _ in range(n):
        if budget[0] <= 0:
            break
        budget[0] -= 1
        r = rng.random()
        if r < 0.32:
            x = rng.choice(names["assignable"])
            out.append(("asg", x, rng.choice(list(TYPES))))
        elif r < 0.52:
            out.append(("use", rng.choice(names["readable"])))
        elif r < 0.70 and depth < 3:
            c = gen_cond(rng, names)
            t = gen_block(rng, depth + 1, in_loop, names, budget)
            e = gen_block(rng, depth + 1, in_loop, names, budget) if rng.random() < 0.6 else []
            out.append(("if", c, t, e))
        elif r < 0.80 and depth < 3:
            c = gen_cond(rng, names)
            out.append(("while", c, gen_block(rng, depth + 1, True, names, budget)))
        elif r < 0.86 and depth < 3:
            tgt = rng.choice(names["assignable"][:4] + ["i"])
            out.append(("for", tgt, gen_block(rng, depth + 1, True, names, budget)))
        elif r < 0.90 and in_loop:
            out.append((rng.choice(["break", "continue"]),))
            if rng.random() < 0.5:
                break  # otherwise keep generating: dead code after the jump
            recent = [t[1] for t in out if t[0] == "asg"]
            if recent and rng.random() < 0.7:
                out.append(("use", recent[-1]))
        elif r < 0.93:
            out.append(("return",))
            if rng.random() < 0.4:
                break  # otherwise keep generating: dead code after the return
            recent = [t[1] for t in out if t[0] == "asg"]
            if recent and rng.random() < 0.7:
                out.append(("use", recent[-1]))  # dead code reading what the live code just assigned
        elif r < 0.97 and depth < 2 and names["nested"] < 2:
            names["nested"] += 1
            cap = rng.sample(names["readable"][:6], rng.randint(0, 2))
            out.append(("nested", f"h{names['nested']}", cap))
        elif r < 0.978:
            out.append(("seti", IDX))
        elif r < 0.992:
            # self-referencing (re)assignment of the int-only variable: reads it, then assigns it
            out.append(("inc", IDX, rng.choice(["ann", "plain", "aug"])))
        else:
            out.append(("use", rng.choice(names["readable"])))
        if rng.random() < 0.06:
            out.append(("asg", IDX, "int"))
    return out


def gen_cond(rng, names):
    r = rng.random()
    if r < 0.55:
        return ("arg", "c")
    if r < 0.70:
        return ("const", rng.choice(["True", "False"]))
    return ("var", rng.choice(names["readable"][:6]))


def gen_program(rng):
    shadow = rng.random() < 0.25
    names = {
        "assignable": VARS + [a for a, _ in ARGS] + ([GLOBAL] if shadow else []),
        "readable": VARS + [a for a, _ in ARGS] + [GLOBAL] + ([UNDEF] if rng.random() < 0.1 else []) + [IDX],
        "nested": 0,
    }
    body = gen_block(rng, 0, False, names, [rng.randint(4, 14)])
    if rng.random() < 0.12:
        # whole body is dead code behind an initial return: the entry block's dummy successor
        body = [("return",)] + body
    if rng.random() < 0.6:
        # prologue defining most locals, so that re-typing (not undefinedness) decides
        pro = [("asg", x, rng.choice(list(TYPES))) for x in VARS if rng.random() < 0.85]
        if rng.random() < 0.8:
            pro.append(("asg", IDX, "int"))
        body = pro + body
    return body


def show(body, ind=1):
    pad = "    " * ind
    lines = []
    for s in body:
        k = s[0]
        if k == "asg":
            lines.append(f"{pad}{s[1]} = {TYPES[s[2]]}")
        elif k == "use":
            lines.append(f"{pad}{s[1]}")
        elif k == "seti":
            lines.append(f"{pad}{ARR[0]}[{s[1]}] = 1")
        elif k == "inc":
            lines.append(pad + {"ann": f"{s[1]}: int = {s[1]} + 1", "plain": f"{s[1]} = {s[1]} + 1", "aug": f"{s[1]} += 1"}[s[2]])
        elif k == "if":
            lines.append(f"{pad}if {show_cond(s[1])}:")
            lines += show(s[2], ind + 1) or [f"{pad}    pass"]
            if s[3]:
                lines.append(f"{pad}else:")
                lines += show(s[3], ind + 1)
        elif k == "while":
            lines.append(f"{pad}while {show_cond(s[1])}:")
            lines += show(s[2], ind + 1) or [f"{pad}    pass"]
        elif k == "for":
            lines.append(f"{pad}for {s[1]} in range(2):")
            lines += show(s[2], ind + 1) or [f"{pad}    pass"]
        elif k in ("break", "continue"):
            lines.append(f"{pad}{k}")
        elif k == "return":
            lines.append(f"{pad}return 0")
        elif k == "nested":
            lines.append(f"{pad}def {s[1]}(p: int) -> int:")
            for x in s[2]:
                lines.append(f"{pad}    {x}")
            lines.append(f"{pad}    return p")
    return lines


def show_cond(c):
    return c[1]


def source(body):
    args = ", ".join(["c: bool"] + [f"{a}: {t}" for a, t in ARGS] + [f"{ARR[0]}: {ARR[1]}"])
    return f"@guppy\ndef f({args}) -> int:\n" + "\n".join(show(body) or ["    pass"]) + "\n    return 0\n"


def nested_caps(body, acc=None):
    acc = {} if acc is None else acc
    for s in body:
        if s[0] == "nested":
            acc[s[1]] = list(s[2])
        elif s[0] == "if":
            nested_caps(s[2], acc)
            nested_caps(s[3], acc)
        elif s[0] in ("while", "for"):
            nested_caps(s[2], acc)
    return acc


# ------------------------------------------------------------------ running the real checker, capturing the CFG


def tag_of(value, idx=None):
    from guppylang_internals import nodes

    if isinstance(value, ast.Constant):
        return type(value.value).__name__
    if isinstance(value, nodes.MakeIter):
        return "iter"
    if isinstance(value, nodes.IterNext):
        return "opt"
    if isinstance(value, ast.Call) and isinstance(value.func, ast.Attribute) and value.func.attr == "unwrap":
        return ["int", "iter"][idx] if idx is not None and idx < 2 else f"unwrap{idx}"
    if (isinstance(value, ast.BinOp) and isinstance(value.left, ast.Name) and value.left.id == IDX
            and isinstance(value.right, ast.Constant) and type(value.right.value) is int):
        return "int"  # `k1 + 1`: k1 is only ever an int
    return "expr:" + type(value).__name__ + (f"#{idx}" if idx is not None else "")


def loads(node):
    return [n.id for n in ast.walk(node) if isinstance(n, ast.Name)]


def events_of(stmt, caps):
    from guppylang_internals import nodes

    ev = []
    if isinstance(stmt, nodes.NestedFunctionDef):
        params = {a.arg for a in stmt.args.args}
        for x in caps.get(stmt.name, []):
            if x not in params and x != stmt.name:
                ev.append(("u", x))
        ev.append(("a", stmt.name, "fn"))
    elif isinstance(stmt, ast.Assign):
        ev += [("u", x) for x in loads(stmt.value)]
        for t in stmt.targets:
            if isinstance(t, ast.Name):
                ev.append(("a", t.id, tag_of(stmt.value)))
            elif isinstance(t, ast.Tuple):
                for i, e in enumerate(t.elts):
                    if isinstance(e, ast.Name):
                        ev.append(("a", e.id, tag_of(stmt.value, i)))
                    else:
                        ev += [("u", x) for x in loads(e)]
            else:
                ev += [("u", x) for x in loads(t)]
    elif isinstance(stmt, ast.AnnAssign):
        # Python (and the property) evaluate the value first, then bind the target; the annotation reads nothing
        if stmt.value is not None:
            ev += [("u", x) for x in loads(stmt.value)]
            if isinstance(stmt.target, ast.Name):
                ev.append(("a", stmt.target.id, tag_of(stmt.value)))
            else:
                ev += [("u", x) for x in loads(stmt.target)]
    elif isinstance(stmt, ast.AugAssign):
        ev += [("u", x) for x in loads(stmt.target)] + [("u", x) for x in loads(stmt.value)]
        if isinstance(stmt.target, ast.Name):
            ev.append(("a", stmt.target.id, "int" if stmt.target.id == IDX else "expr:AugAssign"))
    elif isinstance(stmt, (ast.Expr, ast.Return)):
        if stmt.value is not None:
            ev += [("u", x) for x in loads(stmt.value)]
    else:
        ev += [("u", x) for x in loads(stmt)]
    return ev


def run_real(src, caps, sched=None):
    """returns (outcome, captured) ; outcome = ('ok',) | ('undefined', var) | ('branchType', var) | ('other', cls)"""
    import feed
    import guppylang_internals.checker.cfg_checker as cc
    import guppylang_internals.checker.func_checker as fc

    captured = []
    orig = cc.check_cfg

    def wrap(cfg, inputs, return_ty, generic_params, func_name, globals):
        if func_name == "f":
            blocks = []
            for bb in cfg.bbs:
                ev = []
                for s in bb.statements:
                    ev += events_of(s, caps)
                if bb.branch_pred is not None:
                    ev += [("u", x) for x in loads(bb.branch_pred)]
                blocks.append({"idx": bb.idx, "succ": [s.idx for s in bb.successors],
                               "dsucc": [s.idx for s in bb.dummy_successors], "reachable": bb.reachable, "ev": ev})
            names = set()
            for b in blocks:
                for e in b["ev"]:
                    names.add(e[1])
            gl = sorted(x for x in names if x in globals or x in generic_params)
            captured.append({"blocks": blocks, "entry": cfg.entry_bb.idx, "exit": cfg.exit_bb.idx,
                             "args": [(v.name, str(v.ty)) for v in inputs], "globals": gl})
        return orig(cfg, inputs, return_ty, generic_params, func_name, globals)

    fc.check_cfg = wrap
    undo = (lambda: None)
    if sched is not None:
        import c09
        undo = c09._install(sched)
    try:
        m = feed.load(src, prelude=feed.PRELUDE + PRELUDE_EXTRA)
        k, e = feed.check_outcome(m.f)
        feed.unload(m)
    finally:
        fc.check_cfg = orig
        undo()
    if k == "ok":
        out = ("ok",)
    elif k == "user":
        cls = feed.err_class(e)
        d = getattr(e, "error", None)
        if cls in ("VarNotDefinedError", "VarMaybeNotDefinedError"):
            out = ("undefined", d.var)
        elif cls == "BranchTypeError":
            ident = d.ident
            out = ("branchType", ident[len("Variable `"):-1] if ident.startswith("Variable `") else "%expr")
        else:
            out = ("other", cls)
    else:
        out = ("other", "crash:" + type(e).__name__)
    return out, (captured[0] if captured else None)


# ------------------------------------------------------------------ independent oracle on the captured CFG


def oracle(cap):
    blocks = {b["idx"]: b for b in cap["blocks"]}
    entry = cap["entry"]
    args = {a for a, _ in cap["args"]}
    argty = dict(cap["args"])
    AS = set(args)
    for b in blocks.values():
        for e in b["ev"]:
            if e[0] == "a":
                AS.add(e[1])
    allnames = set(AS)
    for b in blocks.values():
        for e in b["ev"]:
            allnames.add(e[1])
    glob = set(cap["globals"])
    edges = {i: b["succ"] + b["dsucc"] for i, b in blocks.items()}
    # 1. undefined: path from entry to a read of x with no write before
    undefined = set()
    for x in allnames:
        if x in args:
            continue
        if not (x in AS or x not in glob):
            continue
        seen, stack, bad = set(), [entry], False
        while stack and not bad:
            b = stack.pop()
            if b in seen:
                continue
            seen.add(b)
            killed = False
            for e in blocks[b]["ev"]:
                if e[1] != x:
                    continue
                if e[0] == "u":
                    bad = True
                    break
                killed = True
                break
            if not killed and not bad:
                stack += edges[b]
        if bad:
            undefined.add(x)
    if undefined:
        return ("undefined", undefined)
    # 2. path-dependent types of a variable that is read after the join
    def live_at(b0, x):
        seen, stack = set(), [b0]
        while stack:
            b = stack.pop()
            if b in seen:
                continue
            seen.add(b)
            killed = False
            for e in blocks[b]["ev"]:
                if e[1] == x:
                    if e[0] == "u":
                        return True
                    killed = True
                    break
            if not killed:
                stack += edges[b]
        return False

    # blocks the BFS visits: reachable from the entry over real and dummy edges
    visited, stack = {entry}, list(blocks[entry]["succ"] + blocks[entry]["dsucc"])
    while stack:
        b = stack.pop()
        if b in visited:
            continue
        visited.add(b)
        stack += blocks[b]["succ"] + blocks[b]["dsucc"]
    T = {b: {} for b in blocks}  # var -> set of type tags at block entry
    for a in args:
        T[entry][a] = {argty[a]}
    changed = True
    while changed:
        changed = False
        for b in visited:
            out = {x: set(ts) for x, ts in T[b].items()}
            for e in blocks[b]["ev"]:
                if e[0] == "a":
                    out[e[1]] = {e[2]}
            succs = blocks[b]["succ"] + blocks[b]["dsucc"]
            for s in succs:
                for x, ts in out.items():
                    cur = T[s].setdefault(x, set())
                    if not ts <= cur:
                        cur |= ts
                        changed = True
    conflicted = set()
    for b in visited:
        for x, ts in T[b].items():
            if len(ts) >= 2 and x in AS and live_at(b, x):
                conflicted.add(x)
    if conflicted:
        return ("branchType", conflicted)
    return ("ok", set())


# ------------------------------------------------------------------ source-level oracle (independent of the CFG builder)


class _St:
    """abstract state at a program point: reachable over real edges?, variables assigned on every path"""

    __slots__ = ("reach", "defs")

    def __init__(self, reach, defs):
        self.reach, self.defs = reach, frozenset(defs)

    def __eq__(self, o):
        return o is not None and self.reach == o.reach and self.defs == o.defs


def _join(states):
    """join at a control-flow merge: edges from unreachable code into reachable code are pruned"""
    states = [s for s in states if s is not None]
    if not states:
        return None
    live = [s for s in states if s.reach]
    pick = live or states
    d = set(pick[0].defs)
    for s in pick[1:]:
        d &= s.defs
    return _St(bool(live), d)


def source_undefined(body):
    """Variables read on some syntactic path before any assignment, following the statement's reading:
    branch conditions are ignored, code after return/break/continue and behind constant conditions is
    still analysed (entered from the state at the jump / the condition), and merges from dead code into
    live code do not count."""
    assigned = set(a for a, _ in ARGS) | {ARR[0]}

    def collect(b):
        for st in b:
            if st[0] in ("asg", "inc"):
                assigned.add(st[1])
            elif st[0] == "if":
                collect(st[2]); collect(st[3])
            elif st[0] == "while":
                collect(st[2])
            elif st[0] == "for":
                assigned.add(st[1]); collect(st[2])
            elif st[0] == "nested":
                assigned.add(st[1])
    collect(body)
    bad = set()

    def use(x, s):
        if s is None or x in s.defs or x == "c":
            return
        if x in assigned or x not in (GLOBAL,):
            bad.add(x)

    def cond_use(c, s):
        if c[0] == "var":
            use(c[1], s)

    def block(b, s, brk, cnt):
        # returns the state flowing out of the statement list, None when its last statement jumped; a
        # statement behind one that jumped hangs on the block in which the jumping statement STARTED
        # (return/break/continue: the state at the jump; an `if` whose branches both jump: at its condition)
        prev_end = s
        for st in b:
            if s is None:
                s = _St(False, prev_end.defs)
            prev_end = s
            k = st[0]
            if k == "asg":
                s = _St(s.reach, s.defs | {st[1]})
            elif k in ("use", "seti"):
                use(st[1], s)
            elif k == "inc":
                use(st[1], s)
                s = _St(s.reach, s.defs | {st[1]})
            elif k == "nested":
                for x in st[2]:
                    if x != "p":
                        use(x, s)
                s = _St(s.reach, s.defs | {st[1]})
            elif k == "return":
                s = None
            elif k in ("break", "continue"):
                (brk if k == "break" else cnt).append(s)
                s = None
            elif k == "if":
                cond_use(st[1], s)
                c = st[1]
                st_t = s if not (c[0] == "const" and c[1] == "False") else _St(False, s.defs)
                st_e = s if not (c[0] == "const" and c[1] == "True") else _St(False, s.defs)
                a = block(st[2], st_t, brk, cnt)
                e = block(st[3], st_e, brk, cnt)
                s = _join([a, e])
            elif k in ("while", "for"):
                head = s
                while True:
                    if k == "while":
                        cond_use(st[1], head)
                        c = st[1]
                        body_in = head if not (c[0] == "const" and c[1] == "False") else _St(False, head.defs)
                        exit_in = head if not (c[0] == "const" and c[1] == "True") else _St(False, head.defs)
                    else:
                        body_in = _St(head.reach, head.defs | {st[1]})
                        exit_in = head
                    b2, c2 = [], []
                    out = block(st[2], body_in, b2, c2)
                    new_head = _join([s, out, *c2])
                    if new_head == head:
                        break
                    head = new_head
                s = _join([exit_in, *b2])
        return s

    block(body, _St(True, {a for a, _ in ARGS} | {"c", ARR[0]}), [], [])
    return bad


def source_type_conflicts(body):
    """Variables that reach a READ with two different types (source-level, independent of the CFG builder
    and of the checker's BFS).  All code is examined, as the checker does: code after return/break/continue
    and behind constant conditions continues from the state at the jump / the condition; merges from dead
    code into live code do not count (the builder prunes those jumps).  Also returns whether the program
    contains dead code at all (for the evidence distribution)."""

    class S:
        __slots__ = ("reach", "ty")

        def __init__(self, reach, ty):
            self.reach, self.ty = reach, {k: frozenset(v) for k, v in ty.items()}

        def key(self):
            return (self.reach, tuple(sorted((k, tuple(sorted(v))) for k, v in self.ty.items())))

    def join(states):
        states = [x for x in states if x is not None]
        if not states:
            return None
        live = [x for x in states if x.reach]
        ty = {}
        for x in live or states:
            for k, v in x.ty.items():
                ty[k] = ty.get(k, frozenset()) | v
        return S(bool(live), ty)

    conflicts = set()
    dead_flag = [False]

    def use(x, st):
        if st is not None and len(st.ty.get(x, ())) >= 2:
            conflicts.add(x)

    def cond_use(c, st):
        if c[0] == "var":
            use(c[1], st)

    def setty(st, x, t):
        ty = dict(st.ty)
        ty[x] = frozenset([t])
        return S(st.reach, ty)

    def block(b, st, brk, cnt):
        # returns the state flowing out of the statement list, None when its last statement jumped.
        # A statement behind one that jumped starts a new block that hangs (by a never-taken edge) on the
        # block in which the jumping statement STARTED: for return/break/continue the state at the jump, for
        # an `if` whose branches both jump the state at its condition.
        prev_end = st
        for stmt in b:
            if st is None:
                st = S(False, prev_end.ty)
            prev_end = st
            k = stmt[0]
            if not st.reach or (k in ("if", "while") and stmt[1][0] == "const"):
                dead_flag[0] = True
            if k == "asg":
                st = setty(st, stmt[1], stmt[2])
            elif k in ("use", "seti"):
                use(stmt[1], st)
            elif k == "inc":
                use(stmt[1], st)
                st = setty(st, stmt[1], "int")
            elif k == "nested":
                for x in stmt[2]:
                    if x != "p":
                        use(x, st)
                st = setty(st, stmt[1], "fn")
            elif k == "return":
                st = None
            elif k in ("break", "continue"):
                (brk if k == "break" else cnt).append(st)
                st = None
            elif k == "if":
                cond_use(stmt[1], st)
                c = stmt[1]
                never = S(False, st.ty)
                st_t = st if not (c[0] == "const" and c[1] == "False") else never
                st_e = st if not (c[0] == "const" and c[1] == "True") else never
                st = join([block(stmt[2], st_t, brk, cnt), block(stmt[3], st_e, brk, cnt)])
            elif k in ("while", "for"):
                head = st
                for _ in range(50):
                    never = S(False, head.ty)
                    if k == "while":
                        cond_use(stmt[1], head)
                        c = stmt[1]
                        body_in = head if not (c[0] == "const" and c[1] == "False") else never
                        exit_in = head if not (c[0] == "const" and c[1] == "True") else never
                    else:
                        body_in = setty(head, stmt[1], "int")
                        exit_in = head
                    b2, c2 = [], []
                    out = block(stmt[2], body_in, b2, c2)
                    new_head = join([st, out, *c2])
                    if new_head.key() == head.key():
                        break
                    head = new_head
                st = join([exit_in, *b2])
        return st

    init = S(True, {a: {t} for a, t in ARGS} | {"c": {"bool"}, ARR[0]: {ARR[1]}})
    block(list(body), init, [], [])
    return conflicts, dead_flag[0]


# ------------------------------------------------------------------ protocol


def sx_cap(cap):
    names = {}
    tags = {}

    def vid(x):
        return names.setdefault(x, len(names) + 1)

    def tid(t):
        return tags.setdefault(t, len(tags) + 1)

    for a, _ in cap["args"]:
        vid(a)
    blocks = cap["blocks"]
    idxs = [b["idx"] for b in blocks]
    pred = {i: [] for i in idxs}
    dpred = {i: [] for i in idxs}
    for b in blocks:
        for s in b["succ"]:
            pred[s].append(b["idx"])
        for s in b["dsucc"]:
            dpred[s].append(b["idx"])

    def tbl(tag, d):
        return "(" + tag + "".join(" (" + " ".join(map(str, [k, *v])) + ")" for k, v in sorted(d.items()) if v) + ")"

    evs = "(events" + "".join(
        " (" + str(b["idx"]) + "".join(
            (f" (u {vid(e[1])})" if e[0] == "u" else f" (a {vid(e[1])} {tid(e[2])})") for e in b["ev"]) + ")"
        for b in blocks if b["ev"]) + ")"
    args = "(args" + "".join(f" ({vid(a)} {tid(t)})" for a, t in cap["args"]) + ")"
    gl = "(globals " + " ".join(str(vid(x)) for x in cap["globals"]) + ")"
    s = "(check (ucfg (blocks " + " ".join(map(str, idxs)) + ") " + " ".join([
        tbl("succ", {b["idx"]: b["succ"] for b in blocks}), tbl("dsucc", {b["idx"]: b["dsucc"] for b in blocks}),
        tbl("pred", pred), tbl("dpred", dpred), f"(entry {cap['entry']})", evs, args, gl]) + "))"
    return s, {v: k for k, v in names.items()}


def parse_model(reply, rev):
    p = reply.split()
    if p[0] == "ok":
        return ("ok", set())
    if p[0] == "err":
        return (p[1], {rev.get(int(x), "?" + x) for x in p[2:]})
    return (reply, set())


# ------------------------------------------------------------------ tie


def tie(ctx):
    rng = ctx.rng
    progs = []
    corpus = os.path.join(vlib.VERIF, "corpus", "c08")
    if os.path.isdir(corpus):
        for fn in sorted(os.listdir(corpus)):
            progs.append(("corpus:" + fn, json.load(open(os.path.join(corpus, fn)))))
    if ctx.replay_in and "program" in ctx.replay_in.get("replay", {}):
        progs.append(("replay", ctx.replay_in["replay"]["program"]))
    for i in range(ctx.n(400, 12000)):
        progs.append((f"gen{i}", gen_program(rng)))
    lines, meta, pruned_broken = [], [], []
    for name, body in progs:
        body = _tuplify(body)
        src = source(body)
        caps = nested_caps(body)
        import c09
        import random as _random
        pol = rng.choice([("min",), ("max",), ("stale",), ("rand", rng.randrange(1 << 30))])
        real, cap = run_real(src, caps, c09.Sched(pol, rng=_random.Random(pol[1]) if pol[0] == "rand" else None))
        if cap is None:
            # rejected before check_cfg (e.g. by the CFG builder); not in this property's scope
            ctx.count(src, False, kind="no-cfg:" + ":".join(map(str, real)))
            continue
        orc = oracle(cap)
        nontrivial = orc[0] != "ok" or _has_partial(cap)
        ctx.count(src, nontrivial, kind="real:" + real[0])
        ok = real[0] == orc[0] and (real[0] == "ok" or real[1] in orc[1])
        if not ok:
            ctx.violation(
                "input:" + src,
                f"check() outcome {real} differs from the path-based reading {orc[0]} {sorted(orc[1])}",
                {"program": body, "source": src, "real": real, "oracle": [orc[0], sorted(orc[1])], "cfg": cap},
            )
        # independent of the CFG builder: the same verdict from the source text
        src_bad = source_undefined(body)
        if (real[0] == "undefined") != bool(src_bad) or (real[0] == "undefined" and real[1] not in src_bad):
            ctx.violation(
                "input:" + src,
                f"check() outcome {real} differs from the source-level reading: variables read before assignment on some path = {sorted(src_bad)}",
                {"program": body, "source": src, "real": real, "source_oracle_undefined": sorted(src_bad), "cfg": cap},
            )
        if not src_bad and real[0] in ("ok", "branchType"):
            src_conf, has_dead = source_type_conflicts(body)
            k_ = "type-oracle:" + ("conflict" if src_conf else "clean") + (":with-dead-code" if has_dead else "")
            ctx.dist[k_] = ctx.dist.get(k_, 0) + 1
            if ((real[0] == "branchType") != bool(src_conf) or (real[0] == "branchType" and real[1] not in src_conf)):
                ctx.violation(
                    "input:" + src,
                    f"check() outcome {real} differs from the source-level reading: variables read with two different types = {sorted(src_conf)}",
                    {"program": body, "source": src, "real": real, "source_oracle_type_conflicts": sorted(src_conf), "cfg": cap},
                )
        # hypothesis `Pruned` of reachable_types_from_real_paths, on the CFG the builder handed to the checker
        bad_edge = unpruned_edge(cap)
        if bad_edge is not None and not pruned_broken:
            pruned_broken.append(bad_edge)
            ctx.broke(f"hypothesis Pruned (Spec/C08.lean) fails on a CFG built by CFGBuilder.build: edge {bad_edge} "
                      f"enters a really reachable block but is not a real edge out of a reachable block; program\n{src}")
        line, rev = sx_cap(cap)
        lines.append(line)
        meta.append((src, real, rev, body))
    ctx.dist["pruned-hypothesis-checked"] = len(meta)
    replies = ctx.driver(DRIVER, lines)
    for (src, real, rev, body), rep in zip(meta, replies):
        m = parse_model(rep, rev)
        mcls = {"notDefined": "undefined"}.get(m[0], m[0])
        ok = real[0] == mcls and (real[0] == "ok" or real[1] in m[1])
        if not ok:
            ctx.broke(f"correspondence Model/UseDef.lean vs cfg_checker.py: real={real} model={m} on\n{src}")
            break


def unpruned_edge(cap):
    """None if the captured CFG satisfies `Pruned`, else an offending edge (p, s, kind)"""
    blocks = {b["idx"]: b for b in cap["blocks"]}
    reach, stack = set(), [cap["entry"]]
    while stack:
        b = stack.pop()
        if b in reach:
            continue
        reach.add(b)
        stack += blocks[b]["succ"]
    for p, b in blocks.items():
        for s in b["succ"]:
            if s in reach and p not in reach:
                return (p, s, "real edge out of unreachable code")
        for s in b["dsucc"]:
            if s in reach:
                return (p, s, "dummy edge into reachable code")
    return None


def _has_partial(cap):
    # some variable written in some block but not args: cheap proxy for "assigned on some paths"
    n = sum(1 for b in cap["blocks"] if any(e[0] == "a" for e in b["ev"]))
    return n >= 2 and len(cap["blocks"]) >= 4


def _tuplify(x):
    return tuple(_tuplify(i) for i in x) if isinstance(x, (list, tuple)) else x


if __name__ == "__main__":
    vlib.main(sys.modules[__name__])
