"""C19 — Array access is bounds-safe and alias-free (partial: the runtime's borrow_array is outside the repo)."""
from __future__ import annotations

import json
import os
import sys
import types

sys.path.insert(0, os.path.dirname(os.path.dirname(os.path.abspath(__file__))))
sys.path.insert(0, os.path.dirname(os.path.abspath(__file__)))
import vlib

PID = "C19"
THEOREM_MODULES = ["GuppyVerif.Props.C19"]
DRIVER = "C19"
RULE = (
    "three kinds of cases. (1) T-obj probes: Guppy functions using xs[i], xs[i]=v, callee(xs[i]) on qubit arrays, "
    "copy(), array unpacking patterns (l left targets, r right targets, optional starred middle, static length n; quick: "
    "all shapes with n<=4, thorough: all shapes with n<=7 plus random n<=24; int and qubit elements), for loops "
    "(ArrayIter.__next__) and array comprehensions are lowered by /repo's REAL compiler; the straight-line op list with "
    "its wiring is extracted from the Hugr and compared with the Lean model's emission (also re-proved equal by `decide` "
    "in the regenerated Gen/C19Lowering.lean). (2) op sequences: random arrays (length 0..8, random lent cells) and "
    "random reads/writes/borrows/returns with indices biased to -n-1..n+1, +-2^63 boundaries; the EXTRACTED op lists are "
    "interpreted in Python and in Lean and compared with Python-list + lent-flag semantics. (3) T-exec: the real "
    "ArrayIter.__next__ body from /repo runs under CPython on shim arrays vs the Lean model, on random iterator states "
    "and full drains. (4) end-to-end: generated whole programs run on the reference interpreter (both schedules) vs CPython "
    "(value equality, panic iff IndexError/negative index; plain writes to non-copyable elements are not generated: borrow discipline). Non-trivial = index out of range or negative, a lent cell touched, or (probes) >=1 pop on each "
    "side / a starred target; distinct by canonical request"
)
ASSUMPTIONS = [
    "runtime semantics of collections.borrow_arr (outside the repo), as transcribed in Model/ArraySem.lean from the extension's op "
    "descriptions/signatures: a borrow array is a list of cells (present | lent); borrow/return panic on an index >= length, "
    "borrow/get/set/pop_*/clone panic on a lent cell, return panics on a present cell, get returns None and set returns the left "
    "variant when the index is >= length, pop_* return None on an empty array, discard_all_borrowed panics unless every cell is lent",
    "arithmetic.conversions.itousize on a negative int yields value mod 2^64 (same bits read unsigned); iadd wraps at 64 bits",
    "array lengths are <= 2^63 (hypothesis of the bounds theorems; an array of more than 2^63 elements would make 2^64-1 a valid index)",
    "a build_unwrap* Conditional (one case = prelude.panic(msg), other case = identity) panics iff the sum has the other tag",
    "HUGR dataflow: a straight-line block computes its outputs from its inputs by evaluating nodes in dependency order",
    "borrow discipline (intended, not a defect): a plain assignment xs[i] = v on an array whose elements are non-copyable lowers to a bare "
    "`return`, which panics unless cell i is currently lent (setitem_spec: notBorrowed); writes to copyable elements use `set`",
    "ArrayIter.__next__ is Guppy source executed under CPython against shims (Guppy's claim that its source means what Python means is C03)",
]
UNMODELLED = [
    "run-time behaviour is SAMPLED, not proved: generated programs (reads/writes/augmented assignments with in-range, out-of-range and "
    "negative indices, nested arrays, unpacking incl. starred targets from arrays / nested arrays / range, for loops, comprehensions, "
    "copy()) are lowered by the real compiler, executed by the reference interpreter harness/hugr_interp.py (validated against CPython "
    "and the 1.0.4 emulator, notes/INTERP.md) under the default and the adversarial schedule, and compared with CPython running the same "
    "source; the production runtime (hugr-llvm / selene) itself is outside the repository",
    "frozenarray (immutable, classical), array.__new__ from list comprehension internals, array `scan`/`repeat`/`to_array`/`from_array` conversions",
    "comptime array access (Python lists; C21)",
    "comprehensions with several generators or `if` guards (one generator, no guard is extracted: TailLoop, __next__ call, Conditional "
    "cases, tags, carried-value wiring, body, result port); the semantics of TailLoop/Conditional themselves are assumed",
]
TRUSTED_EXTRA = [
    "harness/hugr_interp.py (reference interpreter, search oracle only) and the CPython shim of hugr_interp_validate.py (bounds-checked "
    "lists; negative indices panic) used by the end-to-end section (harness/props/c19_e2e.py)",
    "harness/props/c19_ssa.py: extraction of op lists and wiring from the in-memory Hugr (node order = emission order)",
    "the Python interpreter of extracted op lists in c19.py (a second, independent transcription of the assumed op semantics)",
]
MANIFEST = {
    "level_text": "Lean theorems over the op lists the compiler emits, for ALL array lengths (<= 2^63), cell states, 64-bit indices, "
    "unpack pattern shapes and read/write sequences: xs[i] / xs[i]=v touch exactly element i when 0<=i<n and panic for every other "
    "index (negatives via itousize >= 2^63 >= n); a second borrow of a lent element panics and other cells are unaffected; a "
    "borrowing call on xs[i] writes the callee's result back to exactly index i; unpacking gives left targets xs[:l], starred the "
    "middle slice, right targets xs[n-r:] in order; ArrayIter yields elements 0..n-1 once each in order and the final "
    "discard_all_borrowed succeeds; the comprehension loop AS LOWERED (TailLoop plumbing extracted from the Hugr: init values, __next__ call, break/continue tags, carried wiring, body, result port) evaluates to [g x | x in xs] in index order (comp_order_loop); sequences of classical reads/writes "
    "refine Python list semantics and sequences of borrows/returns refine the list + lent-flag reference model (induction). Tied to /repo every run: the op lists with wiring are extracted from the Hugr the REAL "
    "compiler produces for probe programs and (a) proved equal to the model's emission by `decide` in a regenerated Gen file, "
    "(b) compared for generated pattern shapes through the driver, (c) interpreted on random inputs against Python-list semantics; "
    "ArrayIter.__next__ is executed from /repo's source under CPython against the Lean model.",
    "level_note": "Runtime sampled through the reference interpreter (not unmodelled, not proved). Partial: borrow_array's runtime implementation is outside the repository — its op semantics are an explicit "
    "assumption (Model/ArraySem.lean, ASSUMPTIONS). Trusted: Lean kernel + propext/Classical.choice/Quot.sound, the Hugr op-list "
    "extractor, the shims of T-exec. Probes/sequences are sampling (exhaustive over unpack shapes up to the tier's length bound).",
    "technique": "Lean 4 proof over an SSA op-list semantics + per-run extraction of the real lowering (T-obj) + CPython execution of "
    "Guppy std source (T-exec)",
    "design_ref": "DESIGN.md §5 C19",
    "ready": True,
}

M63 = 1 << 63
M64 = 1 << 64
OOB_MSG = "Array index out of bounds"
CALL_OFFSET = 1000  # the driver interprets `call` as +1000

PRELUDE_EXTRA = "import hugr.tys as _ht\nfrom guppylang.std.quantum import qubit, discard\nn = guppy.nat_var('n')\n"

FIXED_SRC = '''
@guppy.declare
def cal(q: qubit) -> None: ...

@guppy
def getitem_classical(xs: array[int, n], i: int) -> int:
    return xs[i]

@guppy
def getitem_classical_fixed(xs: array[int, 5], i: int) -> int:
    return xs[i]

@guppy
def setitem_classical(xs: array[int, n], i: int, v: int) -> None:
    xs[i] = v

@guppy
def inout_linear(xs: array[qubit, n], i: int) -> None:
    cal(xs[i])

@guppy
def copy_classical(xs: array[int, n]) -> array[int, n]:
    return xs.copy()

@guppy.type(_ht.Bool, copyable=False, droppable=True)
class Tok:
    pass

@guppy.declare
def use(t: Tok) -> None: ...

@guppy
def inout_affine_custom(xs: array[Tok, n], i: int) -> None:
    use(xs[i])

@guppy
def loop_linear(qs: array[qubit, 3] @owned) -> None:
    for q in qs:
        discard(q)

@guppy
def loop_classical(xs: array[int, 3] @owned) -> int:
    s = 0
    for x in xs:
        s += x
    return s

@guppy.declare
def elt_fn(x: int) -> int: ...

@guppy
def comp_classical(xs: array[int, 4] @owned) -> array[int, 4]:
    return array(elt_fn(x) for x in xs)
'''


# ------------------------------------------------------------------ Python reading of the assumed op semantics
class Panic(Exception):
    pass


def itousize(i):
    return i % M64


def wrap64(x):
    return (x + M63) % M64 - M63


def py_step(name, params, args):
    """one extracted instruction on Python values; raises Panic(name).  Values:
    ('int',i) ('usize',n) ('elem',v) ('arr',tuple(cells)) ('sum',tag,[vals])"""
    def ill():
        raise Panic("illTyped")

    def arr(v):
        if v[0] != "arr":
            ill()
        return list(v[1])

    def us(v):
        if v[0] != "usize":
            ill()
        return v[1]

    def el(v):
        if v[0] != "elem":
            ill()
        return v[1]

    if name == "itousize":
        if len(args) != 1 or args[0][0] != "int":
            ill()
        return [("usize", itousize(args[0][1]))]
    if name == "get":
        if len(args) != 2:
            ill()
        a, i = arr(args[0]), us(args[1])
        if i >= len(a):
            return [("sum", 0, []), ("arr", tuple(a))]
        if a[i] is None:
            raise Panic("alreadyBorrowed")
        return [("sum", 1, [("elem", a[i])]), ("arr", tuple(a))]
    if name == "set":
        if len(args) != 3:
            ill()
        a, i, v = arr(args[0]), us(args[1]), el(args[2])
        if i >= len(a):
            return [("sum", 0, [("elem", v), ("arr", tuple(a))])]
        if a[i] is None:
            raise Panic("alreadyBorrowed")
        old = a[i]
        a[i] = v
        return [("sum", 1, [("elem", old), ("arr", tuple(a))])]
    if name == "borrow":
        if len(args) != 2:
            ill()
        a, i = arr(args[0]), us(args[1])
        if i >= len(a):
            raise Panic("indexOob")
        if a[i] is None:
            raise Panic("alreadyBorrowed")
        v = a[i]
        a[i] = None
        return [("arr", tuple(a)), ("elem", v)]
    if name == "return":
        if len(args) != 3:
            ill()
        a, i, v = arr(args[0]), us(args[1]), el(args[2])
        if i >= len(a):
            raise Panic("indexOob")
        if a[i] is not None:
            raise Panic("notBorrowed")
        a[i] = v
        return [("arr", tuple(a))]
    if name in ("pop_left", "pop_right"):
        if len(args) != 1 or len(params) != 1:
            ill()
        a = arr(args[0])
        if str(len(a)) != params[0]:
            ill()
        if not a:
            return [("sum", 0, [])]
        x = a[0] if name == "pop_left" else a[-1]
        if x is None:
            raise Panic("alreadyBorrowed")
        rest = a[1:] if name == "pop_left" else a[:-1]
        return [("sum", 1, [("elem", x), ("arr", tuple(rest))])]
    if name == "discard_empty":
        if len(args) != 1 or arr(args[0]):
            ill()
        return []
    if name == "discard_all_borrowed":
        if len(args) != 1:
            ill()
        if any(c is not None for c in arr(args[0])):
            raise Panic("notAllBorrowed")
        return []
    if name == "new_all_borrowed":
        if args or len(params) != 1 or not params[0].isdigit():
            ill()
        return [("arr", tuple([None] * int(params[0])))]
    if name == "clone":
        if len(args) != 1:
            ill()
        a = arr(args[0])
        if any(c is None for c in a):
            raise Panic("alreadyBorrowed")
        return [("arr", tuple(a)), ("arr", tuple(a))]
    if name == "unwrap":
        if len(args) != 1 or args[0][0] != "sum" or len(params) != 2:
            ill()
        if str(args[0][1]) != params[0]:
            raise Panic("unwrapFail " + params[1])
        return list(args[0][2])
    if name == "call":
        if len(args) != 1:
            ill()
        return [("elem", el(args[0]) + CALL_OFFSET)]
    if name == "const":
        try:
            return [("int", int(params[0]))]
        except Exception:  # noqa: BLE001
            ill()
    if name == "iadd":
        if len(args) != 2 or args[0][0] != "int" or args[1][0] != "int":
            ill()
        return [("int", wrap64(args[0][1] + args[1][1]))]
    if name == "ifromusize":
        if len(args) != 1 or args[0][0] != "usize":
            ill()
        return [("int", wrap64(args[0][1]))]
    # an operation this interpreter has no semantics for: the result cannot be judged (reported as a broken tie, not as
    # a failing input)
    raise Panic("unknownOp:" + name)


def unknown_op(r):
    """interpreter result that only says 'this op list contains an operation I have no semantics for'"""
    return r[0] == "panic" and r[1].startswith("unknownOp:")


def py_run(prog, inputs):
    """prog = (n_in, instrs, outs); returns ('ok', [vals]) | ('panic', name)"""
    n_in, instrs, outs = prog
    if len(inputs) != n_in:
        return ("panic", "illTyped")
    env = list(inputs)
    try:
        for nm, ps, args, nout in instrs:
            vals = []
            for a in args:
                if not (0 <= a < len(env)):
                    raise Panic("illTyped")
                vals.append(env[a])
            res = py_step(nm, ps, vals)
            if len(res) != nout:
                raise Panic("illTyped")
            env.extend(res)
        res = []
        for o in outs:
            if not (0 <= o < len(env)):
                raise Panic("illTyped")
            res.append(env[o])
        return ("ok", res)
    except Panic as p:
        return ("panic", str(p))


def show_val(v):
    if v[0] == "arr":
        return "(arr" + "".join(" _" if c is None else f" {c}" for c in v[1]) + ")"
    if v[0] == "sum":
        return f"(sum {v[1]} {' '.join(show_val(x) for x in v[2])})"
    return f"({v[0]} {v[1]})"


def show_result(r):
    import c19_ssa as S
    if r[0] == "ok":
        return "ok " + " ".join(show_val(v) for v in r[1])
    parts = r[1].split(" ", 1)
    if parts[0] == "unwrapFail":
        return "panic unwrapFail " + S.sexp_atom(parts[1])
    return "panic " + r[1]


def cells_sexp(cells):
    return "(" + " ".join("_" if c is None else str(c) for c in cells) + ")"


# ------------------------------------------------------------------ extraction (T-obj)
def _lower(src):
    import feed
    m = feed.load(src, prelude=feed.PRELUDE + PRELUDE_EXTRA)
    return m


def _block_prog(h, fname, keep_pack=False):
    """(n_in, instrs, outs) of the single dataflow block of `fname`, pruned"""
    import c19_ssa as S
    fn = S.find_func(h, fname)
    bs = S.dataflow_blocks(h, fn)
    if len(bs) != 1:
        raise ValueError(f"{fname}: {len(bs)} blocks")
    B = S.Block(h, bs[0])
    instrs, outs = S.prune(B.instrs, B.n_in, B.outs)
    return (B.n_in, instrs, outs), S.func_signature(h, fn)


def _strip_return_tuple(prog):
    """`return a, b, c` packs and unpacks the tuple: drop that pair, the block outputs become the
    wires that were packed"""
    n_in, instrs, outs = prog
    if len(instrs) >= 2 and instrs[-2][0] == "pack" and instrs[-1][0] == "unpack":
        n_before = n_in + sum(i[3] for i in instrs[:-2])
        pack_out = n_before
        if instrs[-1][2] == [pack_out] and outs == list(range(pack_out + 1, pack_out + 1 + instrs[-1][3])):
            return (n_in, instrs[:-2], list(instrs[-2][2]))
    return prog


def _sub_prog(prog, idxs, input_wires, out_wires):
    """the sub-op-list `idxs` of prog with `input_wires` renamed to inputs 0.. (canonical renumbering)"""
    n_in, instrs, _ = prog
    starts, nxt = [], n_in
    for ins in instrs:
        starts.append(nxt)
        nxt += ins[3]
    ren = {w: k for k, w in enumerate(input_wires)}
    nxt = len(input_wires)
    res = []
    for k in idxs:
        nm, ps, args, nout = instrs[k]
        for j in range(nout):
            ren[starts[k] + j] = nxt
            nxt += 1
        res.append((nm, ps, [ren.get(a, -1) for a in args], nout))
    return (len(input_wires), res, [ren.get(o, -1) for o in out_wires])


def _sexp(prog):
    import c19_ssa as S
    return S.to_sexp(*prog)


def _canon_slice(instrs, n_in, names):
    """relevant instructions only, free inputs renamed in0, in1, … by first use (for op lists
    embedded in larger blocks: ArrayIter.__next__, comprehension bodies)"""
    starts, nxt = [], n_in
    for ins in instrs:
        starts.append(nxt)
        nxt += ins[3]
    ren, free, res = {}, {}, []
    k = 0
    for idx, (nm, ps, args, nout) in enumerate(instrs):
        if nm not in names:
            continue
        a2 = []
        for a in args:
            if a in ren:
                a2.append(f"w{ren[a]}")
            else:
                if a not in free:
                    free[a] = len(free)
                a2.append(f"in{free[a]}")
        for j in range(nout):
            ren[starts[idx] + j] = k
            k += 1
        res.append((nm, tuple(ps), tuple(a2), nout))
    return res


ARRAY_NAMES = {"itousize", "get", "set", "borrow", "return", "unwrap", "discard_all_borrowed", "pop_left", "pop_right",
               "discard_empty", "new_all_borrowed", "clone", "iadd", "const"}


def _all_blocks(h, fn):
    """every dataflow container (block, case, loop body) below FuncDefn `fn` that has Input/Output children"""
    import hugr.ops as ops
    import c19_ssa as S
    out, todo = [], [fn]
    while todo:
        n = todo.pop()
        for c in S.children(h, n):
            ks = S.children(h, c)
            if len(ks) >= 2 and isinstance(h[ks[0]].op, ops.Input) and isinstance(h[ks[1]].op, ops.Output):
                out.append(c)
            if ks:
                todo.append(c)
    return sorted(out, key=lambda n: n.idx)


def _origin(h, inp_node, src, memo=None):
    """symbolic origin of a wire inside one dataflow container: ('in', k) | ('proj', term, k) | ('pack', [terms]) |
    ('op', opname, node idx, port); tuple unpack/pack pairs are simplified (beta: proj(pack ts, k) = ts[k]; eta:
    pack[proj(t,0..n-1)] = t)"""
    import hugr.ops as ops
    import c19_ssa as S
    node, port = src
    if node == inp_node:
        return ("in", port)
    op = h[node].op
    if isinstance(op, ops.UnpackTuple):
        s0 = S._src(h, node, 0)
        t = _origin(h, inp_node, s0) if s0 is not None else ("?",)
        if t[0] == "pack" and port < len(t[1]):
            return t[1][port]
        return ("proj", t, port, S._n_value_outputs(h, node))
    if isinstance(op, ops.MakeTuple):
        n = S._n_value_inputs(h, node)
        ts = []
        for i in range(n):
            si = S._src(h, node, i)
            ts.append(_origin(h, inp_node, si) if si is not None else ("?",))
        if n > 0 and all(t[0] == "proj" and t[2] == i and t[3] == n and t[1] == ts[0][1] for i, t in enumerate(ts)):
            return ts[0][1]
        return ("pack", ts)
    return ("op", S.op_name(op), node.idx, port)


def extract_comp_loop(h, fname):
    """the comprehension loop of `fname` as (initLen, initCount, arrPort, countPort, nonePass, body prog, breakTag,
    contTag, resultPort) + a list of structural problems (empty when the plumbing is as modelled)"""
    import hugr.ops as ops
    import c19_ssa as S
    problems = []
    fn = S.find_func(h, fname)
    outer = None
    for b in _all_blocks(h, fn):
        if any(S.op_name(h[k].op) == "collections.borrow_arr.new_all_borrowed" for k in S.children(h, b)):
            outer = b
    if outer is None:
        raise ValueError("no block with new_all_borrowed")
    oks = S.children(h, outer)
    o_in, o_out = oks[0], oks[1]
    loops = [k for k in oks if isinstance(h[k].op, ops.TailLoop)]
    if len(loops) != 1:
        raise ValueError(f"{len(loops)} TailLoops next to new_all_borrowed")
    T = loops[0]
    top = h[T].op
    nj, nr = len(top.just_inputs), len(top.rest)
    if nj != 1:
        problems.append(f"TailLoop has {nj} just_inputs (expected 1: the iterator)")
    # loop inputs
    init_len = init_count = arr_port = count_port = None
    for k in range(nj + nr):
        s0 = S._src(h, T, k)
        if s0 is None:
            problems.append(f"loop input {k} unconnected")
            continue
        sop = h[s0[0]].op
        nm = S.op_name(sop)
        if k < nj:
            t = _origin(h, o_in, s0)
            if not (t[0] == "op" and t[1] == "Call"):
                problems.append(f"iterator input of the loop is not the result of a call (__iter__): {t}")
            else:
                cs = S._src(h, [n for n in h if n.idx == t[2]][0], S._n_value_inputs(h, [n for n in h if n.idx == t[2]][0]))
                callee = getattr(h[cs[0]].op, "f_name", "?") if cs else "?"
                if not callee.endswith("__iter__"):
                    problems.append(f"iterator input of the loop comes from a call of {callee}")
        elif nm == "collections.borrow_arr.new_all_borrowed":
            arr_port, init_len = k - nj, S._len_arg(sop)
        elif isinstance(sop, ops.LoadConst):
            count_port, init_count = k - nj, S._int_const(S._const_of(h, s0[0]))
        else:
            problems.append(f"loop input {k} comes from {nm}")
    # loop body
    lks = S.children(h, T)
    l_in, l_out = lks[0], lks[1]
    nexts = [k for k in lks if isinstance(h[k].op, ops.Call)]
    conds = [k for k in lks if isinstance(h[k].op, ops.Conditional)]
    if len(nexts) != 1 or len(conds) != 1:
        raise ValueError(f"loop body has {len(nexts)} calls and {len(conds)} conditionals")
    N, C = nexts[0], conds[0]
    cs = S._src(h, N, S._n_value_inputs(h, N))
    callee = getattr(h[cs[0]].op, "f_name", "?") if cs else "?"
    if not callee.endswith("__next__"):
        problems.append(f"the loop calls {callee}, not __next__")
    if _origin(h, l_in, S._src(h, N, 0)) != ("in", 0):
        problems.append(f"__next__ is not called on the loop's iterator input: {_origin(h, l_in, S._src(h, N, 0))}")
    if S._src(h, C, 0) != (N, 0):
        problems.append("the Conditional does not branch on the result of __next__")
    ncar = h.num_in_ports(C) - 1
    for i in range(1, 1 + nr):
        si = S._src(h, C, i)
        if si is None or _origin(h, l_in, si) != ("in", nj + i - 1):
            problems.append(f"Conditional input {i} is not carried value {i - 1}")
    for i in range(1 + nr):
        if S._src(h, l_out, i) != (C, i):
            problems.append(f"loop output {i} is not Conditional output {i}")
    cases = [c for c in S.children(h, C) if isinstance(h[c].op, ops.Case)]
    if len(cases) != 2:
        raise ValueError(f"{len(cases)} cases")
    c_none, c_some = cases
    # nothing-case
    nk = S.children(h, c_none)
    n_in, n_out = nk[0], nk[1]
    t0 = S._src(h, n_out, 0)
    break_tag = None
    if t0 is None or not isinstance(h[t0[0]].op, ops.Tag):
        problems.append("nothing-case: first output is not a Tag")
    else:
        break_tag = h[t0[0]].op.tag
        if h.num_in_ports(t0[0]) and any(S._src(h, t0[0], i) is not None for i in range(h.num_in_ports(t0[0]))):
            problems.append("nothing-case: the break Tag has a payload")
    none_pass = []
    for i in range(1, 1 + nr):
        t = _origin(h, n_in, S._src(h, n_out, i))
        none_pass.append(t[1] if t[0] == "in" else -1)
    # some-case
    B = S.Block(h, c_some)
    sk = S.children(h, c_some)
    s_in, s_out = sk[0], sk[1]
    t1 = S._src(h, s_out, 0)
    cont_tag = None
    if t1 is None or not isinstance(h[t1[0]].op, ops.Tag):
        problems.append("some-case: first output is not a Tag")
    else:
        cont_tag = h[t1[0]].op.tag
        tt = _origin(h, s_in, S._src(h, t1[0], 0)) if S._src(h, t1[0], 0) else ("?",)
        if not (tt[0] == "proj" and tt[1] == ("in", 0) and tt[2] == 1):
            problems.append(f"some-case: the continue Tag does not carry the iterator returned by __next__: {tt}")
    calls = [(idx, ins) for idx, ins in enumerate(B.instrs) if ins[0] == "call"]
    if len(calls) != 1:
        raise ValueError(f"some-case has {len(calls)} calls (element expression)")
    cidx, cins = calls[0]
    cnode = B.nodes[cidx]
    ta = _origin(h, s_in, S._src(h, cnode, 0))
    if not (ta[0] == "proj" and ta[1] == ("in", 0) and ta[2] == 0):
        problems.append(f"some-case: the element expression is not applied to the element returned by __next__: {ta}")
    starts, nxt = [], B.n_in
    for ins in B.instrs:
        starts.append(nxt)
        nxt += ins[3]
    elt_wire = starts[cidx]
    rel = [i for i, ins in enumerate(B.instrs) if ins[0] in ("itousize", "return", "const", "iadd")]
    body = _sub_prog((B.n_in, B.instrs, B.outs), rel, list(range(1, 1 + nr)) + [elt_wire], B.outs)
    # result port
    res = S._src(h, o_out, 1)
    result_port = res[1] if res is not None and res[0] == T else -1
    return (int(init_len) if init_len and str(init_len).isdigit() else -1, init_count if init_count is not None else -1,
            arr_port if arr_port is not None else -1, count_port if count_port is not None else -1, none_pass, body,
            break_tag if break_tag is not None else -1, cont_tag if cont_tag is not None else -1, result_port), problems


def py_run_comp(L, xs, g):
    """interpret an extracted comprehension loop on the array xs (all present), element expression g; iteration is
    Python's own (index order) — the iterator itself is tied separately (ArrayIter.__next__)"""
    init_len, init_count, arr_port, count_port, none_pass, body, break_tag, cont_tag, result_port = L
    if {arr_port, count_port} != {0, 1} or break_tag != 1 or cont_tag != 0:
        return ("panic", "illTyped")
    carried = [None, None]
    carried[arr_port] = ("arr", tuple([None] * init_len))
    carried[count_port] = ("int", init_count)
    for x in xs:
        r = py_run(body, carried + [("elem", g(x))])
        if r[0] == "panic":
            return r
        carried = list(r[1])
        if len(carried) != 2:
            return ("panic", "illTyped")
    outs = []
    for k in none_pass:
        if not (0 <= k < len(carried)):
            return ("panic", "illTyped")
        outs.append(carried[k])
    if not (0 <= result_port < len(outs)):
        return ("panic", "illTyped")
    return ("ok", [outs[result_port]])


def comp_loop_sexp(L):
    return (f"(comploop {L[0]} {L[1]} {L[2]} {L[3]} ({' '.join(map(str, L[4]))}) {_sexp(L[5])} {L[6]} {L[7]} {L[8]})")


def extract_fixed():
    """lower the fixed probes; returns dict name -> prog and a list of (description, ok) structural checks"""
    import feed
    import c19_ssa as S
    m = _lower(FIXED_SRC)
    progs, notes = {}, []
    for nm in ["getitem_classical", "getitem_classical_fixed", "setitem_classical", "inout_linear", "copy_classical",
               "inout_affine_custom"]:
        h = feed.lower(getattr(m, nm)).hugr
        progs[nm], sig = _block_prog(h, nm)
        progs[nm + "#sig"] = sig
    # linear getitem / setitem are the two halves of the borrowing call
    p = progs["inout_linear"]
    calls = [k for k, ins in enumerate(p[1]) if ins[0] == "call"]
    if len(calls) == 1 and len(p[1]) == 5:
        c = calls[0]
        starts, nxt = [], p[0]
        for ins in p[1]:
            starts.append(nxt)
            nxt += ins[3]
        call_in = p[1][c][2][0]
        borrow_outs = [starts[c - 1], starts[c - 1] + 1]
        arr_after = [w for w in borrow_outs if w != call_in]
        progs["getitem_linear"] = _sub_prog(p, list(range(0, c)), [0, 1], [call_in] + arr_after)
        progs["setitem_linear"] = _sub_prog(p, list(range(c + 1, len(p[1]))), arr_after + [1, starts[c]], p[2])
    else:
        progs["getitem_linear"] = (0, [("shape?", [], [], 0)], [])
        progs["setitem_linear"] = (0, [("shape?", [], [], 0)], [])
    # loops: ArrayIter.__next__ and discard in the compiled std function
    for nm, lin in [("loop_linear", True), ("loop_classical", False)]:
        h = feed.lower(getattr(m, nm)).hugr
        nexts = [f for f in S.func_names(h) if f.endswith("__next__")]
        slices = []
        for f in nexts:
            fn = S.find_func(h, f)
            for b in _all_blocks(h, fn):
                B = S.Block(h, b)
                sl = _canon_slice(B.instrs, B.n_in, ARRAY_NAMES - {"iadd", "const"})
                if sl:
                    slices.append(sl)
        progs[nm + "#next_slices"] = slices
    # comprehension
    h = feed.lower(m.comp_classical).hugr
    fn = S.find_func(h, "comp_classical")
    body, outer = None, None
    for b in _all_blocks(h, fn):
        B = S.Block(h, b)
        names = [i[0] for i in B.instrs]
        if "return" in names:
            body = _canon_slice(B.instrs, B.n_in, {"itousize", "return", "const", "iadd"})
        if "new_all_borrowed" in names:
            outer = [(i[0], tuple(i[1])) for i in B.instrs if i[0] in ("new_all_borrowed", "const")]
    progs["comp#body"] = body
    progs["comp#outer"] = outer
    try:
        progs["comp#loop"], progs["comp#loop_problems"] = extract_comp_loop(h, "comp_classical")
    except Exception as e:  # noqa: BLE001
        progs["comp#loop"], progs["comp#loop_problems"] = None, [f"{type(e).__name__}: {e}"]
    feed.unload(m)
    return progs


def unpack_src(l, r, starred, nlen, kind, dup=False):
    ty = "int" if kind == "int" else "qubit"
    names = [f"a{k}" for k in range(l)] + (["*mid"] if starred else []) + [f"b{k}" for k in range(r)]
    rets = [f"a{k}" for k in range(l)] + (["mid"] if starred else []) + [f"b{k}" for k in range(r)]
    rty = [ty] * l + ([f"array[{ty}, {nlen - l - r}]"] if starred else []) + [ty] * r
    if len(rets) == 0:
        return None
    pat = ", ".join(names) + ("," if len(names) == 1 else "")
    ret = ", ".join(rets)
    rt = rty[0] if len(rty) == 1 else "tuple[" + ", ".join(rty) + "]"
    return (f"@guppy\ndef up(xs: array[{ty}, {nlen}] @owned) -> {rt}:\n"
            f"    {pat} = xs\n    return {ret}\n")


def extract_unpack(l, r, starred, nlen, kind):
    import feed
    src = unpack_src(l, r, starred, nlen, kind)
    m = _lower(src)
    try:
        h = feed.lower(m.up).hugr
        prog, sig = _block_prog(h, "up")
        return _strip_return_tuple(prog), src
    finally:
        feed.unload(m)


# ------------------------------------------------------------------ Gen file (T-obj, re-proved by lake)
def _lean_str(s):
    return '"' + s.replace("\\", "\\\\").replace('"', '\\"') + '"'


def _lean_op(nm, ps):
    simple = {"itousize": ".itousize", "get": ".get", "set": ".set", "borrow": ".borrow", "return": ".ret",
              "discard_empty": ".discardEmpty", "discard_all_borrowed": ".discardAllBorrowed", "clone": ".clone",
              "iadd": ".iadd"}
    if nm in simple and not ps:
        return simple[nm]
    if nm in ("pop_left", "pop_right", "new_all_borrowed") and len(ps) == 1 and ps[0].isdigit():
        return {"pop_left": ".popLeft", "pop_right": ".popRight", "new_all_borrowed": ".newAllBorrowed"}[nm] + " " + ps[0]
    if nm == "unwrap" and len(ps) == 2 and ps[0].isdigit():
        return f".unwrap {ps[0]} {_lean_str(ps[1])}"
    if nm == "call" and len(ps) == 1:
        return f".call {_lean_str(ps[0])}"
    if nm == "const" and len(ps) == 1 and ps[0].lstrip("-").isdigit():
        return f".const ({ps[0]})"
    return f".other {_lean_str(nm)}"


def _lean_prog(prog):
    n_in, instrs, outs = prog
    def nat(x):
        return str(x) if x >= 0 else "4294967295"
    its = ", ".join(f"⟨{_lean_op(nm, ps)}, [{', '.join(nat(a) for a in args)}], {nout}⟩" for nm, ps, args, nout in instrs)
    return f"⟨{n_in}, [{its}], [{', '.join(nat(o) for o in outs)}]⟩"


GEN_UNPACKS = [(1, 2, True, 5, "qubit"), (3, 0, False, 3, "int"), (0, 0, True, 2, "int"), (2, 0, False, 2, "qubit"),
               (2, 1, True, 3, "int")]


def translate(ctx):
    import bootstrap  # noqa: F401  (REPO honoured by feed/bootstrap)
    try:
        fixed = extract_fixed()
        ups = []
        for (l, r, s, nlen, kind) in GEN_UNPACKS:
            ups.append(((l, r, s, nlen, kind), extract_unpack(l, r, s, nlen, kind)[0]))
    except Exception as e:  # noqa: BLE001
        ctx.broke(f"T-obj extraction failed: {type(e).__name__}: {e}")
        ctx.extra["extract_error"] = repr(e)
        return
    ctx.fixed = fixed
    lines = [
        "import GuppyVerif.Model.ArraySem",
        "/-! GENERATED by harness/props/c19.py (translate) from the Hugr that /repo's compiler produces for the",
        "    C19 probe programs.  Do not edit; regenerated on every run. -/",
        "namespace GuppyVerif.ArraySem.Gen",
        "",
    ]
    for nm in ["getitem_classical", "getitem_classical_fixed", "getitem_linear", "setitem_classical", "setitem_linear",
               "inout_linear", "copy_classical"]:
        lean_nm = "".join(w.capitalize() if k else w for k, w in enumerate(nm.split("_")))
        lines.append(f"def {lean_nm} : Prog := {_lean_prog(fixed[nm])}")
    for k, ((l, r, s, nlen, kind), prog) in enumerate(ups):
        lines.append(f"/-- `up` with l={l} r={r} starred={s} n={nlen} elements {kind} -/")
        lines.append(f"def unpack{k} : Prog := {_lean_prog(prog)}")
        lines.append(f"def unpack{k}Shape : Nat × Nat × Bool × Nat := ({l}, {r}, {'true' if s else 'false'}, {nlen})")
    L = fixed.get("comp#loop")
    if L is None:
        L = (0, 0, 0, 0, [], (0, [("shape?", [], [], 0)], []), 0, 0, 0)
    nat = lambda x: str(x) if isinstance(x, int) and x >= 0 else "4294967295"
    lines.append("/-- the comprehension loop of `array(elt_fn(x) for x in xs)`, `xs : array[int, 4]` -/")
    lines.append(f"def compLoop : CompLoop := ⟨{nat(L[0])}, {L[1] if isinstance(L[1], int) else 0}, {nat(L[2])}, {nat(L[3])}, "
                 f"[{', '.join(nat(x) for x in L[4])}], {_lean_prog(L[5])}, {nat(L[6])}, {nat(L[7])}, {nat(L[8])}⟩")
    lines.append("def compLoopLen : Nat := 4")
    lines += ["", "end GuppyVerif.ArraySem.Gen", ""]
    path = os.path.join(vlib.LEAN, "GuppyVerif", "Gen", "C19Lowering.lean")
    new = "\n".join(lines)
    old = open(path).read() if os.path.exists(path) else None
    if old != new:
        with open(path, "w") as f:
            f.write(new)
    ctx.extra["gen_file"] = "lean/GuppyVerif/Gen/C19Lowering.lean"


# ------------------------------------------------------------------ T-exec of ArrayIter.__next__
class _Nothing:
    def __repr__(self):
        return "nothing"


class _Some:
    def __init__(self, v):
        self.v = v


class ShimArray:
    """list-backed borrow array with lent flags (None = lent)"""

    def __init__(self, cells):
        self.cells = list(cells)


class RealNext:
    def __init__(self, ctx):
        from guppylang_internals.engine import DEF_STORE
        import guppylang.std.array as am

        self.am = am
        raw = DEF_STORE.raw_defs
        cls = raw[am.ArrayIter.id].python_class
        ann = list(getattr(cls, "__annotations__", {}))
        ctx.extra["ArrayIter_fields"] = ann
        self.fields = ann
        if len(ann) != 2:
            ctx.broke(f"T-src: struct ArrayIter no longer has two fields: {ann}")
        fields = ann
        self.NOTHING = _Nothing()
        outer = self

        class ArrayIter:
            def __init__(self, *args):
                if len(args) != len(fields):
                    raise TypeError("ArrayIter() arity")
                for f, a in zip(fields, args):
                    setattr(self, f, a)

        self.ArrayIter = ArrayIter
        self.linear = False
        self.events = []

        def unsafe_getitem(xs, idx):
            # the Python reading of ArrayGetitemCompiler (oracle-side transcription of the assumed semantics)
            r = py_run(outer.getitem_prog[outer.linear], [("arr", tuple(xs.cells)), ("int", int(idx))])
            if r[0] == "panic":
                raise Panic(r[1])
            elem, arr = r[1]
            xs.cells = list(arr[1])
            return elem[1]

        def discard_all_used(xs):
            r = py_run(outer.discard_prog[outer.linear], [("arr", tuple(xs.cells))])
            if r[0] == "panic":
                raise Panic(r[1])
            outer.events.append("discard")
            return None

        g = {"ArrayIter": ArrayIter, "some": _Some, "nothing": lambda: self.NOTHING,
             "_array_unsafe_getitem": unsafe_getitem, "_array_discard_all_used": discard_all_used,
             "int": int, "n": 0, "__builtins__": {}}
        self.g = g
        r = raw[DEF_STORE.impls[am.ArrayIter.id]["__next__"]]
        f = r.python_func
        self.next_fn = types.FunctionType(f.__code__, g, f.__name__, f.__defaults__, None)
        # which compilers do the two helpers use (T-src)
        self.helper_compilers = {}
        for nm in ("_array_unsafe_getitem", "_array_discard_all_used"):
            d = getattr(am, nm)
            rd = raw[d.id]
            self.helper_compilers[nm] = type(getattr(rd, "call_compiler", None)).__name__
        ctx.extra["helper_compilers"] = self.helper_compilers

    def call(self, linear, cells, i):
        """returns canonical reply string like the driver's"""
        self.linear = linear
        self.g["n"] = len(cells)
        arr = ShimArray(cells)
        st = self.ArrayIter(arr, _I(i))
        try:
            r = self.next_fn(st)
        except Panic as p:
            parts = str(p).split(" ", 1)
            import c19_ssa as S
            if parts[0] == "unwrapFail":
                return "panic unwrapFail " + S.sexp_atom(parts[1])
            return "panic " + str(p)
        except Exception as e:  # noqa: BLE001
            return "exception:" + type(e).__name__
        if r is self.NOTHING:
            return "ok none"
        if isinstance(r, _Some):
            elem, it = r.v
            xs2 = getattr(it, self.fields[0])
            i2 = getattr(it, self.fields[1])
            return f"ok some {elem} {cells_sexp(xs2.cells)} {int(i2)}"
        return "exception:result"


class _I(int):
    """Guppy int under CPython: 64-bit wrap on +"""

    def __add__(self, o):
        return _I(wrap64(int(self) + int(o)))

    __radd__ = __add__


# ------------------------------------------------------------------ generators
def gen_cells(rng, maxlen=8, lent_p=0.25):
    nlen = rng.choice([0, 1, 1, 2, 3, 3, 4, 5, 6, 8][: maxlen + 2])
    return [None if rng.random() < lent_p else rng.randrange(0, 100) for _ in range(nlen)]


def gen_index(rng, nlen):
    k = rng.random()
    if k < 0.45 and nlen:
        return rng.randrange(0, nlen)
    if k < 0.7:
        return rng.choice([-1, -nlen, -nlen - 1, nlen, nlen + 1, -2])
    if k < 0.85:
        return rng.choice([M63 - 1, -M63, -M63 + 1, M63 - 2, -(1 << 32), 1 << 32, (1 << 62)])
    return rng.randrange(-nlen - 3, nlen + 4)


# property oracle: Python list + lent flags, literal reading of the statement
def oracle_get(linear, cells, i):
    nlen = len(cells)
    if not (0 <= i < nlen):
        return "panic"
    if cells[i] is None:
        return "panic"
    new = list(cells)
    if linear:
        new[i] = None
    return ("ok", cells[i], new)


def oracle_set(linear, cells, i, v):
    nlen = len(cells)
    if not (0 <= i < nlen):
        return "panic"
    if linear:
        if cells[i] is not None:
            return "panic"
    else:
        if cells[i] is None:
            return "panic"
    new = list(cells)
    new[i] = v
    return ("ok", new)


def _real_get(progs, linear, cells, i):
    r = py_run(progs["getitem_linear" if linear else "getitem_classical"], [("arr", tuple(cells)), ("int", i)])
    return r


def _real_set(progs, linear, cells, i, v):
    return py_run(progs["setitem_linear" if linear else "setitem_classical"],
                  [("arr", tuple(cells)), ("int", i), ("elem", v)])


def _canon_get(r):
    """map an interpreter result of a getitem op list to the oracle's vocabulary (+ display string)"""
    if r[0] == "panic":
        if r[1].startswith("unknownOp:"):
            return "unknown", show_result(r)
        return ("panic" if r[1] != "illTyped" else "illTyped"), show_result(r)
    v = r[1]
    if len(v) == 2 and v[0][0] == "elem" and v[1][0] == "arr":
        return ("ok", v[0][1], list(v[1][1])), f"ok {v[0][1]} {cells_sexp(v[1][1])}"
    return "illTyped", show_result(r)


def _canon_set(r):
    if r[0] == "panic":
        if r[1].startswith("unknownOp:"):
            return "unknown", show_result(r)
        return ("panic" if r[1] != "illTyped" else "illTyped"), show_result(r)
    v = r[1]
    if len(v) == 1 and v[0][0] == "arr":
        return ("ok", list(v[0][1])), f"ok {cells_sexp(v[0][1])}"
    return "illTyped", show_result(r)


# ------------------------------------------------------------------ tie
def tie(ctx):
    import c19_ssa as S
    rng = ctx.rng
    fixed = getattr(ctx, "fixed", None)
    if fixed is None:
        try:
            fixed = extract_fixed()
        except Exception as e:  # noqa: BLE001
            ctx.broke(f"T-obj extraction failed: {type(e).__name__}: {e}")
            return
    # corpus
    corpus_dir = os.path.join(vlib.VERIF, "corpus", "c19")
    corpus = []
    if os.path.isdir(corpus_dir):
        for fn in sorted(os.listdir(corpus_dir)):
            corpus += json.load(open(os.path.join(corpus_dir, fn)))
    if ctx.replay_in:
        rp = ctx.replay_in["replay"]
        if "case" in rp:
            corpus.append(rp["case"])

    secs = [f(ctx, fixed, corpus) for f in (_sec0, _sec1, _sec2, _sec3, _sec4, _sec5, _sec_named, _sec_frozen)]
    all_lines, spans = [], []
    for g in secs:
        try:
            lines = next(g)
        except StopIteration:  # the section gave up before asking the model anything
            lines = []
        spans.append((len(all_lines), len(lines)))
        all_lines += lines
    reps = ctx.driver(DRIVER, all_lines)  # one driver run for all sections
    for g, (a0, n0) in zip(secs, spans):
        try:
            g.send(reps[a0:a0 + n0])
        except StopIteration:
            pass
    # ---- (6) end-to-end: generated programs on the reference interpreter (both schedules) vs CPython
    import c19_e2e
    c19_e2e.c19_e2e(ctx)


def _sec0(ctx, fixed, corpus):
    import c19_ssa as S
    rng = ctx.rng
    # ---- (1) fixed probes vs model emission
    emit_reqs = {
        "getitem_classical": "(emit getitem 0)", "getitem_classical_fixed": "(emit getitem 0)",
        "getitem_linear": "(emit getitem 1)", "setitem_classical": "(emit setitem 0)",
        "setitem_linear": "(emit setitem 1)", "inout_linear": "(emit inout cal)", "copy_classical": "(emit copy)",
        # element type non-copyable in Guppy but copyable in Hugr: must still be borrow ... return (fixed in /repo a31acc9)
        "inout_affine_custom": "(emit inout use)",
    }
    names = list(emit_reqs)
    extra_reqs = ["(emit discard 0)", "(emit discard 1)", "(emit compbody)", "(emit comploop 4)"]
    replies = yield [emit_reqs[k] for k in names] + extra_reqs
    model_emit = dict(zip(names, replies))
    for k in names:
        real = _sexp(fixed[k])
        ctx.count({"probe": k, "extracted": real}, nontrivial=True, kind="probe:" + k)
        if real != model_emit[k]:
            ctx.broke(f"T-obj: lowering of probe `{k}` differs from the model's emission (real={real} model={model_emit[k]})")
    # the two borrowing-call probes on a concrete array: element 1 must come back updated, nothing else touched
    for k in ("inout_linear", "inout_affine_custom"):
        got = py_run(fixed[k], [("arr", (10, 20, 30)), ("int", 1)])
        want = ("ok", [("arr", (10, 20 + CALL_OFFSET, 30))])
        if unknown_op(got):
            ctx.broke(f"probe `{k}`: extracted op list contains an operation without modelled semantics: {got[1]}")
        elif got != want:
            ctx.violation(f"input:probe {k}", f"probe `{k}`: callee(xs[1]) on [10, 20, 30] through the lowered op list "
                          f"{_sexp(fixed[k])} gives {show_result(got)}, expected {show_result(want)}",
                          {"case": {"kind": "probe", "name": k}, "extracted": _sexp(fixed[k]), "real": show_result(got),
                           "oracle": show_result(want)})
    # signatures: borrowed array is appended to the outputs
    exp_sig = {"getitem_classical": (2, 2), "setitem_classical": (3, 1), "inout_linear": (2, 1), "copy_classical": (1, 2)}
    for k, sg in exp_sig.items():
        if tuple(fixed[k + "#sig"]) != sg:
            ctx.broke(f"T-obj: FuncDefn signature of probe `{k}` is {fixed[k + '#sig']}, expected {sg}")
    # ArrayIter.__next__ compiled body: same getitem op list (sliced), discard only for linear
    def slice_of(sexp_prog_name):
        p = fixed[sexp_prog_name]
        return _canon_slice(p[1], p[0], ARRAY_NAMES - {"iadd", "const"})
    for nm, lin in [("loop_linear", True), ("loop_classical", False)]:
        # ArrayIter.__next__ is compiled generically over the non-copyable element type variable `L`, so the
        # borrow/return lowering is used for classical arrays too
        exp = [slice_of("getitem_linear"), [("discard_all_borrowed", (), ("in0",), 0)]]
        got = fixed[nm + "#next_slices"]
        ctx.count({"probe": nm, "slices": got}, nontrivial=True, kind="probe:next-body")
        if sorted(map(repr, got)) != sorted(map(repr, exp)):
            ctx.broke(f"T-obj: array ops in the compiled ArrayIter.__next__ ({nm}) are {got}, expected {exp}")
    # discard emission
    disc0, disc1, compbody, comploop = replies[len(names):]
    # the whole comprehension loop (plumbing + body + initial values + result port)
    L = fixed.get("comp#loop")
    ctx.count({"probe": "comploop", "loop": comp_loop_sexp(L) if L else None, "problems": fixed.get("comp#loop_problems")},
              nontrivial=True, kind="probe:comploop")
    for pr in fixed.get("comp#loop_problems") or []:
        ctx.broke(f"T-obj: comprehension loop plumbing differs from the model: {pr}")
    if L is None or comp_loop_sexp(L) != comploop:
        ctx.broke(f"T-obj: comprehension loop extracted from the Hugr differs from emitCompLoop 4 "
                  f"(real={comp_loop_sexp(L) if L else None} model={comploop})")
    if disc0 != "(prog 1 () ())" or disc1 != "(prog 1 ((discard_all_borrowed () (0) 0)) ())":
        ctx.broke(f"model emission of discard changed: {disc0} / {disc1}")
    # comprehension body
    exp_body = [("itousize", (), ("in0",), 1), ("return", (), ("in1", "w0", "in2"), 1), ("const", ("1",), (), 1),
                ("iadd", (), ("in0", "w2"), 1)]
    ctx.count({"probe": "comp", "body": fixed["comp#body"], "outer": fixed["comp#outer"]}, nontrivial=True, kind="probe:comp")
    if fixed["comp#body"] != exp_body:
        ctx.broke(f"T-obj: comprehension loop body is {fixed['comp#body']}, expected {exp_body}")
    if compbody != "(prog 3 ((itousize () (0) 1) (return () (1 3 2) 1) (const (1) () 1) (iadd () (0 5) 1)) (4 6))":
        ctx.broke(f"model emission of the comprehension body changed: {compbody}")
    if fixed["comp#outer"] is None or ("new_all_borrowed", ("4",)) not in fixed["comp#outer"] or ("const", ("0",)) not in fixed["comp#outer"]:
        ctx.broke(f"T-obj: comprehension does not start from new_all_borrowed(4) and counter 0: {fixed['comp#outer']}")


def _sec1(ctx, fixed, corpus):
    import c19_ssa as S
    rng = ctx.rng
    # ---- (2) unpack shapes
    shapes = []
    maxn = 4 if ctx.quick else 7
    for nlen in range(0, maxn + 1):
        for l in range(0, nlen + 1):
            for r in range(0, nlen - l + 1):
                for starred in (True, False):
                    if not starred and (l != nlen or r != 0):
                        continue  # without a starred target every target is a "left" target
                    if l + r + (1 if starred else 0) == 0:
                        continue
                    shapes.append((l, r, starred, nlen))
    kinds = {}
    for sh in shapes:
        kinds[sh] = ["int", "qubit"] if (not ctx.quick or (sh[3] <= 3)) else [rng.choice(["int", "qubit"])]
    if not ctx.quick:
        for _ in range(40):
            nlen = rng.randrange(8, 25)
            l = rng.randrange(0, nlen + 1)
            r = rng.randrange(0, nlen - l + 1)
            starred = rng.random() < 0.6 or True
            sh = (l, r, starred, nlen)
            if sh not in kinds:
                shapes.append(sh)
                kinds[sh] = [rng.choice(["int", "qubit"])]
    for c in corpus:
        if c.get("kind") == "unpack":
            sh = (c["l"], c["r"], bool(c["starred"]), c["n"])
            if sh not in kinds:
                shapes.append(sh)
                kinds[sh] = ["int"]
    up_cases = []
    for sh in shapes:
        for kind in kinds[sh]:
            l, r, starred, nlen = sh
            try:
                prog, src = extract_unpack(l, r, starred, nlen, kind)
                up_cases.append((sh, kind, prog, src, None))
            except Exception as e:  # noqa: BLE001
                up_cases.append((sh, kind, None, unpack_src(l, r, starred, nlen, kind), e))
    reqs = []
    for (sh, kind, prog, src, err) in up_cases:
        l, r, starred, nlen = sh
        reqs.append(f"(emit unpack {l} {r} {1 if starred else 0} {nlen})")
        if prog is not None:
            xs = [10 + k for k in range(nlen)]
            reqs.append(f"(run {_sexp(prog)} ((arr {' '.join(map(str, xs))})))")
        else:
            reqs.append("(emit copy)")
    reps = yield reqs
    for k, (sh, kind, prog, src, err) in enumerate(up_cases):
        l, r, starred, nlen = sh
        model, lean_run = reps[2 * k], reps[2 * k + 1]
        case = {"kind": "unpack", "l": l, "r": r, "starred": starred, "n": nlen, "elem": kind}
        ctx.count(case, nontrivial=(l > 0 and r > 0) or starred, kind=f"unpack:{kind}")
        key = f"input:unpack l={l} r={r} starred={int(starred)} n={nlen} elem={kind}"
        if prog is None:
            ctx.violation(key, f"array unpacking probe is not compiled: {type(err).__name__}: {err}",
                          {"case": case, "source": src, "error": repr(err)})
            continue
        real = _sexp(prog)
        # oracle: Python's unpacking of the same list
        xs = [10 + k2 for k2 in range(nlen)]
        want = [("elem", x) for x in xs[:l]] + ([("arr", tuple(xs[l:nlen - r]))] if starred else []) + \
               [("elem", x) for x in xs[nlen - r:]]
        got = py_run(prog, [("arr", tuple(xs))])
        if unknown_op(got):
            ctx.broke(f"unpack probe {sh}: extracted op list contains an operation without modelled semantics: {got[1]}")
        elif got != ("ok", want):
            ctx.violation(key, f"unpacking `{src.splitlines()[2].strip()}` of {xs}: lowered op list gives "
                          f"{show_result(got)}, Python gives {show_result(('ok', want))}",
                          {"case": case, "source": src, "extracted": real, "got": show_result(got),
                           "expected": show_result(("ok", want))})
        if real != model:
            ctx.broke(f"T-obj: lowering of unpack shape {sh} ({kind}) differs from emitUnpack (real={real} model={model})")
        if lean_run != show_result(got):
            ctx.broke(f"Lean interpreter and Python interpreter disagree on the extracted unpack op list {sh}: {lean_run} vs {show_result(got)}")


def _sec2(ctx, fixed, corpus):
    import c19_ssa as S
    rng = ctx.rng
    # ---- (3) single ops and op sequences through the extracted getitem/setitem op lists
    nseq = ctx.n(400, 40000)
    reqs, metas = [], []
    for c in corpus:
        if c.get("kind") == "seq":
            metas.append((bool(c["linear"]), [None if x is None else x for x in c["cells"]], [tuple(o) for o in c["ops"]]))
        if c.get("kind") == "access":  # a replayed single access
            op = ("g", c["i"]) if c.get("v") is None else ("s", c["i"], c["v"])
            metas.append((bool(c["linear"]), list(c["cells"]), [op]))
    for _ in range(nseq):
        linear = rng.random() < 0.5
        cells = gen_cells(rng, lent_p=0.25 if linear else 0.05)
        ops = []
        for _k in range(rng.randrange(1, 7)):
            i = gen_index(rng, len(cells))
            if rng.random() < 0.5:
                ops.append(("g", i))
            else:
                ops.append(("s", i, rng.randrange(100, 200)))
        metas.append((linear, cells, ops))
    for (linear, cells, ops) in metas:
        # one request per op, threading the state on the Python side through the extracted op lists
        cur = list(cells)
        for op in ops:
            if op[0] == "g":
                reqs.append(("g", linear, list(cur), op[1], None))
                c, _ = _canon_get(_real_get(fixed, linear, cur, op[1]))
                if c[0] != "ok":
                    break
                cur = c[2]
            else:
                reqs.append(("s", linear, list(cur), op[1], op[2]))
                c, _ = _canon_set(_real_set(fixed, linear, cur, op[1], op[2]))
                if c[0] != "ok":
                    break
                cur = c[1]
    lines = []
    for (k, linear, cells, i, v) in reqs:
        if k == "g":
            lines.append(f"(getitem {int(linear)} {cells_sexp(cells)} {i})")
        else:
            lines.append(f"(setitem {int(linear)} {cells_sexp(cells)} {i} {v})")
    reps = yield lines
    for (k, linear, cells, i, v), line, model in zip(reqs, lines, reps):
        nlen = len(cells)
        if k == "g":
            real = _real_get(fixed, linear, cells, i)
            orc = oracle_get(linear, cells, i)
            real_c, real_s = _canon_get(real)
        else:
            real = _real_set(fixed, linear, cells, i, v)
            orc = oracle_set(linear, cells, i, v)
            real_c, real_s = _canon_set(real)
        nontriv = not (0 <= i < nlen) or (0 <= i < nlen and cells[i] is None)
        ctx.count(line, nontrivial=nontriv, kind=("lin-" if linear else "cls-") + k + ":" + ("ok" if real[0] == "ok" else "panic"))
        if real_c == "unknown":
            ctx.broke(f"extracted op list contains an operation without modelled semantics: {real_s}")
        elif real_c != orc:
            ctx.violation("input:" + line, f"array access `{line}` through the lowered op list gives {real_s}; "
                          f"Python-list semantics (non-negative indices, lent flags) gives {orc}",
                          {"case": {"kind": "access", "line": line, "linear": linear, "cells": cells, "i": i, "v": v}, "real": real_s, "oracle": orc, "model": model,
                           "extracted": _sexp(fixed[("getitem_" if k == 'g' else "setitem_") + ("linear" if linear else "classical")])})
        if real_s != model:
            ctx.broke(f"correspondence: extracted op list vs Lean model on `{line}` (real={real_s} model={model})")


def _sec3(ctx, fixed, corpus):
    import c19_ssa as S
    rng = ctx.rng
    # ---- (3b) borrowing call through the extracted op list
    lines, metas = [], []
    for _ in range(ctx.n(100, 5000)):
        cells = gen_cells(rng, lent_p=0.15)
        i = gen_index(rng, len(cells))
        metas.append((cells, i))
        lines.append(f"(run {_sexp(fixed['inout_linear'])} ((arr {' '.join('_' if c is None else str(c) for c in cells)}) (int {i})))")
    reps = yield lines
    for (cells, i), line, model in zip(metas, lines, reps):
        real = py_run(fixed["inout_linear"], [("arr", tuple(cells)), ("int", i)])
        if 0 <= i < len(cells) and cells[i] is not None:
            new = list(cells)
            new[i] = cells[i] + CALL_OFFSET
            orc = ("ok", [("arr", tuple(new))])
        else:
            orc = "panic"
        real_c = "panic" if real[0] == "panic" and real[1] != "illTyped" else real
        ctx.count(line, nontrivial=not (0 <= i < len(cells)) or cells[i] is None, kind="inout:" + real[0])
        if unknown_op(real):
            ctx.broke(f"inout probe: extracted op list contains an operation without modelled semantics: {real[1]}")
        elif real_c != orc:
            ctx.violation(f"input:inout cells={cells_sexp(cells)} i={i}",
                          f"cal(xs[{i}]) on {cells_sexp(cells)} through the lowered op list gives {show_result(real)}, expected {orc}",
                          {"case": {"kind": "inout", "cells": cells, "i": i}, "real": show_result(real), "oracle": repr(orc)})
        if show_result(real) != model:
            ctx.broke(f"correspondence: Lean vs Python interpretation of the extracted inout op list on {cells_sexp(cells)} i={i}: {model} vs {show_result(real)}")


def _sec4(ctx, fixed, corpus):
    import c19_ssa as S
    rng = ctx.rng
    # ---- (4) T-exec: ArrayIter.__next__ from /repo under CPython
    try:
        rn = RealNext(ctx)
    except Exception as e:  # noqa: BLE001
        ctx.broke(f"T-exec: cannot rebuild ArrayIter.__next__ from /repo: {type(e).__name__}: {e}")
        return
    rn.getitem_prog = {True: fixed["getitem_linear"], False: fixed["getitem_classical"]}
    rn.discard_prog = {True: (1, [("discard_all_borrowed", [], [0], 0)], []), False: (1, [], [])}
    if rn.helper_compilers != {"_array_unsafe_getitem": "ArrayGetitemCompiler", "_array_discard_all_used": "ArrayDiscardAllUsedCompiler"}:
        ctx.broke(f"T-src: helpers of ArrayIter.__next__ use other compilers: {rn.helper_compilers}")
    lines, metas = [], []
    for _ in range(ctx.n(300, 20000)):
        linear = rng.random() < 0.5
        cells = gen_cells(rng, lent_p=0.3 if linear else 0.0)
        nlen = len(cells)
        if linear and rng.random() < 0.6:
            j = rng.randrange(0, nlen + 1)
            cells = [None] * j + [c if c is not None else 7 for c in cells[j:]]
            i = j if rng.random() < 0.8 else gen_index(rng, nlen)
        else:
            i = gen_index(rng, nlen)
        metas.append((linear, cells, i))
        lines.append(f"(next {int(linear)} {cells_sexp(cells)} {i})")
    # full drains
    drains = []
    for _ in range(ctx.n(40, 2000)):
        linear = rng.random() < 0.5
        xs = [rng.randrange(0, 100) for _ in range(rng.choice([0, 1, 2, 3, 5, 8]))]
        drains.append((linear, xs))
        lines.append(f"(drain {int(linear)} {cells_sexp(xs)} 0 {len(xs) + 1})")
    reps = yield lines
    for (linear, cells, i), line, model in zip(metas, lines, reps):
        real = rn.call(linear, cells, i)
        ctx.count(line, nontrivial=not (0 <= i < len(cells)) or (0 <= i < len(cells) and cells[i] is None),
                  kind="next:" + real.split(" ")[1] if real.startswith("ok") else "next:panic")
        if real != model:
            ctx.broke(f"T-exec: ArrayIter.__next__ from /repo vs Lean model on `{line}`: real={real} model={model}")
    for (linear, xs), line, model in zip(drains, lines[len(metas):], reps[len(metas):]):
        # real: iterate the real __next__ until nothing
        rn.events = []
        got, cells, i, out = [], list(xs), 0, None
        for _k in range(len(xs) + 2):
            r = rn.call(linear, cells, i)
            if r == "ok none":
                out = "ok (" + " ".join(map(str, got)) + ")"
                break
            if not r.startswith("ok some"):
                out = r
                break
            e = S_parse_some(r)
            got.append(e[0])
            cells, i = e[1], e[2]
        else:
            out = "fuel"
        ctx.count(line, nontrivial=len(xs) >= 2, kind="drain")
        want = "ok (" + " ".join(map(str, xs)) + ")"
        if out != want or (linear and rn.events != ["discard"]):
            ctx.violation(f"input:iterate linear={int(linear)} xs={xs}",
                          f"for-loop over array {xs} (linear={linear}) via the real ArrayIter.__next__ yields {out}, expected {want}",
                          {"case": {"kind": "drain", "linear": linear, "xs": xs}, "real": out, "oracle": want, "events": rn.events})
        if out != model:
            ctx.broke(f"T-exec: draining the real ArrayIter vs Lean `drain` on {xs}: real={out} model={model}")


def _sec5(ctx, fixed, corpus):
    import c19_ssa as S
    rng = ctx.rng
    # ---- (5) comprehension loop: model vs oracle (the body op list was tied above)
    lines, metas = [], []
    for _ in range(ctx.n(30, 1000)):
        nlen = rng.choice([0, 1, 2, 3, 5, 8])
        k = rng.choice([nlen, nlen, nlen, max(0, nlen - 1), nlen + 1])
        es = [rng.randrange(0, 100) for _ in range(k)]
        metas.append((nlen, es))
        lines.append(f"(comp {nlen} ({' '.join(map(str, es))}))")
    # whole-loop runs: the EXTRACTED loop interpreted in Python vs Python's list comprehension, and vs the Lean run
    L = fixed.get("comp#loop")
    loop_cases = []
    if L is not None and L[0] == 4:
        for _ in range(ctx.n(10, 200)):
            xs = [rng.randrange(0, 100) for _ in range(4)]
            loop_cases.append(xs)
            lines.append(f"(comploop 4 {cells_sexp(xs)} 5)")
    reps = yield lines
    for xs, model in zip(loop_cases, reps[len(metas):]):
        got = py_run_comp(L, xs, lambda x: x + CALL_OFFSET)
        want = ("ok", [("arr", tuple(x + CALL_OFFSET for x in xs))])
        ctx.count({"comploop": xs}, nontrivial=True, kind="comploop-run")
        if unknown_op(got):
            ctx.broke(f"comprehension loop: extracted body contains an operation without modelled semantics: {got[1]}")
        elif got != want:
            ctx.violation(f"input:comprehension xs={xs}", f"array(elt_fn(x) for x in {xs}) through the extracted loop "
                          f"{comp_loop_sexp(L)} gives {show_result(got)}, Python gives {show_result(want)}",
                          {"case": {"kind": "comploop", "xs": xs}, "extracted": comp_loop_sexp(L), "real": show_result(got),
                           "oracle": show_result(want)})
        if model != show_result(want):
            ctx.broke(f"Lean runComp (emitCompLoop 4) on {xs}: {model}, expected {show_result(want)}")
    reps = reps[:len(metas)]
    body_prog = (3, [("itousize", [], [0], 1), ("return", [], [1, 3, 2], 1), ("const", ["1"], [], 1), ("iadd", [], [0, 5], 1)], [4, 6])
    for (nlen, es), line, model in zip(metas, lines, reps):
        # real: the extracted body (checked equal to body_prog above) folded in Python
        arr, cnt, out = tuple([None] * nlen), 0, None
        for e in es:
            r = py_run(body_prog, [("int", cnt), ("arr", arr), ("elem", e)])
            if r[0] == "panic":
                out = "panic " + r[1]
                break
            arr, cnt = r[1][0][1], r[1][1][1]
        if out is None:
            out = f"ok {cells_sexp(arr)} {cnt}"
        want = "panic indexOob" if len(es) > nlen else f"ok {cells_sexp(list(es) + [None] * (nlen - len(es)))} {len(es)}"
        ctx.count(line, nontrivial=len(es) != nlen or nlen >= 2, kind="comp")
        if out != want:
            ctx.violation("input:" + line, f"array comprehension body folded over {es} into length {nlen}: {out}, expected {want}",
                          {"case": {"kind": "comp", "n": nlen, "es": es}, "real": out, "oracle": want})
        if out != model:
            ctx.broke(f"correspondence: comprehension fold on `{line}`: python={out} lean={model}")


class _FrozenShim(list):
    def __getitem__(self, i):
        i = int(i) % M64  # itousize
        if i >= len(self):
            raise Panic("unwrapFail Frozenarray index out of bounds")
        return list.__getitem__(self, i)


def _sec_frozen(ctx, fixed, corpus):
    """T-exec: the real FrozenarrayIter.__next__ from /repo under CPython vs the Lean `fnext`; full drains vs the list itself"""
    import c19_ssa as S
    rng = ctx.rng
    try:
        from guppylang_internals.engine import DEF_STORE
        import guppylang.std.array as am
        raw = DEF_STORE.raw_defs
        fields = list(getattr(raw[am.FrozenarrayIter.id].python_class, "__annotations__", {}))
        NOTHING = _Nothing()

        class FrozenarrayIter:
            def __init__(self, *args):
                for f, a in zip(fields, args, strict=True):
                    setattr(self, f, a)

        g = {"FrozenarrayIter": FrozenarrayIter, "some": _Some, "nothing": lambda: NOTHING, "int": int, "n": 0, "__builtins__": {}}
        f0 = raw[DEF_STORE.impls[am.FrozenarrayIter.id]["__next__"]].python_func
        next_fn = types.FunctionType(f0.__code__, g, f0.__name__, f0.__defaults__, None)
    except Exception as e:  # noqa: BLE001
        ctx.broke(f"T-exec: cannot rebuild FrozenarrayIter.__next__ from /repo: {type(e).__name__}: {e}")
        return

    def call(xs, i):
        g["n"] = len(xs)
        try:
            r = next_fn(FrozenarrayIter(_FrozenShim(xs), _I(i)))
        except Panic as p_:
            parts = str(p_).split(" ", 1)
            return "panic unwrapFail " + S.sexp_atom(parts[1]) if parts[0] == "unwrapFail" else "panic " + str(p_)
        except Exception as e:  # noqa: BLE001
            return "exception:" + type(e).__name__
        if r is NOTHING:
            return "ok none"
        if isinstance(r, _Some):
            elem, it = r.v
            return f"ok some {elem} {int(getattr(it, fields[1]))}"
        return "exception:result"

    lines, metas = [], []
    for _ in range(ctx.n(100, 5000)):
        xs = [rng.randrange(0, 100) for _ in range(rng.choice([0, 1, 1, 2, 3, 5]))]
        i = gen_index(rng, len(xs))
        metas.append((xs, i))
        lines.append(f"(fnext ({' '.join(map(str, xs))}) {i})")
    reps = yield lines
    for (xs, i), line, model in zip(metas, lines, reps):
        real = call(xs, i)
        ctx.count(line, nontrivial=not (0 <= i < len(xs)), kind="fnext:" + real.split(" ")[1] if real.startswith("ok") else "fnext:panic")
        if real != model:
            ctx.broke(f"T-exec: FrozenarrayIter.__next__ from /repo vs Lean model on `{line}`: real={real} model={model}")
    for _ in range(ctx.n(20, 500)):  # full drains: every element, in order, exactly once
        xs = [rng.randrange(0, 100) for _ in range(rng.choice([0, 1, 2, 3, 5, 8]))]
        got, i, out = [], 0, None
        for _k in range(len(xs) + 2):
            r = call(xs, i)
            if r == "ok none":
                out = got
                break
            if not r.startswith("ok some"):
                out = r
                break
            _, _, v, i2 = r.split(" ")
            got.append(int(v))
            i = int(i2)
        ctx.count({"fdrain": xs}, nontrivial=len(xs) >= 1, kind="fdrain")
        if out != xs:
            ctx.violation(f"input:iterate frozenarray xs={xs}", f"iterating the real FrozenarrayIter.__next__ over frozenarray {xs} "
                          f"yields {out}, expected every element in order: {xs}",
                          {"case": {"kind": "fdrain", "xs": xs}, "real": repr(out), "oracle": repr(xs)})


def _sec_named(ctx, fixed, corpus):
    """unpacking with a name on BOTH sides of the star (`x, *r, x = xs`): targets are bound left to right, so the rightmost
    occurrence wins (Python).  Lowered probe vs `emitUnpackNamed` (assignment order of `_assign_array`) vs Python itself."""
    import c19_ssa as S
    import feed
    rng = ctx.rng
    shapes = [(1, 1, 3), (1, 1, 4), (2, 2, 5), (1, 2, 4), (2, 1, 4), (3, 2, 6)]
    if not ctx.quick:
        shapes += [(l, r, l + r + k) for l in range(1, 4) for r in range(1, 4) for k in (0, 1, 2)]
    cases, lines = [], []
    for c in corpus:
        if c.get("kind") == "unpacknamed":
            shapes.insert(0, (c["l"], c["r"], c["n"]))
    for (l, r, nlen) in shapes:
        for _rep in range(2):
            # names in pattern order: left names 0..l-1, star = 100, right targets reuse left names with probability 1/2
            left = list(range(l))
            right = [rng.choice(left) if rng.random() < 0.6 else 10 + k for k in range(r)]
            if _rep == 0:
                right[-1] = left[0]  # `x, ..., *r, ..., x`
            if rng.random() < 0.3 and l >= 2:
                left[1] = left[0]    # duplicates on the same side too
            # the STARRED name may be repeated too (`*mid, ..., mid`, `mid, *mid`): bound in pattern order (/repo 535d821)
            if rng.random() < 0.4:
                right[rng.randrange(r)] = 100
            if rng.random() < 0.25:
                left[rng.randrange(l)] = 100
            names = left + [100] + right
            def nm(x):
                return "mid" if x == 100 else f"v{x}"
            pat = ", ".join([nm(x) for x in left] + ["*mid"] + [nm(x) for x in right])
            distinct = list(dict.fromkeys(names))
            penv = {}
            exec(f"{pat} = xs", {"xs": [10 + k for k in range(nlen)]}, penv)  # noqa: S102  which occurrence of a name wins
            rty = ", ".join(f"array[int, {len(penv[nm(x)])}]" if isinstance(penv[nm(x)], list) else "int" for x in distinct)
            rt = rty if len(distinct) == 1 else f"tuple[{rty}]"
            src = (f"@guppy\ndef up(xs: array[int, {nlen}] @owned) -> {rt}:\n    {pat} = xs\n"
                   f"    return {', '.join(nm(x) for x in distinct)}\n")
            m = _lower(src)
            try:
                h = feed.lower(m.up).hugr
                prog, _sig = _block_prog(h, "up")
                # a starred array that is re-bound by a later target of the same name is unused and gets dropped at the end of
                # the block (`tket.guppy.drop`, no outputs): not part of the unpacking
                prog = (prog[0], [i_ for i_ in prog[1] if i_[0] != "drop"], prog[2])
                prog = _strip_return_tuple(prog)
                err = None
            except Exception as e:  # noqa: BLE001
                prog, err = None, e
            finally:
                feed.unload(m)
            cases.append((l, r, nlen, names, distinct, pat, src, prog, err))
            lines.append(f"(emit unpacknamed {l} {r} 1 {nlen} ({' '.join(map(str, names))}))")
    reps = yield lines
    for (l, r, nlen, names, distinct, pat, src, prog, err), model in zip(cases, reps):
        case = {"kind": "unpacknamed", "l": l, "r": r, "n": nlen, "names": names}
        ctx.count(case, nontrivial=True, kind="unpack-named")
        key = f"input:unpack `{pat} = xs` n={nlen}"
        if prog is None:
            ctx.violation(key, f"unpacking probe is not compiled: {type(err).__name__}: {err}", {"case": case, "source": src})
            continue
        xs = [10 + k for k in range(nlen)]
        env = {}
        exec(f"{pat} = xs", {"xs": list(xs)}, env)  # noqa: S102  Python's own left-to-right binding
        def nm(x):
            return "mid" if x == 100 else f"v{x}"
        want = ("ok", [("arr", tuple(env[nm(x)])) if isinstance(env[nm(x)], list) else ("elem", env[nm(x)]) for x in distinct])
        got = py_run(prog, [("arr", tuple(xs))])
        if unknown_op(got):
            ctx.broke(f"named unpack probe: operation without modelled semantics: {got[1]}")
        elif got != want:
            ctx.violation(key, f"`{pat} = xs` with xs = {xs}: the lowered op list binds {[nm(x) for x in distinct]} to "
                          f"{show_result(got)}; Python (targets bound left to right, the rightmost occurrence of a name wins) gives "
                          f"{show_result(want)}", {"case": case, "source": src, "extracted": _sexp(prog), "real": show_result(got),
                                                   "oracle": show_result(want)})
        if _sexp(prog) != model:
            ctx.broke(f"T-obj: lowering of `{pat} = xs` differs from emitUnpackNamed (real={_sexp(prog)} model={model})")


def S_parse_some(r):
    """parse 'ok some <v> (<cells>) <i>'"""
    rest = r[len("ok some "):]
    v, rest = rest.split(" ", 1)
    cs = rest[rest.index("(") + 1: rest.index(")")].split()
    i = int(rest[rest.index(")") + 1:].strip())
    return int(v), [None if c == "_" else int(c) for c in cs], i


def search(ctx, why):
    """something no longer checks: hunt for a concrete input on which the REAL lowering (extracted op
    lists interpreted under the assumed op semantics) departs from Python-list semantics"""
    rng = ctx.rng
    try:
        fixed = extract_fixed()
    except Exception:  # noqa: BLE001
        return
    for _ in range(20000):
        linear = rng.random() < 0.5
        cells = gen_cells(rng, lent_p=0.2)
        i = gen_index(rng, len(cells))
        if rng.random() < 0.5:
            real = _real_get(fixed, linear, cells, i)
            orc = oracle_get(linear, cells, i)
            real_c, _ = _canon_get(real)
            line = f"(getitem {int(linear)} {cells_sexp(cells)} {i})"
        else:
            v = rng.randrange(100, 200)
            real = _real_set(fixed, linear, cells, i, v)
            orc = oracle_set(linear, cells, i, v)
            real_c, _ = _canon_set(real)
            line = f"(setitem {int(linear)} {cells_sexp(cells)} {i} {v})"
        if real_c != "unknown" and real_c != orc:
            ctx.violation("input:" + line, f"array access `{line}` through the lowered op list gives {show_result(real)}; "
                          f"Python-list semantics gives {orc}",
                          {"case": {"kind": "access", "line": line}, "real": show_result(real), "oracle": repr(orc), "why": why})
            return


if __name__ == "__main__":
    vlib.main(sys.modules[__name__])
