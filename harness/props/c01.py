"""C01 — Accepted programs lower to valid HUGR (partial).

Three parts:
 (a) Lean theorems (Props/C01.lean) about the pack/unpack wiring discipline of
     `DFContainer.__getitem__/__setitem__`, for all place trees;
 (b) T-run correspondence of the Lean model with the real DFContainer on generated place trees and
     read/write scripts (c01_wiring.py), with an independent oracle on the real run;
 (c) search: generated accepted programs are lowered by the real compiler and checked by a
     harness-side structural HUGR validator (c01_validate.py).
"""
from __future__ import annotations

import hashlib
import json
import os
import sys
import time

sys.path.insert(0, os.path.dirname(os.path.dirname(os.path.abspath(__file__))))
sys.path.insert(0, os.path.dirname(os.path.abspath(__file__)))
import vlib

PID = "C01"
THEOREM_MODULES = ["GuppyVerif.Props.C01"]  # Wiring (DFContainer) + DFVarIdx (variable scoping) theorems
DRIVER = "C01"
RULE = (
    "three case families. varidx: (parameter list of kinds type/linear type/nat const/int const up to 6, monomorphisation vector or no "
    "context) run on the real type_var_to_hugr / const_var_to_hugr / instantiate_partial and on the Lean model; non-trivial = a kept "
    "parameter after a monomorphised one. wiring: (type tree depth<=3 with copyable/linear/affine leaves, struct|tuple nodes of arity 0-4, "
    "%ret flag, script of 1-12 dfg[place]=wire / dfg[place] ops on sub-places; 70% of scripts respect ownership) run on the real "
    "DFContainer and on the Lean model; non-trivial = some struct/tuple place is read after a write (packing happens). "
    "program: corpus seeds + generated Guppy programs (struct/tuple/linear stress generator + implicit-drop generator over all affine type shapes + generic/comptime generator "
    "(parameter lists mixing monomorphised non-nat @comptime args with kept nat/type parameters in every order) + general typed generator: control "
    "flow, tuples, structs across loops, generics, comptime args, closures, qubits through branches, arrays, affine drops, early "
    "returns) lowered by the real compiler and structurally validated; rejected programs (GuppyError) are not cases; "
    "non-trivial = accepted program; distinct by sha1 of the source"
)
ASSUMPTIONS = [
    "hugr-py's builders add nodes with increasing indices and record links faithfully (the real op sequence is read back from the Hugr)",
    "the structural validator (c01_validate.py) is my re-implementation of HUGR validation rules; extension-op signatures are taken "
    "from the op objects themselves (hugr-py computes them from the extension definitions)",
    "Model/DFWiring.lean is hand-written; agreement with compiler/core.py is established by the same-input correspondence run here",
]
UNMODELLED = [
    "everything in lowering except DFContainer pack/unpack is covered by the validator search only (no Lean model): compile_bb "
    "sort order and tuple-sum outputs, insert_return_vars, insert_drops, monomorphization, the ~60 custom call compilers",
    "SubscriptAccess places (array element borrow/return) in DFContainer; wire *types* in the wiring model (only linearity bits)",
    "validator does not check extension-op signatures against extension definitions, type-argument kinds, or constant values",
]
MANIFEST = {
    "level_text": "Lean theorems (all struct/tuple type trees, place ids, locals maps, wire supplies; structural induction, no bounds) "
    "about the model of DFContainer.__getitem__/__setitem__: setitem stores exactly the leaf sub-places and forgets enclosing cached "
    "values; unpack-then-pack denotes the stored value (independent op interpreter); on a place stored as leaves getitem never fails, "
    "every leaf wire is consumed by exactly one MakeTuple, linear sub-places are forgotten; and for every script of sub-place assignments and "
    "(moving) reads accepted by an independent reference store semantics, every read returns a wire denoting the reference value "
    "(DFContainer is a correct store; false before repair 32e45a7). Also proved (Model/DFVarIdx): under any partial monomorphization "
    "every kept parameter is lowered to a HUGR variable that the monomorphised FuncDefn's parameter list binds to the same parameter, injectively. The models are tied to compiler/core.py on every "
    "run by same-input correspondence against the real DFContainer (quick 400 / thorough 12000 scripts) with an independent oracle on the "
    "real Hugr. The rest of C01 (whole programs lower to structurally valid HUGR) is NOT proved: it is searched by lowering generated accepted "
    "programs with the real compiler and checking them with a harness-side structural validator (quick ~180 / thorough ~3300 programs + ~580 programs of the repo test-suite).",
    "level_note": "partial. Proof level applies to the pack/unpack wiring discipline only. Port typing, linear-once, acyclicity, CFG row agreement, "
    "order edges, static edges of whole programs are checked by sampling with my own validator (no HUGR validator accepts /repo's output here). "
    "Trusted: Lean kernel + 3 std axioms; the validator; hugr-py builders; the generators' coverage.",
    "technique": "Lean 4 proof over a hand-written model + differential correspondence with DFContainer + generated-program search with a structural HUGR validator",
    "design_ref": "DESIGN.md §5 C01",
    "ready": True,
}

CORPUS = os.path.join(vlib.VERIF, "corpus", "c01")


# ----------------------------------------------------------------------------- programs
def _sha(src: str) -> str:
    return hashlib.sha1(src.encode()).hexdigest()[:16]


def run_program(src: str):
    """-> (outcome, detail, info): outcome in ok | rejected | crash | invalid"""
    import feed
    import c01_validate as V
    from guppylang_internals.error import GuppyComptimeError, GuppyError

    m = None
    try:
        try:
            m = feed.load(src)
            defn = getattr(m, "main")
        except GuppyError as e:
            return "rejected", feed.err_class(e), {}
        except Exception as e:  # noqa: BLE001  (decorator-time failure of generated text)
            return "rejected", "load:" + type(e).__name__, {}
        try:
            from guppylang_internals.engine import ENGINE
            ENGINE.check(defn.id)
        except (GuppyError, GuppyComptimeError) as e:
            return "rejected", feed.err_class(e), {}
        except RecursionError:
            return "check-crash", "RecursionError", {}
        except Exception as e:  # noqa: BLE001  (the checker itself crashed: the program was not accepted -> C02's business)
            return "check-crash", f"{type(e).__name__}: {str(e)[:200]}", {}
        try:
            import hugr.build.function as hf
            from guppylang_internals.compiler.core import CompilerContext
            g = hf.Module()
            CompilerContext(g).compile(ENGINE.checked[defn.id])
        except GuppyError as e:
            # user-level errors that are only detected while lowering (e.g. entry point needs monomorphization)
            return "rejected", "lowering:" + feed.err_class(e), {}
        except RecursionError:
            return "crash", "RecursionError", {}
        except Exception as e:  # noqa: BLE001
            import traceback
            return "crash", f"{type(e).__name__}: {str(e)[:300]}", {"traceback": traceback.format_exc(limit=-5)[-1500:]}
        cs = V.validate(g.hugr)
        hard = [c for c in cs if c[0] != "nonlocal"]
        import hugr.ops as ops
        info = {
            "nodes": g.hugr.num_nodes(),
            "nonlocal": sum(1 for c in cs if c[0] == "nonlocal"),
            "tuple_sum": any(isinstance(g.hugr[n].op, ops.Conditional) for n in g.hugr),
            "packs": sum(1 for n in g.hugr if isinstance(g.hugr[n].op, ops.MakeTuple)),
        }
        if hard:
            info["dump"] = V.dump(g.hugr)[:6000]
            return "invalid", hard[:8], info
        return "ok", None, info
    finally:
        if m is not None:
            feed.unload(m)


# --- struct / tuple / linear stress generator (targets DFContainer, compile_bb outputs)
def gen_struct_program(rng) -> str:
    nstruct = rng.randrange(1, 4)
    structs = []  # (name, [(fname, kind, ref)])  kind in q|i|b|s|t
    for i in range(nstruct):
        fields = []
        for j in range(rng.randrange(1, 4)):
            opts = ["q", "q", "i", "b", "t"] + (["s"] if i > 0 else [])
            k = rng.choice(opts)
            fields.append((f"f{j}", k, rng.randrange(i) if k == "s" else None))
        if not any(k in "qst" for _, k, _ in fields):
            fields.append((f"f{len(fields)}", "q", None))
        structs.append((f"S{i}", fields))
    top = nstruct - 1

    def tyname(k, ref):
        return {"q": "qubit", "i": "int", "b": "bool", "t": "tuple[qubit, int]"}.get(k) or structs[ref][0]

    def lin_leaves(si, pre):
        out = []
        for fn, k, ref in structs[si][1]:
            if k == "q":
                out.append(pre + "." + fn)
            elif k == "t":
                out.append(pre + "." + fn)  # tuple field: treated as one unit (re-assigned whole)
            elif k == "s":
                out.extend(lin_leaves(ref, pre + "." + fn))
        return out

    def ctor(si):
        args = []
        for fn, k, ref in structs[si][1]:
            args.append({"q": "qubit()", "i": str(rng.randrange(9)), "b": rng.choice(["True", "False"]),
                         "t": f"(qubit(), {rng.randrange(9)})"}.get(k) or ctor(ref))
        return f"{structs[si][0]}({', '.join(args)})"

    def fresh(path):
        # expression re-creating the linear content at `path`
        si, cur = top, "s"
        for part in path.split(".")[1:]:
            fn, k, ref = next(f for f in structs[si][1] if f[0] == part)
            if k == "s":
                si = ref
            else:
                return "qubit()" if k == "q" else f"(qubit(), {rng.randrange(9)})"
        return ctor(si)

    def eat_body(si, pre, ind):
        lines = []
        for fn, k, ref in structs[si][1]:
            p = f"{pre}.{fn}"
            if k == "q":
                lines.append(f"{ind}{rng.choice(['discard', 'discard', 'measure'])}({p})")
            elif k == "t":
                lines.append(f"{ind}tq, tn = {p}")
                lines.append(f"{ind}discard(tq)")
                lines.append(f"{ind}acc += tn")
            elif k == "i":
                lines.append(f"{ind}acc += {p}")
            elif k == "s":
                lines.extend(eat_body(ref, p, ind))
        return lines

    out = ["from guppylang.std.quantum import qubit, h, x, z, cx, measure, discard", ""]
    for name, fields in structs:
        out += ["@guppy.struct", f"class {name}:"] + [f"    {fn}: {tyname(k, ref)}" for fn, k, ref in fields] + [""]
    S = structs[top][0]
    out += ["@guppy", f"def eat(s: {S} @owned) -> int:", "    acc = 0"] + eat_body(top, "s", "    ") + ["    return acc", ""]
    out += ["@guppy", f"def touch(s: {S}) -> None:"]
    qs = [p for p in lin_leaves(top, "s") if fresh(p) == "qubit()"]
    out += [f"    h({p})" for p in qs[:2]] or ["    pass"]
    out += [""]
    leaves = lin_leaves(top, "s")
    state = {p: True for p in leaves}
    sub_structs = []

    def walk(si, pre):
        for fn, k, ref in structs[si][1]:
            if k == "s":
                sub_structs.append(f"{pre}.{fn}")
                walk(ref, f"{pre}.{fn}")

    walk(top, "s")

    def restore(ind):
        ls = []
        for p in leaves:
            if not state[p]:
                ls.append(f"{ind}{p} = {fresh(p)}")
                state[p] = True
        return ls

    def block(depth, ind, n):
        ls = []
        for _ in range(n):
            r = rng.random()
            if r < 0.22:
                ls += restore(ind) + [f"{ind}k += eat(s)"]
                for p in leaves:
                    state[p] = False
                if rng.random() < 0.3:
                    ls.append(f"{ind}s = {ctor(top)}")
                    for p in leaves:
                        state[p] = True
            elif r < 0.40 and qs:
                p = rng.choice(qs)
                ls += restore(ind) if not state[p] else []
                ls += [f"{ind}if measure({p}):", f"{ind}    {p} = qubit()", f"{ind}    x({p})", f"{ind}else:", f"{ind}    {p} = qubit()"]
            elif r < 0.50 and qs:
                p = rng.choice(qs)
                if state[p]:
                    ls.append(f"{ind}{rng.choice(['h', 'x', 'z'])}({p})")
            elif r < 0.58:
                ls += restore(ind) + [f"{ind}touch(s)"]
            elif r < 0.66 and sub_structs:
                sp = rng.choice(sub_structs)
                under = [p for p in leaves if p.startswith(sp + ".")]
                if under and all(not state[p] for p in under):
                    ls.append(f"{ind}{sp} = {fresh(sp)}")
                    for p in under:
                        state[p] = True
            elif r < 0.80 and depth > 0:
                ls += restore(ind)
                ls.append(f"{ind}if {rng.choice(['b', 'k > 3', 'not b', 'k % 2 == 0'])}:")
                ls += (block(depth - 1, ind + "    ", rng.randrange(1, 3)) + restore(ind + "    ")) or [f"{ind}    pass"]
                if rng.random() < 0.25:
                    ls += [f"{ind}    return k + eat(s)"]
                if rng.random() < 0.7:
                    ls.append(f"{ind}else:")
                    ls += (block(depth - 1, ind + "    ", rng.randrange(1, 3)) + restore(ind + "    ")) or [f"{ind}    pass"]
            elif r < 0.92 and depth > 0:
                ls += restore(ind)
                if rng.random() < 0.5:
                    ls.append(f"{ind}for i in range({rng.randrange(1, 4)}):")
                    body = block(depth - 1, ind + "    ", rng.randrange(1, 3)) + restore(ind + "    ")
                    ls += body or [f"{ind}    k += i"]
                else:
                    ls += [f"{ind}j = 0", f"{ind}while j < n:"]
                    body = block(depth - 1, ind + "    ", rng.randrange(1, 3)) + restore(ind + "    ")
                    ls += body or [f"{ind}    k += 1"]
                    if rng.random() < 0.3:
                        ls += [f"{ind}    if k > 20:", f"{ind}        break"]
                    ls += [f"{ind}    j += 1"]
            else:
                ls.append(f"{ind}k += {rng.randrange(5)}")
        return ls

    out += ["@guppy", f"def main(s: {S} @owned, b: bool, n: int) -> int:", "    k = 0"]
    out += block(2, "    ", rng.randrange(2, 6)) + restore("    ")
    out += ["    return k + eat(s)", ""]
    return "\n".join(out)


# --- affine-drop generator: values of droppable non-copyable types that are implicitly dropped, in every type
#     shape `requires_drop` distinguishes (extension type / its type args, multi-row sums, single-row sums,
#     type variables with a linear bound) and every way a value can end up unused
def gen_drop_program(rng) -> str:
    structs: list[str] = []
    helpers: dict[str, str] = {}

    def base():
        k = rng.randrange(1, 4)
        r = rng.random()
        if r < 0.45:
            return f"array[int, {k}]", "array(" + ", ".join(str(rng.randrange(9)) for _ in range(k)) + ")"
        if r < 0.65:
            return f"array[float, {k}]", "array(" + ", ".join(f"{rng.randrange(9)}.5" for _ in range(k)) + ")"
        if r < 0.8:
            return f"array[bool, {k}]", "array(" + ", ".join(rng.choice(["True", "False"]) for _ in range(k)) + ")"
        return "array[array[int, 2], 2]", f"array(array({rng.randrange(9)}, 1), array(2, {rng.randrange(9)}))"

    def cls(depth):
        """classical filler (type, expr)"""
        return rng.choice([("int", str(rng.randrange(9))), ("bool", "True"), ("float", "1.5")])

    def affine(depth):
        """(type text, expression text) of a droppable, non-copyable value"""
        if depth == 0 or rng.random() < 0.2:
            return base()
        r = rng.random()
        t, e = affine(depth - 1)
        if r < 0.22:
            return (f"Option[{t}]", f"some({e})") if rng.random() < 0.75 else (f"Option[{t}]", "nothing()")
        if r < 0.42:
            c, ce = cls(depth)
            if rng.random() < 0.5:
                return (f"Either[{t}, {c}]", f"left({e})") if rng.random() < 0.6 else (f"Either[{t}, {c}]", f"right({ce})")
            return (f"Either[{c}, {t}]", f"right({e})") if rng.random() < 0.6 else (f"Either[{c}, {t}]", f"left({ce})")
        if r < 0.5:
            t2, e2 = affine(depth - 1)
            return f"Either[{t}, {t2}]", (f"left({e})" if rng.random() < 0.5 else f"right({e2})")
        if r < 0.72:
            c, ce = cls(depth)
            return rng.choice([(f"tuple[{t}, {c}]", f"({e}, {ce})"), (f"tuple[{c}, {t}]", f"({ce}, {e})"),
                               (f"tuple[{c}, {t}, {c}]", f"({ce}, {e}, {ce})")])
        if r < 0.9:
            name = f"D{len(structs)}"
            c, ce = cls(depth)
            structs.append(f"@guppy.struct\nclass {name}:\n    a: {t}\n    n: {c}\n")
            return name, f"{name}({e}, {ce})"
        return t, e

    def eat(t):
        if t not in helpers:
            helpers[t] = f"eat{len(helpers)}"
        return helpers[t]

    lines: list[str] = []
    params = ["c: bool", "n: int"]
    body: list[str] = ["    k = n"]
    nv = [0]

    def var():
        nv[0] += 1
        return f"v{nv[0]}"

    for _ in range(rng.randrange(0, 3)):          # unused / conditionally used owned arguments
        t, _e = affine(rng.randrange(0, 3))
        a = f"a{len(params)}"
        params.append(f"{a}: {t} @owned")
        r = rng.random()
        if r < 0.25:
            body += ["    if c:", f"        {eat(t)}({a})"]
        elif r < 0.4:
            body += ["    if k > 2:", "        return k"]

    def stmt(ind, depth):
        t, e = affine(rng.randrange(0, 3))
        v = var()
        r = rng.random()
        out = []
        if r < 0.16:                                # unused local
            out = [f"{ind}{v}: {t} = {e}"]
        elif r < 0.30:                              # dropped on one branch only
            out = [f"{ind}{v}: {t} = {e}", f"{ind}if {rng.choice(['c', 'k > 3', 'not c'])}:", f"{ind}    {eat(t)}({v})"]
            if rng.random() < 0.4:
                out += [f"{ind}else:", f"{ind}    k += 1"]
        elif r < 0.42:                              # overwritten
            if any(w in e for w in ("left(", "right(", "nothing(")):   # needs the annotation to infer: go through a helper
                mk = f"mk{nv[0]}"
                lines.append(f"@guppy\\ndef {mk}() -> {t}:\\n    return {e}\\n")
                e2 = f"{mk}()"
            else:
                e2 = e
            out = [f"{ind}{v}: {t} = {e}", f"{ind}{v} = {e2}"]
            if rng.random() < 0.5:
                out += [f"{ind}{eat(t)}({v})"]
        elif r < 0.52:                              # ignored call result
            mk = f"mk{nv[0]}"
            lines.append(f"@guppy\ndef {mk}() -> {t}:\n    return {e}\n")
            out = [f"{ind}{mk}()"] if rng.random() < 0.5 else [f"{ind}{v} = {mk}()"]
        elif r < 0.62:                              # through generic helpers with a Drop-only bound
            out = [f"{ind}{v}: {t} = {e}", rng.choice([f"{ind}k = first(k, {v})", f"{ind}keep({v})", f"{ind}{v}b = ident({v})"])]
        elif r < 0.72:                              # early return while alive
            out = [f"{ind}{v}: {t} = {e}", f"{ind}if k == {rng.randrange(5)}:", f"{ind}    return k", f"{ind}{eat(t)}({v})"] if ind == "    " else [f"{ind}{v}: {t} = {e}"]
        elif r < 0.82 and t.startswith("tuple["):    # partially used tuple
            arity = t.count(",") - t[6:].count("[") * 0
            names = [f"{v}_{i}" for i in range(3 if e.count(",") >= 2 and t.startswith("tuple[") and len(_split_top(t[6:-1])) == 3 else 2)]
            out = [f"{ind}{v}: {t} = {e}", f"{ind}{', '.join(names)} = {v}"]
        elif r < 0.9 and depth > 0:                 # inside loops
            out = [f"{ind}for i in range({rng.randrange(1, 4)}):"] + stmt(ind + "    ", depth - 1)
            if rng.random() < 0.3:
                out += [f"{ind}    if k > 100:", f"{ind}        break"]
        elif depth > 0:
            out = [f"{ind}if {rng.choice(['c', 'k > 1'])}:"] + stmt(ind + "    ", depth - 1) + [f"{ind}else:"] + stmt(ind + "    ", depth - 1)
        else:
            out = [f"{ind}{v}: {t} = {e}"]
        return out

    for _ in range(rng.randrange(2, 6)):
        body += stmt("    ", 2)
    body.append("    return k")
    hdr = [
        "from guppylang.std.option import Option, nothing, some",
        "from guppylang.std.either import Either, left, right",
        "",
        'A = guppy.type_var("A", copyable=False, droppable=True)',
        'C = guppy.type_var("C")',
        "",
        "@guppy", "def first(x: C, y: A @owned) -> C:", "    return x", "",
        "@guppy", "def keep(y: A @owned) -> None:", "    pass", "",
        "@guppy", "def ident(y: A @owned) -> A:", "    return y", "",
    ]
    eats = [f"@guppy\ndef {name}(x: {t} @owned) -> None:\n    pass\n" for t, name in helpers.items()]
    src = "\n".join(hdr) + "\n" + "\n".join(structs) + "\n" + "\n".join(eats) + "\n" + "\n".join(lines) + "\n"
    src += "@guppy\ndef main(" + ", ".join(params) + ") -> int:\n" + "\n".join(body) + "\n"
    return src.replace("\\n", "\n")


def _split_top(s: str) -> list[str]:
    out, depth, cur = [], 0, ""
    for ch in s:
        if ch == "[":
            depth += 1
        elif ch == "]":
            depth -= 1
        if ch == "," and depth == 0:
            out.append(cur)
            cur = ""
        else:
            cur += ch
    return out + [cur]


# --- generic / comptime generator: parameter lists that mix parameters Guppy monomorphises away (non-nat
#     `@comptime` arguments) with parameters that stay HUGR type parameters (nat vars, nat comptime args, type
#     vars, linear type vars) in every order; bodies and signatures mention the kept variables (array lengths,
#     range(n), n as a value, values of type T); generic helpers call generic helpers (variable type args)
def gen_generic_program(rng) -> str:
    hdr = [
        "from guppylang.std.quantum import qubit, h, measure, discard",
        'T = guppy.type_var("T")',
        'U = guppy.type_var("U")',
        'Q = guppy.type_var("Q", copyable=False, droppable=False)',
        'n = guppy.nat_var("n")',
        'm = guppy.nat_var("m")',
        "",
    ]
    funcs: list[dict] = []

    def mk_helper(idx: int, callees: list[dict]) -> dict:
        kinds = []
        pool = ["cint", "cint", "cbool", "cfloat", "cnat", "arr_n", "arr_n", "arr_m", "tv", "uv", "qv", "int", "arrT_n"]
        for _ in range(rng.randrange(2, 6)):
            kinds.append(rng.choice(pool))
        if not any(k in ("cint", "cbool", "cfloat") for k in kinds):
            kinds.insert(rng.randrange(len(kinds) + 1), rng.choice(["cint", "cbool", "cfloat"]))
        if not any(k in ("arr_n", "arr_m", "cnat", "tv", "qv", "arrT_n") for k in kinds):
            kinds.insert(rng.randrange(len(kinds) + 1), rng.choice(["arr_n", "tv", "cnat"]))
        if kinds.count("qv") > 1:
            kinds = [k for i, k in enumerate(kinds) if k != "qv" or i == kinds.index("qv")]
        if kinds.count("cnat") > 1:
            kinds = [k for i, k in enumerate(kinds) if k != "cnat" or i == kinds.index("cnat")]
        params, body = [], ["    s = 0"]
        ret_opts = [("int", "s")]
        for j, k in enumerate(kinds):
            p = f"p{j}"
            if k == "cint":
                params.append((p, "int @comptime", k)); body.append(f"    s += {p}")
            elif k == "cbool":
                params.append((p, "bool @comptime", k)); body += [f"    if {p}:", "        s += 1"]
            elif k == "cfloat":
                params.append((p, "float @comptime", k)); body += [f"    if {p} > 1.0:", "        s += 2"]
            elif k == "cnat":
                params.append((p, "nat @comptime", k)); body += [f"    for i{j} in range({p}):", f"        s += i{j}"]
            elif k in ("arr_n", "arr_m"):
                v = k[-1]
                own = rng.random() < 0.3
                params.append((p, f"array[int, {v}]" + (" @owned" if own else ""), k))
                r = rng.random()
                if r < 0.5:
                    body += [f"    for i{j} in range({v}):", f"        s += {p}[i{j}]"]
                elif r < 0.75:
                    body.append(f"    s += int({v})")
                if own:
                    ret_opts.append((f"array[int, {v}]", p))
            elif k == "arrT_n":
                params.append((p, "array[T, n]", k)); body.append("    s += int(n)")
            elif k == "tv":
                params.append((p, "T", k)); ret_opts.append(("T", p))
            elif k == "uv":
                params.append((p, "U", k)); ret_opts.append(("tuple[U, int]", f"({p}, s)"))
            elif k == "qv":
                params.append((p, "Q @owned", k)); ret_opts.append(("Q", p))
            else:
                params.append((p, "int", k)); body.append(f"    s += {p}")
        # call an earlier helper with our own (variable-typed) arguments where possible
        for c in callees:
            if rng.random() < 0.6:
                args = call_args(c, {k: p for p, t, k in params if "@owned" not in t}, inside=True)
                if args is not None:
                    body.append(f"    {'_r' + str(len(body))} = {c['name']}({', '.join(args)})")
        qs = [p for p, _t, k in params if k == "qv"]
        # a linear argument must be returned
        if qs:
            ret = ("Q", qs[0])
        else:
            owned = [(t, e) for t, e in ret_opts if t.startswith("array[int")]
            ret = rng.choice(owned) if owned and rng.random() < 0.6 else rng.choice([r for r in ret_opts if not r[0].startswith("array[int")] or ret_opts)
        used_ret_arrays = ret[1]
        name = f"g{idx}"
        src = ["@guppy", f"def {name}(" + ", ".join(f"{p}: {t}" for p, t, _k in params) + f") -> {ret[0]}:"] + body + [f"    return {ret[1]}", ""]
        return {"name": name, "params": params, "ret": ret[0], "src": src}

    def call_args(c: dict, have: dict, inside: bool):
        """argument expressions for calling `c`; `have` maps kinds to a variable of the caller"""
        out = []
        used: set[str] = set()
        uv = rng.choice(["1.5", "(1, True)", "7"])
        for _p, t, k in c["params"]:
            if k == "cint":
                out.append(str(rng.randrange(1, 9)))
            elif k == "cbool":
                out.append(rng.choice(["True", "False"]))
            elif k == "cfloat":
                out.append(rng.choice(["0.5", "2.5"]))
            elif k == "cnat":
                out.append(str(rng.randrange(1, 4)))
            elif k in ("arr_n", "arr_m"):
                if "@owned" in t:
                    if inside:
                        return None
                    out.append("array(" + ", ".join(str(rng.randrange(9)) for _ in range(LEN[k[-1]])) + ")")
                elif inside:
                    # inside a generic helper only an array of the same length variable fits
                    if k not in have or have[k] in used:
                        return None
                    used.add(have[k])
                    out.append(have[k])
                elif "a_" + k[-1] in used:
                    out.append("array(" + ", ".join(str(rng.randrange(9)) for _ in range(LEN[k[-1]])) + ")")
                else:
                    used.add("a_" + k[-1])
                    out.append("a_" + k[-1])
            elif k == "arrT_n":
                if inside:
                    if "arrT_n" not in have or have["arrT_n"] in used:
                        return None
                    used.add(have["arrT_n"])
                    out.append(have["arrT_n"])
                else:
                    out.append("array(" + ", ".join(TV for _ in range(LEN["n"])) + ")")
            elif k == "tv":
                out.append(have["tv"] if inside and "tv" in have else TV)
            elif k == "uv":
                out.append(have["uv"] if inside and "uv" in have else uv)
            elif k == "qv":
                if inside:
                    return None
                out.append("qubit()")
            else:
                out.append(str(rng.randrange(9)))
        return out

    LEN = {"n": rng.randrange(1, 4), "m": rng.randrange(1, 4)}
    TV = rng.choice(["1", "True", "2.5"])
    for i in range(rng.randrange(1, 4)):
        funcs.append(mk_helper(i, funcs[:]))
    main = ["@guppy", "def main(c: bool) -> int:", "    t = 0",
            "    a_n = array(" + ", ".join(str(rng.randrange(9)) for _ in range(LEN["n"])) + ")",
            "    a_m = array(" + ", ".join(str(rng.randrange(9)) for _ in range(LEN["m"])) + ")"]
    for f in funcs:
        for _ in range(rng.randrange(1, 3)):
            args = call_args(f, {}, inside=False)
            r = f"r{len(main)}"
            main.append(f"    {r} = {f['name']}({', '.join(args)})")
            if f["ret"] == "int":
                main.append(f"    t += {r}")
            elif f["ret"] == "Q":
                main.append(f"    discard({r})")
            elif f["ret"].startswith("array[int"):
                main.append(f"    t += {r}[0]")
    main += ["    return t + a_n[0] + a_m[0]", ""]
    return "\n".join(hdr + [l for f in funcs for l in f["src"]] + main)


def _programs(ctx):
    """yields (tag, src)"""
    if os.path.isdir(CORPUS):
        for fn in sorted(os.listdir(CORPUS)):
            if fn.endswith(".json"):
                d = json.load(open(os.path.join(CORPUS, fn)))
                if "src" in d:
                    yield "corpus:" + d.get("name", fn), d["src"]
    n_struct = ctx.n(50, 1200)
    n_gen = ctx.n(60, 1200)
    for _ in range(n_struct):
        yield "structgen", gen_struct_program(ctx.rng)
    for _ in range(ctx.n(60, 900)):
        yield "dropgen", gen_drop_program(ctx.rng)
    for _ in range(ctx.n(30, 700)):
        yield "genericgen", gen_generic_program(ctx.rng)
    try:
        import c01_gen
    except Exception as e:  # noqa: BLE001
        ctx.extra["general_generator"] = f"unavailable: {type(e).__name__}: {e}"
        return
    import random
    for _ in range(n_gen):
        sub = random.Random(ctx.rng.getrandbits(64))
        try:
            p = c01_gen.gen_program(sub, size=ctx.rng.choice([2, 3, 3, 4]))
        except Exception as e:  # noqa: BLE001
            ctx.bump("generator-error")
            continue
        yield "gen:" + ",".join(p.get("features", [])[:40]), p["src"]


def _program_case(ctx, tag: str, src: str, budget_end: float | None = None) -> None:
    outcome, detail, info = run_program(src)
    fam = tag.split(":")[0]
    if outcome == "rejected":
        ctx.bump(f"prog-rejected:{fam}")
        ctx.bump(f"rejected-as:{detail}")
        return
    if outcome == "check-crash":
        # the checker crashed: the program was never accepted, so C01 promises nothing (this is C02's
        # subject); recorded in the evidence so that it is not lost
        ctx.bump(f"prog-checker-crash:{fam}")
        ctx.extra.setdefault("checker_crashes", [])
        if len(ctx.extra["checker_crashes"]) < 10:
            ctx.extra["checker_crashes"].append({"detail": detail, "src": src})
        return
    key = "prog:" + _sha(src)
    ctx.count({"program": key, "family": fam, "nodes": info.get("nodes")}, nontrivial=True, kind=f"prog-{outcome}:{fam}")
    if info.get("tuple_sum"):
        ctx.bump("prog-with-conditional(tuple-sum)")
    if info.get("packs"):
        ctx.bump("prog-with-MakeTuple")
    if info.get("nonlocal"):
        ctx.bump("prog-with-legal-nonlocal-edges")
    if fam == "gen":
        for f in tag.split(":", 1)[1].split(","):
            if f:
                ctx.bump("feature:" + f)
    if outcome == "crash":
        ctx.violation(key, f"internal compiler error while lowering an accepted program: {detail}",
                      {"kind": "program", "src": src, "outcome": outcome, "detail": detail, **info})
    elif outcome == "invalid":
        ctx.violation(key, "lowered Hugr is structurally invalid: " + "; ".join(f"[{c}] {m}" for c, m in detail[:3]),
                      {"kind": "program", "src": src, "outcome": outcome, "complaints": detail, **info})


# ----------------------------------------------------------------------------- wiring
def _wiring_cases(ctx, n: int):
    import c01_wiring as W
    cases = []
    # fixed regression scripts first: the stale-cache witness and its nested variant
    cases.append({"ty": ("S", [("L", 0, 0), ("L", 1, 1)]), "ret": 0,
                  "script": [("s", (), 0), ("g", ()), ("s", (0,), 1), ("g", ())]})
    cases.append({"ty": ("S", [("T", [("L", 0, 0), ("L", 0, 0)]), ("L", 1, 1)]), "ret": 0,
                  "script": [("s", (), 0), ("g", ()), ("s", (0, 0), 1), ("s", (0, 1), 2), ("g", ()), ("s", (0,), 3), ("g", ())]})
    for _ in range(n):
        cases.append(W.gen_case(ctx.rng))
    return cases


def _tup(x):
    return tuple(_tup(i) for i in x) if isinstance(x, (list, tuple)) else x


def _wiring(ctx, cases, batch: int = 1500) -> None:
    for i in range(0, len(cases), batch):
        _wiring_batch(ctx, cases[i:i + batch])


def _wiring_batch(ctx, cases) -> None:
    import c01_wiring as W
    reqs, reps, reals = [], [], []
    for c in cases:
        q, p, r = W.real_run(c)
        reqs.append(q)
        reps.append(p)
        reals.append(r)
    model = ctx.driver(DRIVER, reqs)
    for c, q, p, m, r in zip(cases, reqs, reps, model, reals):
        resp = W.respects_ownership(c)
        kind = "wiring:" + ("exception" if p.startswith("exception") else "err" if " err " in p else "ok") + (":owned" if resp else ":free")
        ctx.count(q, nontrivial=W.is_nontrivial(c), kind=kind)
        bad = W.oracle(c, r, p)
        if p.startswith("exception"):
            bad.append("real DFContainer raised " + p)
        if bad:
            ctx.violation("wiring:" + q, "DFContainer wiring violates the property on `" + q + "`: " + "; ".join(bad[:3]),
                          {"kind": "wiring", "case": c, "request": q, "real": p, "model": m, "oracle": bad})
        if p != m:
            ctx.broke(f"correspondence Model/DFWiring.lean vs DFContainer on `{q}` (real={p} model={m})")


# ----------------------------------------------------------------------------- variable scoping (T-run)
def _varidx(ctx, cases) -> None:
    import c01_varidx as X
    reqs = [X.request(c) for c in cases]
    model = ctx.driver(DRIVER, reqs)
    for c, q, m in zip(cases, reqs, model):
        try:
            rep, _, rem, outs = X.real_run(c)
        except Exception as e:  # noqa: BLE001
            rep, rem, outs = f"exception:{type(e).__name__}:{e}", [], [f"exc:{type(e).__name__}"]
        key = "varidx:" + "".join(c["kinds"]) + ":" + q
        ctx.count(key, nontrivial=X.is_nontrivial(c), kind="varidx:" + ("no-context" if c["mono"] is None else "mono"))
        bad = X.oracle(c, rem, outs)
        if bad:
            ctx.violation(key, f"partial monomorphization of parameters {c['kinds']} with mono vector {c['mono']}: " + "; ".join(bad[:3]),
                          {"kind": "varidx", "case": c, "request": q, "real": rep, "model": m, "oracle": bad})
        if rep != m:
            ctx.broke(f"correspondence Model/DFVarIdx.lean vs compiler/core.py on `{q}` kinds={c['kinds']} (real={rep} model={m})")


# ----------------------------------------------------------------------------- validator self-test, harvest
_SELFTEST_EXPECT = {
    "drop-linear-link": "linear", "duplicate-linear-use": "linear", "ill-typed-link": "type",
    "order-edge-across-regions": "order", "cycle": "cycle", "swap-successors": "cfg",
}


def _validator_selftest(ctx) -> None:
    """the validator must complain about known-bad perturbations of a valid Hugr (else exit 2)"""
    import feed
    import c01_validate as V

    d = json.load(open(os.path.join(CORPUS, "tuple_sum_outputs.json")))
    m = feed.load(d["src"])
    try:
        g = feed.lower(m.main)
    except Exception as e:  # noqa: BLE001  (a mutated tree may not even lower the seed: nothing to self-test on)
        ctx.extra["validator_selftest"] = f"skipped: seed does not lower ({type(e).__name__})"
        return
    finally:
        feed.unload(m)
    if V.validate(g.hugr):
        ctx.extra["validator_selftest"] = "skipped: seed Hugr is not valid on this tree"
        return
    res = V.selftest(g.hugr)
    ctx.extra["validator_selftest"] = res
    missing = [k for k, code in _SELFTEST_EXPECT.items() if code not in res.get(k, [])]
    if missing:
        raise vlib.Infra(f"validator self-test: perturbations not detected: {missing} ({res})")


def _harvest(ctx, args=()) -> None:
    """thorough tier: programs compiled by /repo's integration tests, lowered from /repo's sources"""
    import subprocess
    import tempfile
    import bootstrap

    if not os.path.isdir(os.path.join(bootstrap.REPO, "tests", "integration")):
        ctx.extra["harvest"] = "skipped: no tests/integration in " + bootstrap.REPO
        return
    with tempfile.TemporaryDirectory() as td:
        out = os.path.join(td, "harvest.json")
        t0 = time.time()
        try:
            subprocess.run([sys.executable, os.path.join(os.path.dirname(os.path.abspath(__file__)), "c01_harvest.py"), out, *args],
                           capture_output=True, text=True, timeout=1500,
                           env={**os.environ, "VERIF_REPO": bootstrap.REPO})
        except subprocess.TimeoutExpired:
            ctx.extra["harvest"] = "timeout"
            return
        if not os.path.exists(out):
            ctx.extra["harvest"] = "no output"
            return
        res = json.load(open(out))
    ctx.extra["harvest_s"] = round(time.time() - t0, 1)
    seen = {}
    for r in res:
        seen[r["test"]] = seen.get(r["test"], 0) + 1
        key = f"harvest:{r['test']}#{seen[r['test']]}"
        if r["outcome"] == "env":
            ctx.bump("harvest-skipped-env(tket.circuit import)")
            continue
        ctx.count({"harvest": key, "nodes": r.get("nodes")}, nontrivial=True, kind="harvest-" + r["outcome"])
        if r["outcome"] == "crash":
            ctx.violation(key, f"internal compiler error while lowering a program of {r['test']}: {r['detail']}",
                          {"kind": "harvest", "test": r["test"], **r})
        elif r["outcome"] == "invalid":
            ctx.violation(key, f"lowered Hugr of {r['test']} is structurally invalid: " + "; ".join(f"[{c}] {m}" for c, m in r["complaints"][:3]),
                          {"kind": "harvest", "test": r["test"], **r})


# ----------------------------------------------------------------------------- entry points
def tie(ctx):
    import feed  # noqa: F401  (installs the bootstrap)
    import guppylang

    guppylang.enable_experimental_features()  # capturing closures are gated
    if ctx.replay_in:
        rp = ctx.replay_in.get("replay", {})
        if rp.get("kind") == "program":
            _program_case(ctx, "replay", rp["src"])
        elif rp.get("kind") == "harvest":
            _harvest(ctx, [rp["test"]])
        elif rp.get("kind") == "varidx":
            _varidx(ctx, [rp["case"]])
        elif rp.get("kind") == "wiring":
            c = rp["case"]
            c = {"ty": _tup(c["ty"]), "ret": c["ret"], "script": [_tup(o) for o in c["script"]]}
            c["ty"] = _fix_ty(c["ty"])
            _wiring(ctx, [c])
        return
    _validator_selftest(ctx)
    t0 = time.time()
    _wiring(ctx, _wiring_cases(ctx, ctx.n(400, 12000)))
    ctx.extra["wiring_s"] = round(time.time() - t0, 1)
    import c01_varidx as X
    _varidx(ctx, [{"kinds": ["k", "n"], "mono": [1, 0]}] + [X.gen_case(ctx.rng) for _ in range(ctx.n(300, 5000))])
    t0 = time.time()
    for tag, src in _programs(ctx):
        _program_case(ctx, tag, src)
    ctx.extra["programs_s"] = round(time.time() - t0, 1)
    if not ctx.quick:
        _harvest(ctx)


def _fix_ty(ty):
    """JSON round trip turns the children list into a tuple of tuples; restore ('S', [..])"""
    if ty[0] == "L":
        return ("L", ty[1], ty[2])
    return (ty[0], [_fix_ty(c) for c in ty[1]])


def search(ctx, why):
    """Something (a theorem or the correspondence) broke and no concrete failing input yet: push
    harder on the real DFContainer with ownership-respecting scripts and on struct programs."""
    import c01_wiring as W
    cases = []
    tries = 0
    while len(cases) < 4000 and tries < 40000:
        tries += 1
        c = W.gen_case(ctx.rng)
        if W.respects_ownership(c) and W.is_nontrivial(c):
            cases.append(c)
    for c in cases:
        q, p, r = W.real_run(c)
        bad = W.oracle(c, r, p)
        if bad:
            ctx.violation("wiring:" + q, "DFContainer wiring violates the property on `" + q + "`: " + "; ".join(bad[:3]),
                          {"kind": "wiring", "case": c, "request": q, "real": p, "oracle": bad})
            return
    for _ in range(300):
        src = gen_struct_program(ctx.rng)
        _program_case(ctx, "structgen", src)
        if any(v["found"] for v in ctx.violations):
            return


if __name__ == "__main__":
    vlib.main(sys.modules[__name__])
