"""C20 execution oracle: circuits written with the quantum standard library are lowered by /repo's REAL compiler and
executed on the reference HUGR interpreter (harness/hugr_interp.py, numpy state vector); the final state is compared,
up to global phase, with the product of the DOCUMENTED matrices (hand-written numeric table below, from the docstrings)
applied to the listed qubits in program order.  Measurement / reset / project_z are compared with the projective
Z-basis result for the forced outcome.

Conventions (notes/INTERP.md): qubit id i allocated i-th sits on tensor axis i, axis 0 most significant.  A k-qubit
documented matrix is indexed by |first listed qubit … last listed qubit> with the first listed qubit most significant
(docstrings: `Qubit ordering: [control, target]`, CX swaps |10> and |11>).

The interpreter's own gate matrices are an assumption; `crosscheck_interpreter` compares them once per run, op by op on
every basis state (programs built directly with the hugr builder, no guppylang involved), with the documented table.
"""
from __future__ import annotations

import cmath
import hashlib
import itertools
import math
import os
import sys

# --------------------------------------------------------------------------- documented matrices (numeric, by hand)
# Each entry cites the docstring it was copied from (guppylang/src/guppylang/std/quantum/__init__.py = Q,
# std/qsystem/__init__.py = S; function name).  theta is the documented angle in RADIANS; an `angle` of h half turns
# denotes theta = h*pi (std/angles.py: "a rotation by a number of half-turns", `__float__ = halfturns * pi`).
_S2 = 1 / math.sqrt(2)


def _e(x):
    return cmath.exp(1j * x)


def _diag(*d):
    n = len(d)
    return [[d[i] if i == j else 0 for j in range(n)] for i in range(n)]


def _perm_matrix(n, swaps):
    m = [[1 if i == j else 0 for j in range(n)] for i in range(n)]
    for a, b in swaps:
        m[a][a] = m[b][b] = 0
        m[a][b] = m[b][a] = 1
    return m


DOC_FIXED = {
    # Q h: "H = 1/sqrt(2) (1 1; 1 -1)"
    ("quantum", "h"): [[_S2, _S2], [_S2, -_S2]],
    # Q x: "(0 1; 1 0)"   Q y: "(0 -i; i 0)"   Q z: "(1 0; 0 -1)"
    ("quantum", "x"): [[0, 1], [1, 0]],
    ("quantum", "y"): [[0, -1j], [1j, 0]],
    ("quantum", "z"): [[1, 0], [0, -1]],
    # Q s: "(1 0; 0 i)"   Q sdg: "(1 0; 0 -i)"
    ("quantum", "s"): [[1, 0], [0, 1j]],
    ("quantum", "sdg"): [[1, 0], [0, -1j]],
    # Q t: "(1 0; 0 e^{i pi/4})"   Q tdg: "(1 0; 0 e^{-i pi/4})"
    ("quantum", "t"): [[1, 0], [0, _e(math.pi / 4)]],
    ("quantum", "tdg"): [[1, 0], [0, _e(-math.pi / 4)]],
    # Q v: "1/sqrt(2) (1 -i; -i 1)"   Q vdg: "1/sqrt(2) (1 i; i 1)"
    ("quantum", "v"): [[_S2, -1j * _S2], [-1j * _S2, _S2]],
    ("quantum", "vdg"): [[_S2, 1j * _S2], [1j * _S2, _S2]],
    # Q cx: "(1 0 0 0; 0 1 0 0; 0 0 0 1; 0 0 1 0)"  [control, target]
    ("quantum", "cx"): _perm_matrix(4, [(2, 3)]),
    # Q cy: "(1 0 0 0; 0 1 0 0; 0 0 0 -i; 0 0 i 0)"
    ("quantum", "cy"): [[1, 0, 0, 0], [0, 1, 0, 0], [0, 0, 0, -1j], [0, 0, 1j, 0]],
    # Q cz: "diag(1, 1, 1, -1)"
    ("quantum", "cz"): _diag(1, 1, 1, -1),
    # Q ch (after fix 3b6fbdd, as upstream): "(1 0 0 0; 0 1 0 0; 0 0 1/sqrt2 1/sqrt2; 0 0 1/sqrt2 -1/sqrt2)"
    ("quantum", "ch"): [[1, 0, 0, 0], [0, 1, 0, 0], [0, 0, _S2, _S2], [0, 0, _S2, -_S2]],
    # Q toffoli: 8x8 identity with the last two basis states exchanged  [control1, control2, target]
    ("quantum", "toffoli"): _perm_matrix(8, [(6, 7)]),
    # S zz_max: "diag(e^{-i pi/4}, e^{i pi/4}, e^{i pi/4}, e^{-i pi/4})"
    ("qsystem", "zz_max"): _diag(_e(-math.pi / 4), _e(math.pi / 4), _e(math.pi / 4), _e(-math.pi / 4)),
}

DOC_PARAM = {
    # Q rz: "(e^{-i theta/2} 0; 0 e^{i theta/2})"
    ("quantum", "rz"): lambda t: _diag(_e(-t / 2), _e(t / 2)),
    # Q rx: "(cos t/2, -i sin t/2; -i sin t/2, cos t/2)"
    ("quantum", "rx"): lambda t: [[math.cos(t / 2), -1j * math.sin(t / 2)], [-1j * math.sin(t / 2), math.cos(t / 2)]],
    # Q ry: "(cos t/2, -sin t/2; sin t/2, cos t/2)"
    ("quantum", "ry"): lambda t: [[math.cos(t / 2), -math.sin(t / 2)], [math.sin(t / 2), math.cos(t / 2)]],
    # Q crz: "diag(1, 1, e^{-i theta/2}, e^{i theta/2})"  [control, target]
    ("quantum", "crz"): lambda t: _diag(1, 1, _e(-t / 2), _e(t / 2)),
    # S rz: "(e^{-i theta/2} 0; 0 e^{i theta/2})"
    ("qsystem", "rz"): lambda t: _diag(_e(-t / 2), _e(t / 2)),
    # S zz_phase: "diag(e^{-i t/2}, e^{i t/2}, e^{i t/2}, e^{-i t/2})"  [q1, q2]
    ("qsystem", "zz_phase"): lambda t: _diag(_e(-t / 2), _e(t / 2), _e(t / 2), _e(-t / 2)),
    # S phased_x: "(cos t1/2, -i e^{-i t2} sin t1/2; -i e^{i t2} sin t1/2, cos t1/2)"
    ("qsystem", "phased_x"): lambda t1, t2: [
        [math.cos(t1 / 2), -1j * _e(-t2) * math.sin(t1 / 2)],
        [-1j * _e(t2) * math.sin(t1 / 2), math.cos(t1 / 2)],
    ],
}

# (modl, name) -> (number of qubits, number of angles)
GATES = {k: (int(math.log2(len(v))), 0) for k, v in DOC_FIXED.items()}
GATES.update({("quantum", "rz"): (1, 1), ("quantum", "rx"): (1, 1), ("quantum", "ry"): (1, 1), ("quantum", "crz"): (2, 1),
              ("qsystem", "rz"): (1, 1), ("qsystem", "zz_phase"): (2, 1), ("qsystem", "phased_x"): (1, 2)})


# functional wrappers (std/quantum/functional.py, std/qsystem/functional.py: "the same gates ... functional syntax"):
# documented matrix = that of the in-place function of the same name
FUNCTIONAL_GATES = {("quantum", k[1]) for k in GATES if k[0] == "quantum"} | {
    ("qsystem", "phased_x"), ("qsystem", "zz_phase"), ("qsystem", "zz_max"), ("qsystem", "rz")}


def base_key(modl, name):
    return (modl[: -len(".functional")] if modl.endswith(".functional") else modl, name)


def doc_matrix(key, halfturns):
    key = base_key(*key)
    if key in DOC_FIXED:
        return DOC_FIXED[key]
    return DOC_PARAM[key](*[h * math.pi for h in halfturns])


# --------------------------------------------------------------------------- oracle state-vector arithmetic
# deliberately written with explicit index loops (not the interpreter's tensordot code)
def apply_doc(psi, n, mat, qubits):
    k = len(qubits)
    out = [0j] * len(psi)
    shifts = [n - 1 - q for q in qubits]  # axis 0 most significant
    for x, amp in enumerate(psi):
        if amp == 0:
            continue
        c = 0
        for s in shifts:
            c = (c << 1) | ((x >> s) & 1)
        base = x
        for s in shifts:
            base &= ~(1 << s)
        for r in range(1 << k):
            m = mat[r][c]
            if m == 0:
                continue
            y = base
            for i, s in enumerate(shifts):
                if (r >> (k - 1 - i)) & 1:
                    y |= 1 << s
            out[y] += m * amp
    return out


def prob_of(psi, n, q, b):
    s = n - 1 - q
    return sum(abs(a) ** 2 for x, a in enumerate(psi) if ((x >> s) & 1) == b)


def project(psi, n, q, b):
    s = n - 1 - q
    out = [a if ((x >> s) & 1) == b else 0j for x, a in enumerate(psi)]
    nrm = math.sqrt(sum(abs(a) ** 2 for a in out))
    return [a / nrm for a in out]


def drop_axis(psi, n, q, b):
    """state of the other qubits after qubit q was found in |b> (psi already projected)"""
    s = n - 1 - q
    out = []
    for x in range(len(psi)):
        if ((x >> s) & 1) == b:
            out.append(psi[x])
    return out


def flip_to_zero(psi, n, q, b):
    if b == 0:
        return psi
    return apply_doc(psi, n, [[0, 1], [1, 0]], [q])


def same_up_to_phase(a, b, tol=1e-9):
    if len(a) != len(b):
        return False
    na = math.sqrt(sum(abs(x) ** 2 for x in a))
    nb = math.sqrt(sum(abs(x) ** 2 for x in b))
    if abs(na - 1) > 1e-7 or abs(nb - 1) > 1e-7:
        return False
    ov = sum(x.conjugate() * y for x, y in zip(a, b))
    if abs(ov) < 0.5:
        return False
    ph = ov / abs(ov)  # b ~ ph * a
    return math.sqrt(sum(abs(y - ph * x) ** 2 for x, y in zip(a, b))) <= tol


def matrices_same_up_to_phase(A, B, tol=1e-9):
    n = len(A)
    ph = None
    for i in range(n):
        for j in range(n):
            if abs(B[i][j]) > 1e-6:
                ph = A[i][j] / B[i][j]
                break
        if ph is not None:
            break
    if ph is None or abs(abs(ph) - 1) > 1e-7:
        return False
    return all(abs(A[i][j] - ph * B[i][j]) <= tol * 10 for i in range(n) for j in range(n))


# --------------------------------------------------------------------------- angle expressions
# AST: ("pi",) | ("lit", c) = angle(c) | ("par", k) = angle(f_k) | ("neg", E) | ("add", E, E) | ("sub", E, E)
#      | ("mul", E, c) = E * c | ("rmul", c, E) = c * E | ("div", E, c) = E / c | ("rdiv", c, E) = c / E
def angle_src(e):
    k = e[0]
    if k == "pi":
        return "pi"
    if k == "lit":
        return f"angle({e[1]!r})"
    if k == "par":
        return f"angle(f{e[1]})"
    if k == "neg":
        return f"(-{angle_src(e[1])})"
    if k in ("add", "sub"):
        return f"({angle_src(e[1])} {'+' if k == 'add' else '-'} {angle_src(e[2])})"
    if k == "mul":
        return f"({angle_src(e[1])} * {e[2]!r})"
    if k == "rmul":
        return f"({e[1]!r} * {angle_src(e[2])})"
    if k == "div":
        return f"({angle_src(e[1])} / {e[2]!r})"
    if k == "rdiv":
        return f"({e[1]!r} / {angle_src(e[2])})"
    raise AssertionError(e)


def angle_halfturns(e, params):
    """documented meaning, in half turns: pi = 1, angle(x) = x, the operators act on the number of half turns;
    `c / a` is the angle of c / halfturns(a) half turns (std/angles.py __rtruediv__: `other / self.halfturns`)"""
    k = e[0]
    if k == "pi":
        return 1.0
    if k == "lit":
        return float(e[1])
    if k == "par":
        return float(params[e[1]])
    if k == "neg":
        return -angle_halfturns(e[1], params)
    if k == "add":
        return angle_halfturns(e[1], params) + angle_halfturns(e[2], params)
    if k == "sub":
        return angle_halfturns(e[1], params) - angle_halfturns(e[2], params)
    if k == "mul":
        return angle_halfturns(e[1], params) * e[2]
    if k == "rmul":
        return angle_halfturns(e[2], params) * e[1]
    if k == "div":
        return angle_halfturns(e[1], params) / e[2]
    if k == "rdiv":
        return e[1] / angle_halfturns(e[2], params)
    raise AssertionError(e)


SPECIAL_HT = [-0.25, 2.6, 2.0, 4.0, -3.5, 0.5, 1.0, 0.001, 7.25, -2.0, 1.5, 3.0]


def rand_angle(rng, nparams, depth=2):
    r = rng.random()
    if depth == 0 or r < 0.3:
        c = rng.random()
        if c < 0.25:
            return ("pi",)
        if c < 0.5 and nparams:
            return ("par", rng.randrange(nparams))
        if c < 0.75:
            return ("lit", rng.choice(SPECIAL_HT))
        return ("lit", round(rng.uniform(-4, 4), 3))
    ks = ["neg", "add", "sub", "mul", "rmul", "div", "rdiv"]
    k = rng.choice(ks)
    if k == "neg":
        return ("neg", rand_angle(rng, nparams, depth - 1))
    if k in ("add", "sub"):
        return (k, rand_angle(rng, nparams, depth - 1), rand_angle(rng, nparams, depth - 1))
    c = rng.choice([2.0, 3.0, 4.0, 0.5, -1.5, 8.0, 0.3])
    if k in ("mul", "div"):
        return (k, rand_angle(rng, nparams, depth - 1), c)
    return (k, c, rand_angle(rng, nparams, depth - 1))


def angle_ok(e, params):
    """defined and tame: no division by (nearly) zero, moderate size (keeps float error far below the tolerance)"""
    try:
        def chk(x):
            if x[0] == "rdiv" and abs(angle_halfturns(x[2], params)) < 1e-2:
                return False
            return all(chk(y) for y in x[1:] if isinstance(y, tuple))
        if not chk(e):
            return False
        h = angle_halfturns(e, params)
        return math.isfinite(h) and abs(h) < 1e3
    except ZeroDivisionError:
        return False


# --------------------------------------------------------------------------- circuits
# step = (modl, name, qubits tuple, [angle AST])
def step_src(st):
    modl, name, qs, angs = st
    args = [f"q{q}" for q in qs] + [angle_src(a) for a in angs]
    call = f"{modl.replace('.', '_')}.{name}({', '.join(args)})"
    if modl.endswith(".functional"):
        return ", ".join(f"q{q}" for q in qs) + " = " + call  # functional style: rebind the returned qubits
    return call


def circuit_src(fname, n, nparams, steps, owned=False):
    """in-place style: borrowed qubits, returns None.  owned style (needed for functional wrappers): the qubits are
    taken `@owned` and returned as a tuple in order"""
    own = " @ owned" if owned else ""
    ps = ", ".join([f"q{i}: qubit{own}" for i in range(n)] + [f"f{k}: float" for k in range(nparams)])
    body = "\n".join("    " + step_src(s) for s in steps) or "    pass"
    if owned:
        ret = "tuple[" + ", ".join(["qubit"] * n) + "]"
        return f"@guppy\ndef {fname}({ps}) -> {ret}:\n{body}\n    return " + ", ".join(f"q{i}" for i in range(n)) + "\n"
    return f"@guppy\ndef {fname}({ps}) -> None:\n{body}\n"


def to_functional(st):
    modl, name, qs, angs = st
    if (modl, name) in FUNCTIONAL_GATES:
        return (modl + ".functional", name, qs, angs)
    return st


def oracle_state(n, steps, params, psi0):
    psi = list(psi0)
    for modl, name, qs, angs in steps:
        hts = [angle_halfturns(a, params) for a in angs]
        psi = apply_doc(psi, n, doc_matrix((modl, name), hts), list(qs))
    return psi


def rand_state(rng, n):
    v = [complex(rng.gauss(0, 1), rng.gauss(0, 1)) for _ in range(1 << n)]
    nrm = math.sqrt(sum(abs(x) ** 2 for x in v))
    return [x / nrm for x in v]


def basis_state(n, x):
    return [1 + 0j if i == x else 0j for i in range(1 << n)]


def rand_step(rng, n, nparams, keys, functional=False):
    key = rng.choice(keys)
    nq, na = GATES[key]
    qs = tuple(rng.sample(range(n), nq))
    st = (key[0], key[1], qs, [rand_angle(rng, nparams) for _ in range(na)])
    return to_functional(st) if functional and rng.random() < 0.7 else st


# --------------------------------------------------------------------------- running on the interpreter
class ExecSkip(Exception):
    pass


_override_installed = False


def install_qsystem_radians_override():
    """hugr_interp.py (as shipped) reads the float operands of tket.qsystem Rz / PhasedX / ZZPhase as HALF TURNS; both
    /repo's and upstream 1.0.4's std/qsystem hand these ops `float(angle)` = halfturns*pi, i.e. radians (and tket2-hseries
    lowers tket.quantum.Rz to qsystem.Rz by multiplying the half turns by pi).  Installed only when the cross-check finds the
    shipped interpreter in the half-turn reading; rescales the operands before delegating."""
    global _override_installed
    import hugr_interp as hi

    if _override_installed:
        return
    orig = hi._EXT_GENERIC["tket.qsystem"]

    def patched(I, nm, op, ins, fr, n):
        if nm in ("Rz", "ZZPhase"):
            ins = list(ins)
            ins[-1] = ins[-1] / math.pi
        elif nm == "PhasedX":
            ins = list(ins)
            ins[1] = ins[1] / math.pi
            ins[2] = ins[2] / math.pi
        return orig(I, nm, op, ins, fr, n)

    hi._EXT_GENERIC["tket.qsystem"] = patched
    _override_installed = True


def interp_run(hugr, fname, nq, rest, psi0, measure=None):
    """-> (outs, final state as list ordered by remaining qubit id, remaining qubit ids)"""
    import numpy as np
    import hugr_interp as hi

    I = hi.Interp(hugr, measure=measure, seed=12345)
    sim = I.qsim()
    qs = [sim.alloc() for _ in range(nq)]
    sim.state = np.array(psi0, dtype=complex)
    f = hi.find_func(hugr, fname)
    fop = hugr[f].op
    vals = qs + [hi.to_hugr(a, t) for a, t in zip(rest, list(fop.inputs)[nq:])]
    try:
        outs = I._call(f, (), vals)
    except (hi.Unsupported, hi.OutOfFuel) as e:
        raise ExecSkip(type(e).__name__ + ":" + str(e)[:60]) from e
    ids = sorted(sim.pos)
    m = len(ids)
    st = sim.state.reshape([2] * m) if m else sim.state
    if m:
        st = np.transpose(st, [sim.pos[i] for i in ids])
    return outs, [complex(x) for x in st.reshape(-1)], ids


# --------------------------------------------------------------------------- interpreter vs documented table
INTERP_OPS = [  # (tket ext attr, op, nq, nfloat, through rotation?, documented function giving the matrix)
    ("quantum", "H", 1, 0, False, ("quantum", "h")), ("quantum", "X", 1, 0, False, ("quantum", "x")),
    ("quantum", "Y", 1, 0, False, ("quantum", "y")), ("quantum", "Z", 1, 0, False, ("quantum", "z")),
    ("quantum", "S", 1, 0, False, ("quantum", "s")), ("quantum", "Sdg", 1, 0, False, ("quantum", "sdg")),
    ("quantum", "T", 1, 0, False, ("quantum", "t")), ("quantum", "Tdg", 1, 0, False, ("quantum", "tdg")),
    ("quantum", "V", 1, 0, False, ("quantum", "v")), ("quantum", "Vdg", 1, 0, False, ("quantum", "vdg")),
    ("quantum", "CX", 2, 0, False, ("quantum", "cx")), ("quantum", "CY", 2, 0, False, ("quantum", "cy")),
    ("quantum", "CZ", 2, 0, False, ("quantum", "cz")), ("quantum", "Toffoli", 3, 0, False, ("quantum", "toffoli")),
    ("quantum", "Rx", 1, 1, True, ("quantum", "rx")), ("quantum", "Ry", 1, 1, True, ("quantum", "ry")),
    ("quantum", "Rz", 1, 1, True, ("quantum", "rz")), ("quantum", "CRz", 2, 1, True, ("quantum", "crz")),
    ("qsystem", "Rz", 1, 1, False, ("qsystem", "rz")), ("qsystem", "ZZPhase", 2, 1, False, ("qsystem", "zz_phase")),
    ("qsystem", "PhasedX", 1, 2, False, ("qsystem", "phased_x")),
]


def _build_op_program(extname, name, nq, nf, rot):
    import hugr.ops as ops
    import hugr.tys as ht
    from hugr.build.function import Module
    from hugr.std.float import FLOAT_T
    from guppylang_internals.std._internal.compiler import tket_exts as T

    ext = {"quantum": T.QUANTUM_EXTENSION, "qsystem": T.QSYSTEM_EXTENSION}[extname]
    RE = T.ROTATION_EXTENSION
    ROT = ht.ExtType(RE.get_type("rotation"))
    m = Module()
    f = m.define_function("g", [ht.Qubit] * nq + [FLOAT_T] * nf, [ht.Qubit] * nq)
    ins = list(f.inputs())
    qs, fs = ins[:nq], ins[nq:]
    if rot:
        fs = [f.add_op(ops.ExtOp(RE.get_op("from_halfturns_unchecked"), ht.FunctionType([FLOAT_T], [ROT])), x) for x in fs]
    pt = ROT if rot else FLOAT_T
    node = f.add_op(ops.ExtOp(ext.get_op(name), ht.FunctionType([ht.Qubit] * nq + [pt] * nf, [ht.Qubit] * nq)), *qs, *fs)
    f.set_outputs(*[node[i] for i in range(nq)])
    return m.hugr


def _interp_matrix(h, nq, floats):
    d = 1 << nq
    cols = []
    for c in range(d):
        _o, st, _ids = interp_run(h, "g", nq, floats, basis_state(nq, c))
        cols.append(st)
    return [[cols[c][r] for c in range(d)] for r in range(d)]


def crosscheck_interpreter():
    """-> dict op -> 'ok' | 'ok-after-radians-override' | 'MISMATCH' | 'skipped:<why>'; the documented reading is
    rotation operand h  <->  theta = h*pi;  qsystem float operand x  <->  theta = x (radians)"""
    res = {}
    probes = [[0.3, -0.7], [2.6, 0.45], [-1.25, 3.5]]
    for extname, name, nq, nf, rot, dockey in INTERP_OPS:
        label = f"tket.{extname}.{name}"
        try:
            h = _build_op_program(extname, name, nq, nf, rot)

            def agree(unit):
                for pv in (probes if nf else [[]]):
                    fl = pv[:nf]
                    M = _interp_matrix(h, nq, fl)
                    theta_ht = [(x if rot else x / math.pi) * unit for x in fl]  # in half turns for doc_matrix
                    D = doc_matrix(dockey, theta_ht)
                    if not matrices_same_up_to_phase(M, D):
                        return False
                return True

            if agree(1.0):
                res[label] = "ok-after-radians-override" if (_override_installed and extname == "qsystem" and nf) else "ok"
            elif extname == "qsystem" and nf and not _override_installed and agree(math.pi):
                # shipped interpreter reads the float as half turns
                install_qsystem_radians_override()
                import hugr_interp as hi

                hi.forget(h) if hasattr(hi, "forget") else None
                res[label] = "ok-after-radians-override" if agree(1.0) else "MISMATCH"
            else:
                res[label] = "MISMATCH"
        except ExecSkip as e:
            res[label] = "skipped:" + str(e)
        except Exception as e:  # noqa: BLE001
            res[label] = "skipped:" + type(e).__name__ + ":" + str(e)[:60]
    return res


def short_hash(s):
    return hashlib.sha1(s.encode()).hexdigest()[:10]


ONE_Q = [k for k, v in GATES.items() if v == (1, 0)]
TWO_Q = [("quantum", "cx"), ("quantum", "cy"), ("quantum", "cz"), ("quantum", "ch"), ("qsystem", "zz_max")]

# functions -> tket ops their lowering uses (to exclude a function when the interpreter disagrees with the documented
# table on one of its ops: an assumption failure of the interpreter, not of /repo)
FN_OPS = {
    ("quantum", "ch"): ["tket.quantum.Ry", "tket.quantum.CZ"],
    ("qsystem", "zz_max"): ["tket.qsystem.ZZPhase"],
    ("qsystem", "rz"): ["tket.qsystem.Rz"],
    ("qsystem", "zz_phase"): ["tket.qsystem.ZZPhase"],
    ("qsystem", "phased_x"): ["tket.qsystem.PhasedX"],
}
for _ext, _op, _nq, _nf, _rot, _key in INTERP_OPS:
    FN_OPS.setdefault(_key, [f"tket.{_ext}.{_op}"])

CRZ_ANGLES = [
    ("div", ("neg", ("pi",)), 4.0),                      # -pi / 4
    ("lit", 2.6),                                         # more than a full turn
    ("sub", ("lit", 0.3), ("lit", 0.45)),                 # negative by arithmetic
    ("mul", ("pi",), 5.0),                                # pi * 5
    ("rdiv", 1.5, ("lit", 0.4)),                          # 1.5 / angle(0.4)
    ("add", ("div", ("pi",), 4.0), ("mul", ("par", 0), 3.0)),  # pi/4 + angle(f0)*3
    ("neg", ("par", 1)),                                  # -a
    ("div", ("par", 1), 2.0),                             # a / 2
]


def _systematic_programs(usable):
    progs = []
    # every fixed one-qubit gate on both qubits, with rotations by the special angles in between
    steps = []
    rots = [k for k in (("quantum", "rx"), ("quantum", "ry"), ("quantum", "rz"), ("qsystem", "rz")) if k in usable]
    for i, key in enumerate([k for k in ONE_Q if k in usable]):
        steps.append((key[0], key[1], (i % 2,), []))
        if rots:
            r = rots[i % len(rots)]
            steps.append((r[0], r[1], ((i + 1) % 2,), [("lit", SPECIAL_HT[i % len(SPECIAL_HT)])]))
        if i % 3 == 0 and ("quantum", "cx") in usable:
            steps.append(("quantum", "cx", (i % 2, (i + 1) % 2), []))
    progs.append(("oneq", 2, 2, steps))
    # rotations with angle arithmetic
    steps = []
    for i, a in enumerate(CRZ_ANGLES):
        for j, r in enumerate(rots):
            steps.append((r[0], r[1], ((i + j) % 2,), [a]))
        if ("qsystem", "phased_x") in usable:
            steps.append(("qsystem", "phased_x", (i % 2,), [a, CRZ_ANGLES[(i + 3) % len(CRZ_ANGLES)]]))
        if ("quantum", "cz") in usable:
            steps.append(("quantum", "cz", (0, 1), []))
    progs.append(("rot", 2, 2, steps))
    # two-qubit gates with the qubits in every order
    sep = [k for k in (("quantum", "ry"), ("quantum", "rz")) if k in usable]
    for key in TWO_Q + [("quantum", "crz"), ("qsystem", "zz_phase")]:
        if key not in usable:
            continue
        steps = []
        for idx, (a, b) in enumerate(itertools.permutations(range(3), 2)):
            angs = [CRZ_ANGLES[idx % len(CRZ_ANGLES)]] if GATES[key][1] else []
            steps.append((key[0], key[1], (a, b), angs))
            if sep:
                steps.append((sep[0][0], sep[0][1], (a,), [("lit", 0.3 + 0.1 * idx)]))
                steps.append((sep[-1][0], sep[-1][1], (b,), [("lit", 0.17 + 0.2 * idx)]))
        progs.append(("order:" + key[1], 3, 2, steps))
        if GATES[key][1]:  # second pass so that every ordered pair meets other angles as well
            steps = []
            for idx, (a, b) in enumerate(itertools.permutations(range(3), 2)):
                steps.append((key[0], key[1], (a, b), [CRZ_ANGLES[(idx + 3) % len(CRZ_ANGLES)]]))
                if sep:
                    steps.append((sep[0][0], sep[0][1], (b,), [("lit", 0.41 + 0.1 * idx)]))
            progs.append(("order2:" + key[1], 3, 2, steps))
    if ("quantum", "toffoli") in usable:
        for n in (3, 4):
            steps = []
            for idx, tr in enumerate(itertools.permutations(range(n), 3)):
                steps.append(("quantum", "toffoli", tr, []))
                if sep:
                    steps.append((sep[0][0], sep[0][1], (tr[idx % 3],), [("lit", 0.23 + 0.05 * idx)]))
            progs.append((f"order:toffoli{n}", n, 2, steps))
    # the same circuits through the functional wrappers (`q0, q1 = quantum_functional.cy(q0, q1)`), every qubit order
    progs = [(t, n, k, st, False) for t, n, k, st in progs]
    progs += [("f:" + t, n, k, [to_functional(x) for x in st], True) for t, n, k, st, _o in progs]
    return progs


def _compare_circuit(hugr, fname, n, steps, params, psi0, owned=False):
    """-> None if equal up to global phase, else short description"""
    outs, real, ids = interp_run(hugr, fname, n, params, psi0)
    if ids != list(range(n)):
        return f"qubits left {ids}"
    if owned:
        # the program returns (q0, …, q_{n-1}): read the state in the order of the RETURNED qubits
        import numpy as np

        order = [getattr(o, "id", None) for o in outs[:n]]
        if sorted(x for x in order if x is not None) != list(range(n)):
            return f"returned values {outs!r} are not the {n} qubits"
        real = [complex(x) for x in np.transpose(np.array(real).reshape([2] * n), order).reshape(-1)]
    want = oracle_state(n, steps, params, psi0)
    if same_up_to_phase(real, want):
        return None
    ov = abs(sum(x.conjugate() * y for x, y in zip(real, want)))
    return f"|<documented|emulated>| = {ov:.9f}"


def _params_ok(steps, params):
    return all(angle_ok(a, params) for st in steps for a in st[3])


MEAS_OPS = [  # label, call template, target taken @owned, return annotation, index of the bit in the outputs, kind, consumed
    ("quantum.measure", "quantum.measure(q{k})", True, "bool", 0, "measure", True),
    ("qubit.measure", "q{k}.measure()", True, "bool", 0, "measure", True),
    ("quantum.project_z", "quantum.project_z(q{k})", False, "bool", 0, "project", False),
    ("qubit.project_z", "q{k}.project_z()", False, "bool", 0, "project", False),
    ("quantum.reset", "quantum.reset(q{k})", False, None, None, "reset", False),
    ("quantum.discard", "quantum.discard(q{k})", True, None, None, "discard", True),
    ("qubit.discard", "q{k}.discard()", True, None, None, "discard", True),
    ("qsystem.measure", "qsystem.measure(q{k})", True, "bool", 0, "measure", True),
    ("qsystem.measure_and_reset", "qsystem.measure_and_reset(q{k})", False, "bool", 0, "measure_reset", False),
    ("qsystem.reset", "qsystem.reset(q{k})", False, None, None, "reset", False),
    ("qsystem.qfree", "qsystem.qfree(q{k})", True, None, None, "discard", True),
    # functional wrappers: the qubit is taken @owned and (unless consumed) returned first
    ("quantum.functional.reset", "quantum_functional.reset(q{k})", True, "qubit", None, "reset", False),
    ("quantum.functional.project_z", "quantum_functional.project_z(q{k})", True, "tuple[qubit, bool]", 1, "project", False),
    ("qsystem.functional.reset", "qsystem_functional.reset(q{k})", True, "qubit", None, "reset", False),
    ("qsystem.functional.measure_and_reset", "qsystem_functional.measure_and_reset(q{k})", True, "tuple[qubit, bool]", 1,
     "measure_reset", False),
    ("qsystem.functional.measure", "qsystem_functional.measure(q{k})", True, "bool", 0, "measure", True),
    ("qsystem.functional.qfree", "qsystem_functional.qfree(q{k})", True, None, None, "discard", True),
]


def meas_src(fname, n, k, call, owned, ret):
    ps = ", ".join(f"q{i}: qubit" + (" @ owned" if (owned and i == k) else "") for i in range(n))
    c = call.format(k=k)
    if ret:
        return f"@guppy\ndef {fname}({ps}) -> {ret}:\n    return {c}\n"
    return f"@guppy\ndef {fname}({ps}) -> None:\n    {c}\n"


def meas_expected(kind, psi, n, k, b):
    p = project(psi, n, k, b)
    if kind == "measure" or kind == "discard":
        return drop_axis(p, n, k, b)
    if kind == "project":
        return p
    return flip_to_zero(p, n, k, b)  # measure_reset, reset


def tie_exec(ctx, prelude):
    import random

    import feed
    import hugr_interp as hi

    # ---- (3) interpreter's matrices vs the documented table, once per run
    cc = crosscheck_interpreter()
    ctx.extra["interp_vs_documented"] = cc
    bad = sorted(k for k, v in cc.items() if not v.startswith("ok"))
    ctx.extra["interp_qsystem_radians_override"] = _override_installed
    usable = {k for k in GATES if not any(o in bad for o in FN_OPS[k])}
    if bad:
        # an assumption failure of the reference interpreter, not a /repo violation: the affected functions are left
        # out of the execution oracle (binding / wiring ties still cover them) and the fact is reported
        ctx.extra["exec_excluded_functions"] = sorted(f"{m}.{f}" for m, f in set(GATES) - usable)
        print(f"NOTE property=C20 reference interpreter disagrees with the documented matrices on {bad}; "
              f"functions using them are excluded from the execution oracle", file=sys.stderr)
    for k, v in cc.items():
        ctx.count("interp-vs-doc " + k, nontrivial=v.startswith("ok"), kind="interp-crosscheck:" + v.split(":")[0])

    def lower_fn(src, fname):
        mod = feed.load(src, prelude=prelude)
        try:
            return feed.lower(getattr(mod, fname)).hugr
        finally:
            feed.unload(mod)

    def report(tag, n, nparams, steps, params, seed, what, src, owned=False):
        st_txt = "; ".join(step_src(s) for s in steps)
        key = f"exec:{n}q [{st_txt}] f={list(params)} init={seed}"
        ctx.violation(
            key,
            f"emulated state differs from the documented matrices ({what}) for `{st_txt}` on {n} qubits, f={list(params)}, "
            f"initial state {seed}",
            {"kind": "exec", "n": n, "nparams": nparams, "steps": [[s[0], s[1], list(s[2]), s[3]] for s in steps],
             "params": list(params), "init": seed, "source": src, "program": tag, "what": what, "owned": owned},
        )

    def state_for(n, seed):
        if seed == "zero":
            return basis_state(n, 0)
        if isinstance(seed, str) and seed.startswith("basis"):
            return basis_state(n, int(seed[5:]))
        return rand_state(random.Random(seed), n)

    def run_program(tag, n, nparams, steps, param_sets, seeds, owned=False):
        owned = owned or any(st[0].endswith(".functional") for st in steps)
        src = circuit_src("circ", n, nparams, steps, owned)
        try:
            h = lower_fn(src, "circ")
        except Exception as e:  # noqa: BLE001
            ctx.count(f"exec {tag}", nontrivial=False, kind="exec:lowering-failed")
            ctx.broke(f"execution oracle: circuit `{tag}` does not lower: {type(e).__name__}: {str(e)[:120]}")
            return
        for params in param_sets:
            if not _params_ok(steps, params):
                ctx.bump("exec:skipped-undefined-angle")
                continue
            for seed in seeds:
                psi0 = state_for(n, seed)
                case = f"exec {tag} {short_hash(src)} f={params} init={seed}"
                try:
                    diff = _compare_circuit(h, "circ", n, steps, params, psi0, owned)
                except ExecSkip as e:
                    ctx.count(case, nontrivial=False, kind="exec:skipped:" + str(e).split(":")[0])
                    continue
                except Exception as e:  # noqa: BLE001
                    ctx.count(case, nontrivial=False, kind="exec:interp-error")
                    ctx.broke(f"execution oracle: interpreter error on `{tag}`: {type(e).__name__}: {str(e)[:120]}")
                    continue
                ctx.count(case, nontrivial=len(steps) > 0,
                          kind="exec:" + ("f:" if tag.startswith("f:") else "") + tag.removeprefix("f:").split(":")[0].rstrip("0123456789"))
                if diff is None:
                    continue
                # shrink: the first single step that already differs on its own
                found = False
                seen = set()
                for st in steps:
                    sk = step_src(st)
                    if sk in seen:
                        continue
                    seen.add(sk)
                    try:
                        s1 = circuit_src("circ", n, nparams, [st], owned)
                        h1 = lower_fn(s1, "circ")
                        d1 = _compare_circuit(h1, "circ", n, [st], params, psi0, owned)
                    except Exception:  # noqa: BLE001
                        continue
                    if d1 is not None:
                        report(tag, n, nparams, [st], params, seed, d1, s1, owned)
                        found = True
                        break
                if not found:
                    report(tag, n, nparams, steps, params, seed, diff, src, owned)
                return  # one report per program

    # ---- replay / corpus
    todo = []
    if ctx.replay_in and ctx.replay_in.get("replay", {}).get("kind") == "exec":
        todo.append(ctx.replay_in["replay"])
    cdir = os.path.join(os.path.dirname(os.path.dirname(os.path.dirname(os.path.abspath(__file__)))), "corpus", "c20")
    if os.path.isdir(cdir):
        import json

        for fn in sorted(os.listdir(cdir)):
            for r in json.load(open(os.path.join(cdir, fn))):
                if r.get("kind") == "exec":
                    todo.append(r)

    def tup(x):
        return tuple(tup(i) for i in x) if isinstance(x, list) else x

    for i, r in enumerate(todo):
        steps = [(s[0], s[1], tuple(s[2]), [tup(a) for a in s[3]]) for s in r["steps"]]
        if all(base_key(s[0], s[1]) in usable for s in steps):
            run_program(f"corpus{i}", r["n"], r["nparams"], steps, [tuple(r["params"])], [r["init"]], bool(r.get("owned")))

    # ---- (1) systematic circuits
    pvals = [(0.3, -0.85), (2.75, 0.125)] if ctx.quick else [(0.3, -0.85), (2.75, 0.125), (-1.5, 4.0), (0.0, 1.0)]
    for tag, n, nparams, steps, owned in _systematic_programs(usable):
        seeds = [ctx.rng.getrandbits(30), "zero"] if ctx.quick else [ctx.rng.getrandbits(30), ctx.rng.getrandbits(30), "zero"]
        run_program(tag, n, nparams, steps, pvals, seeds, owned)
    # ---- random circuits
    keys = sorted(usable)
    for i in range(ctx.n(12, 600)):
        n = ctx.rng.choice([2, 3, 3, 4])
        ks = [k for k in keys if GATES[k][0] <= n]
        fun = i % 2 == 1  # every other random circuit mixes functional wrappers and in-place calls on owned qubits
        steps = [rand_step(ctx.rng, n, 2, ks, fun) for _ in range(ctx.rng.choice([6, 10, 14]))]
        params = [(round(ctx.rng.uniform(-3, 3), 3), round(ctx.rng.uniform(-3, 3), 3)) for _ in range(2)]
        run_program(("f:" if fun else "") + f"random{i}", n, 2, steps, params, [ctx.rng.getrandbits(30), "zero"], fun)

    # ---- (1b) measurement / reset / project_z: projective Z-basis semantics with forced outcomes
    n = 3
    for label, call, owned, ret, bit_ix, kind, consumed in MEAS_OPS:
        bit = bit_ix is not None
        for k in ([1] if ctx.quick else [0, 1, 2]):
            src = meas_src("m", n, k, call, owned, ret)
            try:
                h = lower_fn(src, "m")
            except Exception as e:  # noqa: BLE001
                ctx.count(f"exec-meas {label} k={k}", nontrivial=False, kind="exec:lowering-failed")
                ctx.broke(f"execution oracle: `{label}` does not lower: {type(e).__name__}: {str(e)[:120]}")
                continue
            seeds = [f"basis{x}" for x in range(1 << n)] + [ctx.rng.getrandbits(30) for _ in range(ctx.n(2, 6))]
            for seed in seeds:
                psi0 = state_for(n, seed)
                forced = kind in ("measure", "project", "measure_reset")
                for b in ((0, 1) if forced else (0,)):  # unforced collapse (reset, discard): one run, either branch accepted
                    if forced and prob_of(psi0, n, k, b) < 1e-6:
                        continue
                    case = f"exec-meas {label} k={k} init={seed} forced={b if forced else '-'}"
                    try:
                        outs, real, ids = interp_run(h, "m", n, [], psi0, measure=[b] if forced else None)
                    except ExecSkip as e:
                        ctx.count(case, nontrivial=False, kind="exec:skipped:" + str(e).split(":")[0])
                        continue
                    except Exception as e:  # noqa: BLE001
                        ctx.count(case, nontrivial=False, kind="exec:interp-error")
                        ctx.broke(f"execution oracle: interpreter error on `{label}`: {type(e).__name__}: {str(e)[:120]}")
                        continue
                    ctx.count(case, nontrivial=not str(seed).startswith("basis"), kind="exec-meas:" + kind)
                    problems = []
                    if bit:
                        got = hi.from_hugr(outs[bit_ix], "bool")
                        if got != bool(b):
                            problems.append(f"returned {got} for forced outcome {b}")
                    want_ids = [i for i in range(n) if not (consumed and i == k)]
                    if owned and not consumed and getattr(outs[0], "id", None) != k:
                        problems.append(f"first returned value {outs[0]!r} is not the qubit passed in")
                    if ids != want_ids:
                        problems.append(f"live qubits {ids}, expected {want_ids}")
                    else:
                        branches = [b] if forced else [x for x in (0, 1) if prob_of(psi0, n, k, x) > 1e-9]
                        if not any(same_up_to_phase(real, meas_expected(kind, psi0, n, k, x)) for x in branches):
                            problems.append("post-measurement state is not the normalised Z-basis projection"
                                            + (" reset to |0>" if kind in ("reset", "measure_reset") else ""))
                    if problems:
                        ctx.violation(
                            f"exec-meas:{label} k={k} init={seed} forced={b if forced else '-'}",
                            f"{label} on qubit {k} of {n} (initial state {seed}, forced outcome {b if forced else 'none'}): "
                            + "; ".join(problems),
                            {"kind": "exec-meas", "op": label, "k": k, "n": n, "init": seed, "forced": b if forced else None,
                             "source": src, "problems": problems},
                        )
